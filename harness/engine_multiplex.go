package main

// Engine "multiplex" (property C04), oracle only (no model counterpart): real channels.
//   mux-direct / mux-bidir / mux-relay: N concurrent calls with distinct tagged payloads of
//     mixed sizes (single-frame to multi-frame), per-call handler latency (responses complete
//     out of order), some callers with short deadlines or cancelling, all over ONE connection
//     (both directions in mux-bidir, through a relay in mux-relay).  A frame-parsing TCP proxy
//     on every hop checks that call-req ids in flight are pairwise distinct.  Oracle: every
//     caller gets the response produced for ITS request (the handler returns the tag and a
//     digest of the request it saw, and a body derived from the tag) or an error; callers
//     with a generous deadline must succeed.
//   mux-gap: a slow caller reading a 5-fragment response (checksum type none) from a raw
//     peer while the connection's writer fails: the caller must get the complete response
//     or an error, never a response with a hole.
//   mux-dupid: a raw peer re-uses a call-req id that is still in flight: the library must
//     answer with a protocol error frame; re-use after completion must be accepted.
//   Every second group of three mux scenarios runs with cancel propagation: PropagateCancel on the
//     serving side (and on the relay), SendCancelOnContextCanceled on the callers, 3 callers in 10
//     cancelling: cancel frames are handled while other calls of the connection complete.
//   mux-rawcancel (engine_multiplex_cancel.go): a raw peer with many calls in flight on one
//     connection sends cancel frames for live, finished and unknown ids.
// Race detector (both tiers, engine_multiplex_cancel.go): the harness is rebuilt with -race (binary
// cached under build/bin by a hash of the library and harness sources) and run as a child process
// with VERIF_RACE_CHILD set: mux scenarios, mux-rawcancel, a hammer on one exchange set, a connection
// churn, cancel frames crossing the final response in a relay, and the mex
// scripts.  A race report or a runtime "concurrent map" fatal error in the child is a violation.

import (
	"bytes"
	"encoding/binary"
	"fmt"
	"hash/fnv"
	"io"
	"math/rand"
	"net"
	"os"
	"strings"
	"sync"
	"sync/atomic"
	"time"

	tchannel "github.com/uber/tchannel-go"
	"github.com/uber/tchannel-go/raw"
	"github.com/uber/tchannel-go/relay/relaytest"
	"golang.org/x/net/context"
)

func init() { engines["multiplex"] = engineMultiplex }

// ---------------------------------------------------------------- wire-observing proxy

type wireProxy struct {
	ln     net.Listener
	target string
	mu     sync.Mutex
	// inflight[d] = ids of call reqs sent in direction d (0 = dialer -> target) not yet answered
	inflight    [2]map[uint32]bool
	violations  []string
	conns       int
	callFrames  int
	switches    int // consecutive call frames (same direction) with different ids while the first is unfinished
	lastID      [2]uint32
	lastOpen    [2]bool
	maxInflight int
	closed      int32
	pipes       []net.Conn
}

func newWireProxy(target string) (*wireProxy, error) {
	ln, err := net.Listen("tcp", "127.0.0.1:0")
	if err != nil {
		return nil, err
	}
	p := &wireProxy{ln: ln, target: target}
	p.inflight[0], p.inflight[1] = map[uint32]bool{}, map[uint32]bool{}
	go p.accept()
	return p, nil
}

func (p *wireProxy) addr() string { return p.ln.Addr().String() }

func (p *wireProxy) close() {
	atomic.StoreInt32(&p.closed, 1)
	p.ln.Close()
	p.mu.Lock()
	for _, c := range p.pipes {
		c.Close()
	}
	p.mu.Unlock()
}

func (p *wireProxy) accept() {
	for {
		c, err := p.ln.Accept()
		if err != nil {
			return
		}
		t, err := net.Dial("tcp", p.target)
		if err != nil {
			c.Close()
			continue
		}
		p.mu.Lock()
		p.conns++
		p.pipes = append(p.pipes, c, t)
		p.mu.Unlock()
		go p.pump(0, c, t)
		go p.pump(1, t, c)
	}
}

func (p *wireProxy) pump(dir int, from, to net.Conn) {
	defer to.Close()
	defer from.Close()
	hdr := make([]byte, 16)
	for {
		if _, err := io.ReadFull(from, hdr); err != nil {
			return
		}
		size := int(binary.BigEndian.Uint16(hdr))
		if size < 16 {
			return
		}
		body := make([]byte, size-16)
		if _, err := io.ReadFull(from, body); err != nil {
			return
		}
		p.observe(dir, hdr[2], binary.BigEndian.Uint32(hdr[4:]), body)
		if _, err := to.Write(append(append([]byte{}, hdr...), body...)); err != nil {
			return
		}
	}
}

func (p *wireProxy) observe(dir int, mt byte, id uint32, body []byte) {
	p.mu.Lock()
	defer p.mu.Unlock()
	flags := byte(0)
	if len(body) > 0 {
		flags = body[0]
	}
	switch mt {
	case 0x03: // call req
		if p.inflight[dir][id] {
			p.violations = append(p.violations, fmt.Sprintf("call req with id %d sent (direction %d) while a call with that id is still in flight on the connection", id, dir))
		}
		p.inflight[dir][id] = true
		if n := len(p.inflight[dir]); n > p.maxInflight {
			p.maxInflight = n
		}
	case 0x04, 0x14: // call res / continue: answers a request of the other direction
		if flags&1 == 0 {
			delete(p.inflight[1-dir], id)
		}
	case 0xff: // error frame ends the call it names
		delete(p.inflight[1-dir], id)
	}
	if mt == 0x03 || mt == 0x13 || mt == 0x04 || mt == 0x14 {
		p.callFrames++
		if p.lastOpen[dir] && p.lastID[dir] != id {
			p.switches++
		}
		p.lastID[dir], p.lastOpen[dir] = id, flags&1 != 0
	}
}

// ---------------------------------------------------------------- tagged echo handler

func tagStream(tag uint64, n int) []byte {
	r := rand.New(rand.NewSource(int64(tag)*2654435761 + 12345))
	b := make([]byte, n)
	r.Read(b)
	return b
}

func digest(b []byte) []byte {
	h := fnv.New64a()
	h.Write(b)
	return h.Sum(nil)
}

// request:  arg2 = tag:8 latencyMs:2 respLen:4 ; arg3 = stream(tag^0x5a5a, reqLen)
// response: arg2 = tag:8 digest(request arg3):8 ; arg3 = stream(tag, respLen)
type muxHandler struct {
	seen sync.Map // tag -> count
}

func (h *muxHandler) OnError(ctx context.Context, err error) {}

func (h *muxHandler) Handle(ctx context.Context, args *raw.Args) (*raw.Res, error) {
	if len(args.Arg2) != 14 {
		return nil, fmt.Errorf("bad request header")
	}
	tag := binary.BigEndian.Uint64(args.Arg2)
	lat := time.Duration(binary.BigEndian.Uint16(args.Arg2[8:])) * time.Millisecond
	respLen := int(binary.BigEndian.Uint32(args.Arg2[10:]))
	if c, ok := h.seen.LoadOrStore(tag, 1); ok {
		h.seen.Store(tag, c.(int)+1)
	}
	if lat > 0 {
		select {
		case <-time.After(lat):
		case <-ctx.Done():
		}
	}
	a2 := make([]byte, 8, 16)
	binary.BigEndian.PutUint64(a2, tag)
	a2 = append(a2, digest(args.Arg3)...)
	return &raw.Res{Arg2: a2, Arg3: tagStream(tag, respLen)}, nil
}

type muxCall struct {
	tag      uint64
	reqLen   int
	respLen  int
	latMs    int
	mode     int // 0 generous deadline, 1 short deadline, 2 cancelled by the caller
	limitMs  int
	reverse  bool // issued by the server side towards the client (mux-bidir)
	err      error
	verdict  string
	duration time.Duration
}

func (mc *muxCall) run(ch *tchannel.Channel, hostPort, service string, start <-chan struct{}) {
	a2 := make([]byte, 14)
	binary.BigEndian.PutUint64(a2, mc.tag)
	binary.BigEndian.PutUint16(a2[8:], uint16(mc.latMs))
	binary.BigEndian.PutUint32(a2[10:], uint32(mc.respLen))
	a3 := tagStream(mc.tag^0x5a5a, mc.reqLen)
	timeout := 20 * time.Second
	if mc.mode == 1 {
		timeout = time.Duration(mc.limitMs) * time.Millisecond
	}
	ctx, cancel := tchannel.NewContext(timeout)
	defer cancel()
	if mc.mode == 2 {
		go func() {
			time.Sleep(time.Duration(mc.limitMs) * time.Millisecond)
			cancel()
		}()
	}
	<-start
	t0 := time.Now()
	r2, r3, _, err := raw.Call(ctx, ch, hostPort, service, "echo", a2, a3)
	mc.duration = time.Since(t0)
	mc.err = err
	if err != nil {
		if mc.mode == 0 {
			mc.verdict = fmt.Sprintf("call tag %d (req %d B, resp %d B, handler latency %d ms) with a 20 s deadline failed: %v", mc.tag, mc.reqLen, mc.respLen, mc.latMs, err)
		}
		return
	}
	want2 := make([]byte, 8, 16)
	binary.BigEndian.PutUint64(want2, mc.tag)
	want2 = append(want2, digest(a3)...)
	if !bytes.Equal(r2, want2) {
		other := uint64(0)
		if len(r2) >= 8 {
			other = binary.BigEndian.Uint64(r2)
		}
		if len(r2) == 16 && other != mc.tag {
			mc.verdict = fmt.Sprintf("caller of tag %d received the response produced for tag %d", mc.tag, other)
		} else {
			mc.verdict = fmt.Sprintf("caller of tag %d: response arg2 %x, want %x (the handler saw a modified request or the response was modified)", mc.tag, r2, want2)
		}
		return
	}
	if want3 := tagStream(mc.tag, mc.respLen); !bytes.Equal(r3, want3) {
		mc.verdict = fmt.Sprintf("caller of tag %d: response arg3 differs from the body produced for its tag (got %d bytes, want %d; first difference at %d)", mc.tag, len(r3), len(want3), firstDiff(r3, want3))
	}
}

func firstDiff(a, b []byte) int {
	for i := 0; i < len(a) && i < len(b); i++ {
		if a[i] != b[i] {
			return i
		}
	}
	if len(a) < len(b) {
		return len(a)
	}
	return len(b)
}

// ---------------------------------------------------------------- mux scenarios

func muxScenario(rng *rand.Rand, topo string, ncalls int, tagBase uint64, cancelOn bool, o *Out) (verdict string, key string) {
	var closers []func()
	defer func() {
		for i := len(closers) - 1; i >= 0; i-- {
			closers[i]()
		}
	}()
	csums := []tchannel.ChecksumType{tchannel.ChecksumTypeCrc32, tchannel.ChecksumTypeCrc32C, tchannel.ChecksumTypeFarmhash}
	copts := func() *tchannel.ChannelOptions {
		return &tchannel.ChannelOptions{Logger: tchannel.NullLogger,
			DefaultConnectionOptions: tchannel.ConnectionOptions{ChecksumType: csums[rng.Intn(len(csums))],
				PropagateCancel: cancelOn, SendCancelOnContextCanceled: cancelOn}}
	}
	server, err := tchannel.NewChannel("svc", copts())
	if err != nil {
		return "harness: " + err.Error(), ""
	}
	closers = append(closers, server.Close)
	sh := &muxHandler{}
	server.Register(raw.Wrap(sh), "echo")
	if err := server.ListenAndServe("127.0.0.1:0"); err != nil {
		return "harness: " + err.Error(), ""
	}
	var proxies []*wireProxy
	mkProxy := func(target string) *wireProxy {
		p, err := newWireProxy(target)
		if err != nil {
			panic(err)
		}
		proxies = append(proxies, p)
		closers = append(closers, p.close)
		return p
	}
	dialAddr := ""
	if topo == "relay" {
		p2 := mkProxy(server.PeerInfo().HostPort)
		rh := relaytest.NewStubRelayHost()
		rly, err := tchannel.NewChannel("relay", &tchannel.ChannelOptions{RelayHost: rh, Logger: tchannel.NullLogger,
			DefaultConnectionOptions: tchannel.ConnectionOptions{PropagateCancel: cancelOn}})
		if err != nil {
			return "harness: " + err.Error(), ""
		}
		closers = append(closers, rly.Close)
		if err := rly.ListenAndServe("127.0.0.1:0"); err != nil {
			return "harness: " + err.Error(), ""
		}
		rh.Add("svc", p2.addr())
		dialAddr = mkProxy(rly.PeerInfo().HostPort).addr()
	} else {
		dialAddr = mkProxy(server.PeerInfo().HostPort).addr()
	}
	client, err := tchannel.NewChannel("cli", copts())
	if err != nil {
		return "harness: " + err.Error(), ""
	}
	closers = append(closers, client.Close)
	ch := &muxHandler{}
	if topo == "bidir" {
		client.Register(raw.Wrap(ch), "echo")
		if err := client.ListenAndServe("127.0.0.1:0"); err != nil {
			return "harness: " + err.Error(), ""
		}
	}
	// warm-up: establishes the one connection every call of the case shares
	{
		w := &muxCall{tag: tagBase, reqLen: 10, respLen: 10}
		st := make(chan struct{})
		close(st)
		w.run(client, dialAddr, "svc", st)
		if w.verdict != "" || w.err != nil {
			return fmt.Sprintf("warm-up call failed: %v %s", w.err, w.verdict), ""
		}
	}
	sizes := []int{0, 1, 100, 1000, 20000, 65000, 66000, 140000, 200000, 330000}
	calls := make([]*muxCall, ncalls)
	big := 0
	for i := range calls {
		mc := &muxCall{tag: tagBase + 1 + uint64(i), reqLen: sizes[rng.Intn(len(sizes))], respLen: sizes[rng.Intn(len(sizes))], latMs: pick(rng, 0, 0, 1, 3, 8, 15, 30)}
		if mc.reqLen+mc.respLen > 100000 {
			big++
			if big > 8 {
				mc.reqLen, mc.respLen = 300, 70000
			}
		}
		switch x := rng.Intn(10); {
		case x == 0:
			mc.mode, mc.limitMs = 1, pick(rng, 1, 2, 5, 10, 20)
		case x == 1 || (cancelOn && x <= 3):
			mc.mode, mc.limitMs = 2, pick(rng, 0, 1, 3, 8, 16)
		}
		mc.reverse = topo == "bidir" && rng.Intn(2) == 0
		calls[i] = mc
	}
	start := make(chan struct{})
	var wg sync.WaitGroup
	for _, mc := range calls {
		wg.Add(1)
		go func(mc *muxCall) {
			defer wg.Done()
			if mc.reverse {
				mc.run(server, client.PeerInfo().HostPort, "cli", start)
			} else {
				mc.run(client, dialAddr, "svc", start)
			}
		}(mc)
	}
	close(start)
	wg.Wait()

	var order []uint64
	multi, failedExpected := 0, 0
	for _, mc := range calls {
		if mc.reqLen > 65000 || mc.respLen > 65000 {
			multi++
		}
		if mc.err != nil && mc.mode != 0 {
			failedExpected++
		}
		if mc.verdict != "" && verdict == "" {
			verdict = mc.verdict
		}
		order = append(order, mc.tag)
	}
	// a handler must have run at most once per tag (no request delivered to two handlers)
	for _, h := range []*muxHandler{sh, ch} {
		h.seen.Range(func(k, v interface{}) bool {
			if v.(int) > 1 && verdict == "" {
				verdict = fmt.Sprintf("the request with tag %d was dispatched to a handler %d times", k.(uint64), v.(int))
			}
			return true
		})
	}
	conns, inter, maxIn := 0, 0, 0
	for _, p := range proxies {
		p.mu.Lock()
		conns += p.conns
		inter += p.switches
		if p.maxInflight > maxIn {
			maxIn = p.maxInflight
		}
		if len(p.violations) > 0 && verdict == "" {
			verdict = p.violations[0]
		}
		p.mu.Unlock()
	}
	o.Hist("topology=" + topo)
	if cancelOn {
		o.Hist("cancel-propagation=on")
	}
	o.Hist(fmt.Sprintf("calls=%d", (ncalls/8)*8))
	o.Hist(fmt.Sprintf("connections-per-hop=%d", conns/len(proxies)))
	if inter > 0 {
		o.Hist("frames-of-different-calls-interleaved-on-the-wire")
	}
	if maxIn >= 4 {
		o.Hist("max-ids-in-flight>=4")
	}
	if failedExpected > 0 {
		o.Hist("with-timeouts-or-cancels")
	}
	if len(o.samples) < 5 && topo != "direct" {
		o.Sample(map[string]interface{}{"sub": "mux-" + topo, "calls": ncalls, "multi_frame_calls": multi, "timed_out_or_cancelled": failedExpected,
			"frame_switches_between_calls": inter, "max_ids_in_flight": maxIn, "connections": conns})
	}
	return verdict, fmt.Sprint(topo, ncalls, order[0], multi, failedExpected, cancelOn)
}

// ---------------------------------------------------------------- mux-gap

type failConn struct {
	net.Conn
	fail *int32
}

func (c failConn) Write(b []byte) (int, error) {
	if atomic.LoadInt32(c.fail) != 0 {
		return 0, fmt.Errorf("verif: injected write failure")
	}
	return c.Conn.Write(b)
}

func countPoint(s *Sched, name string, id uint32) int {
	n := 0
	for _, e := range s.Log() {
		if e.Name == name && e.ID == id {
			n++
		}
	}
	return n
}

func waitPoint(s *Sched, name string, id uint32, n int, d time.Duration) bool {
	deadline := time.Now().Add(d)
	for countPoint(s, name, id) < n {
		if time.Now().After(deadline) {
			return false
		}
		time.Sleep(time.Millisecond)
	}
	time.Sleep(15 * time.Millisecond) // the delivery follows the point immediately
	return true
}

// gapScenario: returns verdict and whether the interesting schedule was actually reached.
func gapScenario(rng *rand.Rand, chunk int) (verdict string, reached string) {
	sched := NewSched()
	defer sched.Close()
	ln, err := net.Listen("tcp", "127.0.0.1:0")
	if err != nil {
		return "harness: " + err.Error(), ""
	}
	defer ln.Close()
	resArg2 := []byte("hdr")
	// 5 fragments: R0 (arg2 + first piece of arg3), R1..R4
	var frames [][]byte
	var resArg3 []byte
	for total := 4*chunk - 200; ; total += 50 {
		resArg3 = []byte(randBytes(rng, total))
		frames = buildRawCallFrames(false, 0, rawCallResHeader(0, make([]byte, 25), nil), 0, [3][]byte{{}, resArg2, resArg3}, chunk)
		if len(frames) == 5 {
			break
		}
		if len(frames) > 5 || total > 6*chunk {
			return "harness: could not build a 5-fragment response", ""
		}
	}
	sent012 := make(chan struct{})
	cmd := make(chan string, 8)
	defer close(cmd)
	peerErr := make(chan string, 1)
	var callID uint32
	go func() {
		conn, err := ln.Accept()
		if err != nil {
			peerErr <- "accept: " + err.Error()
			return
		}
		defer conn.Close()
		if _, _, err := rawServerHandshake(conn); err != nil {
			peerErr <- "handshake: " + err.Error()
			return
		}
		for {
			f, err := readRawFrame(conn, 3*time.Second)
			if err != nil {
				peerErr <- "reading call req: " + err.Error()
				return
			}
			if f.Type == 0x03 || f.Type == 0x13 {
				atomic.StoreUint32(&callID, f.ID)
				if f.Payload[0]&1 == 0 {
					break
				}
			}
		}
		id := atomic.LoadUint32(&callID)
		send := func(i int) bool {
			fr := append([]byte{}, frames[i]...)
			binary.BigEndian.PutUint32(fr[4:], id)
			conn.SetWriteDeadline(time.Now().Add(2 * time.Second))
			_, err := conn.Write(fr)
			return err == nil
		}
		send(0)
		send(1)
		send(2)
		close(sent012)
		for s := range cmd {
			switch s {
			case "send3":
				send(3)
			case "send4":
				send(4)
			}
		}
	}()

	var failWrites int32
	client, err := tchannel.NewChannel("gap-client", &tchannel.ChannelOptions{Logger: tchannel.NullLogger,
		Dialer: func(ctx context.Context, network, hostPort string) (net.Conn, error) {
			c, err := net.Dial(network, hostPort)
			if err != nil {
				return nil, err
			}
			return failConn{c, &failWrites}, nil
		}})
	if err != nil {
		return "harness: " + err.Error(), ""
	}
	defer client.Close()
	ctx, cancel := tchannel.NewContext(8 * time.Second)
	defer cancel()
	call, err := client.BeginCall(ctx, ln.Addr().String(), "svc", "m", nil)
	if err != nil {
		return "harness: BeginCall: " + err.Error(), ""
	}
	if err := tchannel.NewArgWriter(call.Arg2Writer()).Write([]byte("a2")); err != nil {
		return "harness: arg2: " + err.Error(), ""
	}
	if err := tchannel.NewArgWriter(call.Arg3Writer()).Write([]byte("a3")); err != nil {
		return "harness: arg3: " + err.Error(), ""
	}
	resp := call.Response()
	var got2 []byte
	if err := tchannel.NewArgReader(resp.Arg2Reader()).Read(&got2); err != nil {
		return "harness: response arg2: " + err.Error(), ""
	}
	select {
	case <-sent012:
	case e := <-peerErr:
		return "harness: raw peer: " + e, ""
	case <-time.After(3 * time.Second):
		return "harness: raw peer did not send", ""
	}
	id := atomic.LoadUint32(&callID)
	const point = "mex.forward.afterLookup"
	if !waitPoint(sched, point, id, 3, 2*time.Second) {
		return "", "frames 0-2 not forwarded"
	}
	// frame 3: the reader blocks on the full queue
	cmd <- "send3"
	if !waitPoint(sched, point, id, 4, 2*time.Second) {
		return "", "frame 3 not looked up"
	}
	// the connection's writer fails: connectionError -> stopExchanges sets the error latch
	atomic.StoreInt32(&failWrites, 1)
	c2ctx, c2cancel := tchannel.NewContext(2 * time.Second)
	_, _, _, err2 := raw.Call(c2ctx, client, ln.Addr().String(), "svc", "m2", []byte("x"), []byte("y"))
	c2cancel()
	if err2 == nil {
		return "harness: second call succeeded although writes fail", ""
	}
	time.Sleep(20 * time.Millisecond)
	// the caller reads the pieces of arg3 carried by R0 and R1: one queue slot becomes free
	r3, err := resp.Arg3Reader()
	if err != nil {
		return "", "arg3 reader: " + err.Error()
	}
	c0 := len(parseChunks(frames[0])[2])
	c1 := len(parseChunks(frames[1])[0])
	part := make([]byte, c0+c1)
	if _, err := io.ReadFull(r3, part); err != nil {
		return "", "caller got an error before the late frame: " + err.Error()
	}
	// the last fragment arrives
	cmd <- "send4"
	reached = "late-frame-not-read-by-the-connection"
	if waitPoint(sched, point, id, 5, 400*time.Millisecond) {
		reached = "late-frame-forwarded-after-a-dropped-frame"
	}
	rest, rerr := io.ReadAll(r3)
	cerr := r3.Close()
	if rerr != nil || cerr != nil {
		return "", reached + ";caller-got-error"
	}
	got3 := append(part, rest...)
	if !bytes.Equal(got3, resArg3) {
		return fmt.Sprintf("[c04:frame-gap-after-error-latch] the caller read response arg3 to the end without error but got %d of %d bytes (first difference at %d): the fragment that arrived while the error latch was set and the queue was full was dropped and a later fragment was still delivered (checksum type none hides it)",
			len(got3), len(resArg3), firstDiff(got3, resArg3)), reached + ";caller-completed"
	}
	return "", reached + ";caller-completed-correctly"
}

// parseChunks returns the chunks of a raw call res / continue frame built by buildRawCallFrames.
func parseChunks(frame []byte) [][]byte {
	pc, err := parseRawCall(frame[2], frame[16:])
	if err != nil {
		return nil
	}
	return pc.Chunks
}

// ---------------------------------------------------------------- mux-dupid

func dupIDScenario(rng *rand.Rand, reuseAfterDone bool) string {
	server, err := tchannel.NewChannel("svc", &tchannel.ChannelOptions{Logger: tchannel.NullLogger})
	if err != nil {
		return "harness: " + err.Error()
	}
	defer server.Close()
	server.Register(raw.Wrap(&muxHandler{}), "echo")
	if err := server.ListenAndServe("127.0.0.1:0"); err != nil {
		return "harness: " + err.Error()
	}
	conn, err := net.Dial("tcp", server.PeerInfo().HostPort)
	if err != nil {
		return "harness: " + err.Error()
	}
	defer conn.Close()
	if _, err := rawClientHandshake(conn); err != nil {
		return "harness: handshake: " + err.Error()
	}
	id := uint32(2 + rng.Intn(1000))
	a2 := make([]byte, 14)
	binary.BigEndian.PutUint64(a2, 77)
	binary.BigEndian.PutUint16(a2[8:], 0)
	binary.BigEndian.PutUint32(a2[10:], 10)
	hdr := rawCallReqHeader(2000, make([]byte, 25), "svc", [][2]string{{"as", "raw"}, {"cn", "rawpeer"}})
	frames := buildRawCallFrames(true, id, hdr, 0, [3][]byte{[]byte("echo"), a2, []byte(randBytes(rng, 3000))}, 1200)
	if reuseAfterDone {
		// positive control: the same id twice, the second after the first completed
		for round := 0; round < 2; round++ {
			for _, fr := range frames {
				conn.Write(fr)
			}
			for {
				f, err := readRawFrame(conn, 3*time.Second)
				if err != nil {
					return fmt.Sprintf("re-using id %d after the first call completed: no response to call %d (%v)", id, round+1, err)
				}
				if f.Type == 0xff {
					return fmt.Sprintf("re-using id %d after the first call completed was answered with an error frame (code %#x)", id, f.Payload[0])
				}
				if (f.Type == 0x04 || f.Type == 0x14) && f.ID == id && f.Payload[0]&1 == 0 {
					break
				}
			}
		}
		return ""
	}
	// first fragment only (more fragments follow): the call is in flight; then the same id again
	conn.Write(frames[0])
	conn.Write(frames[0])
	for {
		f, err := readRawFrame(conn, 3*time.Second)
		if err != nil {
			return fmt.Sprintf("a call req re-using in-flight id %d was not answered with a protocol error frame (connection: %v)", id, err)
		}
		if f.Type == 0xff {
			if f.Payload[0] != 0xff {
				return fmt.Sprintf("duplicate in-flight id %d answered with error code %#x, want protocol error 0xff", id, f.Payload[0])
			}
			return ""
		}
	}
}

// ---------------------------------------------------------------- engine

func engineMultiplex(rng *rand.Rand, n int, tier string, o *Out) {
	raceChild := os.Getenv("VERIF_RACE_CHILD") != ""
	if !raceChild {
		// the race-detector child runs first: if it reports a race the in-process scenarios are
		// skipped (this process could die of the same race with a far less readable report)
		muxN, mexN := 4, 40
		if tier == "thorough" {
			muxN, mexN = 12, 150
		}
		if c04RaceRun(rng.Int63(), muxN, mexN, o) {
			return
		}
	}
	topos := []string{"direct", "bidir", "relay"}
	tagBase := uint64(1000)
	if !raceChild {
		// (under the race detector sync.Pool drops objects at random; the census stays off there)
		c04InstallPools()
	}
	for c := 0; c < n; c++ {
		topo := topos[c%3]
		ncalls := pick(rng, 4, 8, 12, 16, 24, 32)
		v, key := muxScenario(rng, topo, ncalls, tagBase, (c/3)%2 == 0, o)
		tagBase += 100
		if d := c04PoolDuplicates(); d != "" && v == "" {
			// pool oracle (engine_c04pool.go): after the scenario no pooled object may be in its pool twice
			v = "pool census after the scenario: " + d
		}
		o.Oracle("mux-"+topo, fmt.Sprintf("m%d", c), true, key, v)
	}
	for c := 0; c < n/6+2; c++ {
		v, key := c04RawCancelScenario(rng)
		if strings.HasPrefix(v, "harness:") {
			fmt.Fprintln(os.Stderr, "mux-rawcancel:", v)
			o.Hist("mux-rawcancel:harness-problem")
			v = ""
		}
		o.Hist("mux-rawcancel")
		o.Oracle("mux-rawcancel", fmt.Sprintf("c%d", c), true, fmt.Sprint(c, key), v)
	}
	if raceChild {
		v := c04MexHammer(rng, 400*time.Millisecond)
		o.Hist("mex-hammer")
		o.Oracle("mex-hammer", "h0", true, "h0", v)
		v = c04PeerChurn(rng, 400*time.Millisecond)
		if strings.HasPrefix(v, "harness:") {
			fmt.Fprintln(os.Stderr, "peer-churn:", v)
			o.Hist("peer-churn:harness-problem")
			v = ""
		}
		o.Hist("peer-churn")
		o.Oracle("peer-churn", "p0", true, "p0", v)
		v = c04RelayCancelCross(rng, 60)
		if strings.HasPrefix(v, "harness:") {
			fmt.Fprintln(os.Stderr, "relay-cancel-cross:", v)
			o.Hist("relay-cancel-cross:harness-problem")
			v = ""
		}
		o.Hist("relay-cancel-cross")
		o.Oracle("relay-cancel-cross", "x0", true, "x0", v)
		return
	}
	// mux-drain (engine_c04drain.go): responses completely delivered when the connection fails are still received
	c04DrainRun(rng, n/3+8, o)
	ngap := n/6 + 2
	for c := 0; c < ngap; c++ {
		chunk := pick(rng, 600, 1000, 4000, 20000)
		v, reached := gapScenario(rng, chunk)
		if strings.HasPrefix(v, "harness:") {
			o.Hist("mux-gap:harness-problem")
			fmt.Fprintln(os.Stderr, "mux-gap:", v)
			v = ""
		}
		o.Hist("mux-gap:" + reached)
		if c == 0 {
			o.Sample(map[string]interface{}{"sub": "mux-gap", "fragment_payload": chunk, "schedule": reached})
		}
		o.Oracle("mux-gap", fmt.Sprintf("g%d", c), true, fmt.Sprint(chunk, c), v)
	}
	for c := 0; c < n/8+3; c++ {
		v, key := slowDestScenario(rng)
		if strings.HasPrefix(v, "harness:") {
			fmt.Fprintln(os.Stderr, "mux-slowdest:", v)
			o.Hist("mux-slowdest:harness-problem")
			v = ""
		}
		o.Hist("mux-slowdest:" + key)
		o.Oracle("mux-slowdest", fmt.Sprintf("s%d", c), true, fmt.Sprint(c, key), v)
	}
	for c := 0; c < 4; c++ {
		v := dupIDScenario(rng, c%2 == 1)
		if v != "" && c%2 == 1 && strings.Contains(v, "no response to call 2") {
			// Re-use of an id right after its call completed can lose the second call through the known
			// finding c04:stale-removal-by-id (the finished call's watcher goroutine runs inboundExpired
			// late and removes the NEWER exchange registered under the same id): timing dependent.
			// A failure that repeats 3 times out of 3 is not that: it stays an untagged violation.
			again := 0
			for t := 0; t < 3; t++ {
				if dupIDScenario(rng, true) != "" {
					again++
				}
			}
			if again < 3 {
				v = fmt.Sprintf("[c04:stale-removal-by-id] %s (timing dependent: %d of 3 repetitions passed)", v, 3-again)
			}
		}
		o.Hist(fmt.Sprintf("mux-dupid:reuse-after-done=%v", c%2 == 1))
		o.Oracle("mux-dupid", fmt.Sprintf("d%d", c), true, fmt.Sprint(c), v)
	}
}
