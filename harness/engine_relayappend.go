package main

import (
	"bytes"
	"fmt"
	"math/rand"
	"strings"
	"sync"
	"time"

	tchannel "github.com/uber/tchannel-go"
	"github.com/uber/tchannel-go/raw"
	"github.com/uber/tchannel-go/relay"
	"github.com/uber/tchannel-go/relay/relaytest"
	"golang.org/x/net/context"
)

// relayappend (C02, C08): a real relay whose host appends key/value pairs to arg2; the
// destination must see the original pairs followed by the appended ones, arg1/arg3
// unchanged, and accept every re-emitted frame's checksum.

func init() { engines["relayappend"] = engineRelayAppend }

type captureHandler struct {
	mu   sync.Mutex
	last *raw.Args
}

func (h *captureHandler) Handle(ctx context.Context, args *raw.Args) (*raw.Res, error) {
	h.mu.Lock()
	h.last = &raw.Args{Caller: args.Caller, Format: args.Format, Method: args.Method, Arg2: append([]byte{}, args.Arg2...), Arg3: append([]byte{}, args.Arg3...)}
	h.mu.Unlock()
	return &raw.Res{Arg2: args.Arg2, Arg3: args.Arg3}, nil
}
func (h *captureHandler) OnError(ctx context.Context, err error) {}

func kvBuffer(pairs [][2]string) []byte {
	b := []byte{byte(len(pairs) >> 8), byte(len(pairs))}
	for _, kv := range pairs {
		b = append(b, str2(kv[0])...)
		b = append(b, str2(kv[1])...)
	}
	return b
}

func parseKVBuffer(b []byte) ([][2]string, bool) {
	if len(b) < 2 {
		return nil, len(b) == 0
	}
	n := int(b[0])<<8 | int(b[1])
	pairs := emittedOrder(b[2:], 2, n)
	used := 2
	for _, kv := range pairs {
		used += 4 + len(kv[0]) + len(kv[1])
	}
	return pairs, used == len(b)
}

func engineRelayAppend(rng *rand.Rand, n int, tier string, o *Out) {
	// every pooled checksum of this run is tracked (harness/overlay/zz_verif_c02.go, quarantine
	// mode): the trace of each case is judged by the ownership discipline (engine_ckown.go, sub ckown)
	tchannel.VerifCkTrack(true, true)
	defer tchannel.VerifCkTrack(false, false)
	ckJudge := newC02Judge()
	defer func() {
		time.Sleep(30 * time.Millisecond)
		c02EmitTrace(o, ckJudge, "ra-end", false, "appending relay, after the last case: ")
	}()
	server, err := tchannel.NewChannel("svc", nil)
	if err != nil {
		panic(err)
	}
	defer server.Close()
	h := &captureHandler{}
	server.Register(raw.Wrap(h), "echo")
	if err := server.ListenAndServe("127.0.0.1:0"); err != nil {
		panic(err)
	}
	var appendsMu sync.Mutex
	var appends [][2]string
	rh := relaytest.NewStubRelayHost()
	rh.SetFrameFn(func(f relay.CallFrame, conn *relay.Conn) {
		appendsMu.Lock()
		defer appendsMu.Unlock()
		for _, kv := range appends {
			f.Arg2Append([]byte(kv[0]), []byte(kv[1]))
		}
	})
	rly, err := tchannel.NewChannel("relay", &tchannel.ChannelOptions{RelayHost: rh})
	if err != nil {
		panic(err)
	}
	defer rly.Close()
	if err := rly.ListenAndServe("127.0.0.1:0"); err != nil {
		panic(err)
	}
	rh.Add("svc", server.PeerInfo().HostPort)
	client, err := tchannel.NewChannel("client", nil)
	if err != nil {
		panic(err)
	}
	defer client.Close()

	for c := 0; c < n; c++ {
		var orig, app [][2]string
		for i := pick(rng, 0, 1, 2, 5); i > 0; i-- {
			orig = append(orig, [2]string{fmt.Sprintf("k%d", i), randBytes(rng, pick(rng, 0, 1, 10, 200))})
		}
		if rng.Intn(5) == 0 {
			orig = append(orig, [2]string{"big", randBytes(rng, pick(rng, 30000, 60000, 65000))})
		}
		for i := pick(rng, 0, 1, 1, 2, 4); i > 0; i-- {
			app = append(app, [2]string{fmt.Sprintf("a%d", i), randBytes(rng, pick(rng, 0, 3, 100, 16000))})
		}
		appendsMu.Lock()
		appends = app
		appendsMu.Unlock()
		arg2 := kvBuffer(orig)
		arg3 := []byte(randBytes(rng, pick(rng, 0, 1, 12, 1000, 70000, 140000)))
		method := "echo"
		csum := []tchannel.ChecksumType{tchannel.ChecksumTypeCrc32, tchannel.ChecksumTypeCrc32C, tchannel.ChecksumTypeNone}[rng.Intn(3)]
		// how arg3 is written: whole / pieces with flushes / trailing flush with nothing after it
		style := rng.Intn(4)
		ctx, cancel := tchannel.NewContextBuilder(5 * time.Second).SetFormat(tchannel.Thrift).Build()
		verdict := ""
		refused := false
		func() {
			defer cancel()
			call, err := client.BeginCall(ctx, rly.PeerInfo().HostPort, "svc", method, &tchannel.CallOptions{Format: tchannel.Thrift})
			_ = csum
			if err != nil {
				verdict = "BeginCall through the relay failed: " + err.Error()
				return
			}
			if err := tchannel.NewArgWriter(call.Arg2Writer()).Write(arg2); err != nil {
				verdict = "arg2 write failed: " + err.Error()
				return
			}
			w, err := call.Arg3Writer()
			if err != nil {
				verdict = "arg3 writer: " + err.Error()
				return
			}
			switch style {
			case 0:
				w.Write(arg3)
			case 1:
				half := len(arg3) / 2
				w.Write(arg3[:half])
				w.Flush()
				w.Write(arg3[half:])
			case 2:
				w.Write(arg3)
				w.Flush() // a continuation frame with an empty arg3 chunk follows
			case 3:
				w.Flush()
				w.Write(arg3)
				w.Flush()
				w.Flush()
			}
			if err := w.Close(); err != nil {
				verdict = "arg3 close failed: " + err.Error()
				return
			}
			var r2, r3 []byte
			if err := tchannel.NewArgReader(call.Response().Arg2Reader()).Read(&r2); err != nil {
				if len(arg2) >= 30000 && len(app) > 0 && strings.Contains(err.Error(), "fragmented arg2 not supported for appends") {
					// documented refusal: an arg2 that does not end in the first frame cannot be appended to;
					// nothing was forwarded, so no checksum is at stake (out of C02's domain)
					refused = true
					return
				}
				verdict = fmt.Sprintf("call through an appending relay failed (arg3 style %d, %d appended pairs): the three arguments were written and flushed without an error but were not read back: %v", style, len(app), err)
				return
			}
			if err := tchannel.NewArgReader(call.Response().Arg3Reader()).Read(&r3); err != nil {
				verdict = "reading response arg3 failed: " + err.Error()
				return
			}
			h.mu.Lock()
			got := h.last
			h.mu.Unlock()
			if got == nil {
				verdict = "handler not reached"
				return
			}
			pairs, ok := parseKVBuffer(got.Arg2)
			want := append(append([][2]string{}, orig...), app...)
			if len(app) == 0 && len(orig) == 0 {
				want = nil
			}
			if !ok || fmt.Sprint(pairs) != fmt.Sprint(want) {
				verdict = fmt.Sprintf("destination saw %d arg2 pairs (well-formed %v), want the %d original pairs followed by the %d appended ones", len(pairs), ok, len(orig), len(app))
			} else if !bytes.Equal(got.Arg3, arg3) || got.Method != method {
				verdict = "arg1/arg3 changed by the appending relay: the destination read back other bytes than were written"
			} else if !bytes.Equal(r3, arg3) {
				verdict = "response arg3 differs: the caller read back other bytes than the handler wrote"
			}
		}()
		if refused {
			o.Hist("append refused: arg2 continues past the first frame")
			continue
		}
		o.Hist(fmt.Sprintf("append=%d style=%d", imin(len(app), 2), style))
		if c < 2 {
			o.Sample(map[string]interface{}{"sub": "relayappend", "orig_pairs": len(orig), "appended_pairs": len(app), "arg2": len(arg2), "arg3": len(arg3), "arg3_write_style": style})
		}
		o.Oracle("relayappend", fmt.Sprintf("ra%d", c), len(app) > 0, fmt.Sprint(c, len(orig), len(app), len(arg3), style), verdict)
		c02EmitTrace(o, ckJudge, fmt.Sprintf("ra%dt", c), len(app) > 0,
			fmt.Sprintf("call through an appending relay (%d appended pairs, arg3 %d bytes, write style %d): ", len(app), len(arg3), style))
	}
}
