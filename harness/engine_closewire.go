package main

// C07 engine "closewire": real channels over loopback with a concurrent workload; Close lands at a
// random moment (once or twice) on the server, on the client or on a relay in the middle.
// Oracle only (no model): read off the property statement --
//   every call returns by its deadline with the echoed arguments or with an error;
//   a call whose handler was entered (the call was accepted) completes successfully;
//   no call times out (a request dropped without reply shows up as a timeout);
//   the closed channel's State() only moves forward, reaches ChannelClosed once nothing is in
//   flight and signals ClosedChan; afterwards new calls from it fail locally.
// Sub "listener": tnet.Wrap -- no Accept returns a connection after Close returned.

import (
	"fmt"
	"math/rand"
	"net"
	"strings"
	"sync"
	"sync/atomic"
	"time"

	tchannel "github.com/uber/tchannel-go"
	"github.com/uber/tchannel-go/raw"
	"github.com/uber/tchannel-go/relay"
	"github.com/uber/tchannel-go/tnet"
	"golang.org/x/net/context"
)

func init() { engines["closewire"] = engineCloseWire }

type wireRelayHost struct {
	ch   *tchannel.Channel
	dest string
}

func (r *wireRelayHost) SetChannel(ch *tchannel.Channel) { r.ch = ch }
func (r *wireRelayHost) Start(f relay.CallFrame, c *relay.Conn) (tchannel.RelayCall, error) {
	return &wireRelayCall{peer: r.ch.RootPeers().GetOrAdd(r.dest)}, nil
}

type wireRelayCall struct{ peer *tchannel.Peer }

func (c *wireRelayCall) Destination() (*tchannel.Peer, bool) { return c.peer, true }
func (c *wireRelayCall) SentBytes(uint16)                    {}
func (c *wireRelayCall) ReceivedBytes(uint16)                {}
func (c *wireRelayCall) CallResponse(relay.RespFrame)        {}
func (c *wireRelayCall) Succeeded()                          {}
func (c *wireRelayCall) Failed(string)                       {}
func (c *wireRelayCall) End()                                {}

type wireCall struct {
	key     string
	started time.Time
	ended   time.Time
	err     error
	ok      bool
}

func classifyErr(err error) string {
	if err == nil {
		return "ok"
	}
	if se, ok := err.(tchannel.SystemError); ok {
		return fmt.Sprintf("sys:%d", se.Code())
	}
	if err == tchannel.ErrConnectionClosed {
		return "conn-closed"
	}
	s := err.Error()
	switch {
	case strings.Contains(s, "invalid state"):
		return "invalid-state"
	case strings.Contains(s, "no peers"), strings.Contains(s, "no connection"):
		return "no-peer"
	case strings.Contains(s, "mexset has been shutdown"):
		return "conn-failed"
	case strings.Contains(s, "closed"):
		return "closed-other"
	case strings.Contains(s, "refused"), strings.Contains(s, "reset"), strings.Contains(s, "EOF"), strings.Contains(s, "broken pipe"):
		return "network"
	}
	return "other:" + s
}

func wireCase(rng *rand.Rand, topo int, ncallers, ncalls int, closeAfter time.Duration, closes int, optcfg int) (verdict string, hist map[string]int) {
	hist = map[string]int{}
	var entered sync.Map // key -> true: handler was entered
	handler := raw.Wrap(rawHandlerFunc(func(ctx context.Context, args *raw.Args) (*raw.Res, error) {
		entered.Store(string(args.Arg2), true)
		d := time.Duration(args.Arg3[0]) * 100 * time.Microsecond
		time.Sleep(d)
		return &raw.Res{Arg2: args.Arg2, Arg3: args.Arg3}, nil
	}))
	srv, err := tchannel.NewChannel("srv", c07ccWireOpts(optcfg, nil))
	if err != nil {
		return "harness: " + err.Error(), hist
	}
	srv.Register(handler, "echo")
	if err := srv.ListenAndServe("127.0.0.1:0"); err != nil {
		return "harness: " + err.Error(), hist
	}
	defer srv.Close()
	target := srv.PeerInfo().HostPort
	var rel *tchannel.Channel
	if topo == 2 {
		rh := &wireRelayHost{dest: target}
		rel, err = tchannel.NewChannel("relay", c07ccWireOpts(optcfg, rh))
		if err != nil {
			return "harness: " + err.Error(), hist
		}
		if err := rel.ListenAndServe("127.0.0.1:0"); err != nil {
			return "harness: " + err.Error(), hist
		}
		defer rel.Close()
		target = rel.PeerInfo().HostPort
	}
	cli, err := tchannel.NewChannel("cli", c07ccWireOpts(optcfg, nil))
	if err != nil {
		return "harness: " + err.Error(), hist
	}
	defer cli.Close()
	closing := []*tchannel.Channel{srv, cli, rel}[topo]

	// state poller: forward only
	var backwards atomic.Value
	stopPoll := make(chan struct{})
	pollDone := make(chan struct{})
	go func() {
		defer close(pollDone)
		last := closing.State()
		for {
			select {
			case <-stopPoll:
				return
			default:
			}
			s := closing.State()
			if s < last {
				backwards.Store(fmt.Sprintf("channel state moved backwards: %v -> %v", last, s))
			}
			last = s
			time.Sleep(20 * time.Microsecond)
		}
	}()

	var closeCalled atomic.Int64
	var mu sync.Mutex
	var calls []*wireCall
	var wg sync.WaitGroup
	seeds := make([]int64, ncallers)
	for i := range seeds {
		seeds[i] = rng.Int63()
	}
	t0 := time.Now()
	for g := 0; g < ncallers; g++ {
		wg.Add(1)
		go func(g int) {
			defer wg.Done()
			r := rand.New(rand.NewSource(seeds[g]))
			for k := 0; k < ncalls; k++ {
				c := &wireCall{key: fmt.Sprintf("%d-%d", g, k), started: time.Now()}
				ctx, cancel := tchannel.NewContextBuilder(2 * time.Second).DisableTracing().SetRetryOptions(&tchannel.RetryOptions{RetryOn: tchannel.RetryNever}).Build()
				arg3 := []byte{byte(r.Intn(30)), byte(g), byte(k)}
				a2, a3, _, err := raw.Call(ctx, cli, target, "srv", "echo", []byte(c.key), arg3)
				cancel()
				c.ended = time.Now()
				c.err = err
				c.ok = err == nil && string(a2) == c.key && string(a3) == string(arg3)
				mu.Lock()
				calls = append(calls, c)
				mu.Unlock()
				time.Sleep(time.Duration(r.Intn(1500)) * time.Microsecond)
			}
		}(g)
	}
	time.Sleep(closeAfter)
	closePanic := ""
	for i := 0; i < closes; i++ {
		closeCalled.Store(time.Now().UnixNano())
		st := closing.State()
		if p := c07ccSafeClose(closing); p != nil && closePanic == "" {
			closePanic = fmt.Sprintf("Close #%d on a channel in state %v PANICKED: %v (unrecovered this kills the process together with every call being drained)", i+1, st, p)
		}
		if i+1 < closes {
			time.Sleep(time.Duration(rng.Intn(2000)) * time.Microsecond)
		}
	}
	wg.Wait()
	// nothing is in flight any more: the channel must reach Closed and signal it
	reached := false
	select {
	case <-closing.ClosedChan():
		reached = true
	case <-time.After(3 * time.Second):
	}
	close(stopPoll)
	<-pollDone
	_ = t0
	if closePanic != "" {
		return closePanic, hist
	}

	for _, c := range calls {
		cl := classifyErr(c.err)
		if c.err == nil && !c.ok {
			cl = "wrong-echo"
		}
		hist["call="+cl]++
		_, wasEntered := entered.Load(c.key)
		switch {
		case c.ended.Sub(c.started) > 2500*time.Millisecond:
			return fmt.Sprintf("call %s returned after %v, past its 2s deadline", c.key, c.ended.Sub(c.started)), hist
		case cl == "wrong-echo":
			return fmt.Sprintf("call %s returned the wrong arguments", c.key), hist
		case cl == "sys:1":
			return fmt.Sprintf("call %s timed out (started %v before Close): the request was neither served nor declined", c.key,
				time.Duration(closeCalled.Load()-c.started.UnixNano())), hist
		case wasEntered && c.err != nil:
			// accepted (the handler ran to completion) before/while closing: must be drained and delivered
			tag := ""
			if es := c.err.Error(); cl == "sys:7" && (strings.Contains(es, "reset by peer") || strings.Contains(es, "broken pipe")) {
				// the closing side closed the socket right after queuing the last response while this
				// peer was still sending a new request: TCP reset, the drained response is lost
				tag = "[c07:close-reset-loses-response] "
			}
			who := "call"
			if topo == 1 {
				who = "outbound call of the closing client"
			}
			return fmt.Sprintf("%s%s %s was accepted (its handler ran) but the caller got %v", tag, who, c.key, c.err), hist
		case strings.HasPrefix(cl, "other:"):
			return fmt.Sprintf("call %s failed with an unexpected error: %v", c.key, c.err), hist
		}
	}
	if v := backwards.Load(); v != nil {
		return v.(string), hist
	}
	if !reached {
		return fmt.Sprintf("all calls returned but the closed channel did not reach ChannelClosed within 3s (state %v)", closing.State()), hist
	}
	if closing.State() != tchannel.ChannelClosed {
		return fmt.Sprintf("ClosedChan is closed but State() = %v", closing.State()), hist
	}
	// new calls fail locally on the closed channel
	if topo == 1 {
		ctx, cancel := tchannel.NewContext(time.Second)
		start := time.Now()
		_, _, _, err := raw.Call(ctx, cli, target, "srv", "echo", []byte("late"), []byte{0})
		cancel()
		if err == nil {
			return "a call begun on a closed channel succeeded", hist
		}
		if time.Since(start) > 500*time.Millisecond {
			return fmt.Sprintf("a call on a closed channel took %v to fail", time.Since(start)), hist
		}
		hist["late-call="+classifyErr(err)]++
	}
	return "", hist
}

type rawHandlerFunc func(ctx context.Context, args *raw.Args) (*raw.Res, error)

func (f rawHandlerFunc) Handle(ctx context.Context, args *raw.Args) (*raw.Res, error) {
	return f(ctx, args)
}
func (f rawHandlerFunc) OnError(ctx context.Context, err error) {}

// listenerCase: accept loops on a wrapped listener, concurrent dialers, Close at a random moment.
// Every dialer sends one byte: 'B' while Close has not returned, 'A' for dials started after
// Close returned.  An accepted connection that carries 'A' was accepted after Close returned.
func listenerCase(rng *rand.Rand) string {
	base, err := net.Listen("tcp", "127.0.0.1:0")
	if err != nil {
		return "harness: " + err.Error()
	}
	l := tnet.Wrap(base)
	addr := base.Addr().String()
	var closed atomic.Int32
	var late atomic.Int64
	var accepted atomic.Int64
	var wg sync.WaitGroup
	for i := 0; i < 2; i++ {
		wg.Add(1)
		go func() {
			defer wg.Done()
			for {
				c, err := l.Accept()
				if err != nil {
					return
				}
				accepted.Add(1)
				b := make([]byte, 1)
				c.SetReadDeadline(time.Now().Add(200 * time.Millisecond))
				if n, _ := c.Read(b); n == 1 && b[0] == 'A' {
					late.Add(1)
				}
				c.Close()
			}
		}()
	}
	stop := make(chan struct{})
	for i := 0; i < 3; i++ {
		wg.Add(1)
		go func() {
			defer wg.Done()
			for {
				select {
				case <-stop:
					return
				default:
				}
				mark := byte('B')
				if closed.Load() == 1 {
					mark = 'A'
				}
				if c, err := net.DialTimeout("tcp", addr, 50*time.Millisecond); err == nil {
					c.Write([]byte{mark})
					c.Close()
				}
			}
		}()
	}
	time.Sleep(time.Duration(rng.Intn(3000)) * time.Microsecond)
	l.Close()
	closed.Store(1)
	time.Sleep(3 * time.Millisecond)
	close(stop)
	wg.Wait()
	if n := late.Load(); n > 0 {
		return fmt.Sprintf("%d connection(s) dialled after Listener.Close had returned were accepted", n)
	}
	return ""
}

func engineCloseWire(rng *rand.Rand, n int, tier string, o *Out) {
	for c := 0; c < n; c++ {
		if o.fails >= 8 {
			break
		}
		topo := rng.Intn(3)
		ncallers := 2 + rng.Intn(6)
		ncalls := 2 + rng.Intn(5)
		closeAfter := time.Duration(rng.Intn(6000)) * time.Microsecond
		closes := 1 + rng.Intn(2)
		// V07: every other case runs with the optional components configured on all channels (idle
		// sweeper and / or health checks, with intervals long enough that only their start / stop
		// paths run); a few of them with a third Close
		optcfg := 0
		if c%2 == 1 {
			optcfg = 1 + rng.Intn(3)
			if rng.Intn(3) == 0 {
				closes = 3
			}
		}
		o.Hist(fmt.Sprintf("optional-components=%d", optcfg))
		verdict, hist := wireCase(rng, topo, ncallers, ncalls, closeAfter, closes, optcfg)
		for k, v := range hist {
			for i := 0; i < v; i++ {
				o.Hist(k)
			}
		}
		o.Hist([]string{"close=server", "close=client", "close=relay"}[topo])
		if c < 2 {
			o.Sample(map[string]interface{}{"sub": "closewire", "closing": []string{"server", "client", "relay"}[topo], "callers": ncallers, "calls_each": ncalls, "close_after_us": closeAfter.Microseconds(), "closes": closes, "outcomes": hist})
		}
		if verdict != "" {
			verdict += fmt.Sprintf(" [closing the %s, %d callers x %d calls, Close x%d after %v, optional components %d (1 idle sweeper, 2 health checks, 3 both)]", []string{"server", "client", "relay"}[topo], ncallers, ncalls, closes, closeAfter, optcfg)
		}
		o.Oracle("closewire", fmt.Sprintf("w%d", c), true, fmt.Sprint(topo, ncallers, ncalls, closeAfter, closes, optcfg, c), verdict)
	}
	for c := 0; c < n/2+1; c++ {
		o.Hist("listener")
		o.Oracle("listener", fmt.Sprintf("l%d", c), true, fmt.Sprint(c), listenerCase(rng))
	}
}
