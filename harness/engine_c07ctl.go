package main

// Schedule-point controller and raw-peer plumbing shared by the C07 engines (connclose,
// chanclose, closewire).  Unlike harness/sched.go it attributes every point to the operation
// in progress (the engines run one operation at a time), parks only the first goroutine that
// reaches an armed point of that operation, and records a snapshot with every point.

import (
	"fmt"
	"net"
	"strconv"
	"sync"
	"time"

	tchannel "github.com/uber/tchannel-go"
	"github.com/uber/tchannel-go/relay"
	"golang.org/x/net/context"
)

const (
	ptCE       = "conn.checkExchanges.afterReadState"
	ptInCheck  = "inbound.afterStateCheck"
	ptInNewEx  = "inbound.afterNewExchange"
	ptOutCheck = "outbound.afterStateCheck"
	ptOutNewEx = "outbound.afterNewExchange"
	ptClUnlock = "chan.Close.afterUnlock"
	ptCbEnter  = "chan.closeStateChange.enter"
	ptCbRead   = "chan.closeStateChange.afterRead"
	ptCbMin    = "chan.closeStateChange.afterMinState"
	ptRmLock   = "chan.removeClosedConn.beforeLock" // inside the callback: the connection is Closed, its removal comes next
)

type c07Event struct {
	Name string
	ID   uint32
	Snap []int64
}

type c07Park struct {
	Name   string
	ID     uint32
	LogIdx int
	resume chan struct{}
}

type c07Ctl struct {
	mu       sync.Mutex
	armed    map[string]bool
	armedID  map[string]uint32 // optional id filter per armed name (0 = any)
	taken    bool
	parkedCh chan *c07Park
	log      []c07Event
	snap     func() []int64
}

func newC07Ctl() *c07Ctl {
	c := &c07Ctl{armed: map[string]bool{}, armedID: map[string]uint32{}, parkedCh: make(chan *c07Park, 64)}
	tchannel.VerifSetHook(c.hook)
	return c
}

func (c *c07Ctl) close() {
	c.mu.Lock()
	c.armed = map[string]bool{}
	c.mu.Unlock()
	c.drain()
	tchannel.VerifSetHook(nil)
}

func (c *c07Ctl) hook(name string, id uint32) {
	var snap []int64
	if c.snap != nil {
		snap = c.snap()
	}
	c.mu.Lock()
	c.log = append(c.log, c07Event{name, id, snap})
	idx := len(c.log) - 1
	if !c.armed[name] || c.taken || (c.armedID[name] != 0 && c.armedID[name] != id) {
		c.mu.Unlock()
		return
	}
	c.taken = true
	p := &c07Park{Name: name, ID: id, LogIdx: idx, resume: make(chan struct{})}
	c.mu.Unlock()
	c.parkedCh <- p
	<-p.resume
}

// arm selects the points at which the first arriving goroutine of the next operation parks.
func (c *c07Ctl) arm(names ...string) {
	c.mu.Lock()
	c.armed = map[string]bool{}
	c.armedID = map[string]uint32{}
	for _, n := range names {
		c.armed[n] = true
	}
	c.taken = false
	c.mu.Unlock()
}

func (c *c07Ctl) armID(name string, id uint32) {
	c.mu.Lock()
	c.armed[name] = true
	c.armedID[name] = id
	c.mu.Unlock()
}

func (c *c07Ctl) disarm() {
	c.mu.Lock()
	c.armed = map[string]bool{}
	c.taken = false
	c.mu.Unlock()
}

// drain releases goroutines that parked after the operation they belong to was given up.
func (c *c07Ctl) drain() {
	for {
		select {
		case p := <-c.parkedCh:
			close(p.resume)
		default:
			return
		}
	}
}

func (c *c07Ctl) logLen() int {
	c.mu.Lock()
	defer c.mu.Unlock()
	return len(c.log)
}

func (c *c07Ctl) events(from int) []c07Event {
	c.mu.Lock()
	defer c.mu.Unlock()
	return append([]c07Event(nil), c.log[from:]...)
}

func (c *c07Ctl) count(name string, id uint32) int {
	c.mu.Lock()
	defer c.mu.Unlock()
	n := 0
	for _, e := range c.log {
		if e.Name == name && e.ID == id {
			n++
		}
	}
	return n
}

// await waits until the operation in progress parks at an armed point, or done is signalled.
// result: the park (nil when finished), and false when neither happened within the timeout.
func (c *c07Ctl) await(done <-chan struct{}, timeout time.Duration) (*c07Park, bool) {
	select {
	case p := <-c.parkedCh:
		return p, true
	case <-done:
		// the goroutine may have finished while a park of the same operation is in flight: none is
		// possible here because a parked goroutine does not finish.
		return nil, true
	case <-time.After(timeout):
		return nil, false
	}
}

// ---------------------------------------------------------------------------------------
// a raw peer connected to the channel under test

type c07Peer struct {
	conn     net.Conn
	mu       sync.Mutex
	errs     [][2]int64            // error frames (id, code) in arrival order
	callRes  map[uint32][]*rawCall // call res fragments by id
	resDone  map[uint32]bool
	callReqs []uint32 // ids of call req frames received (outbound calls of the channel)
	pings    map[uint32]chan struct{}
	eof      chan struct{}
	wmu      sync.Mutex
}

func newC07Peer(conn net.Conn) *c07Peer {
	p := &c07Peer{conn: conn, callRes: map[uint32][]*rawCall{}, resDone: map[uint32]bool{}, pings: map[uint32]chan struct{}{}, eof: make(chan struct{})}
	go p.readLoop()
	return p
}

func (p *c07Peer) readLoop() {
	defer close(p.eof)
	for {
		f, err := readRawFrame(p.conn, 30*time.Second)
		if err != nil {
			return
		}
		p.mu.Lock()
		switch f.Type {
		case 0xff:
			code := int64(-1)
			if len(f.Payload) > 0 {
				code = int64(f.Payload[0])
			}
			p.errs = append(p.errs, [2]int64{int64(f.ID), code})
		case 0x04, 0x14:
			if rc, err := parseRawCall(f.Type, f.Payload); err == nil {
				p.callRes[f.ID] = append(p.callRes[f.ID], rc)
				if rc.Flags&1 == 0 {
					p.resDone[f.ID] = true
				}
			}
		case 0x03:
			p.callReqs = append(p.callReqs, f.ID)
		case 0xd1:
			if ch := p.pings[f.ID]; ch != nil {
				close(ch)
				delete(p.pings, f.ID)
			}
		case 0xd0:
			p.mu.Unlock()
			p.write(0xd1, f.ID, nil)
			continue
		}
		p.mu.Unlock()
	}
}

func (p *c07Peer) write(mt byte, id uint32, payload []byte) error {
	p.wmu.Lock()
	defer p.wmu.Unlock()
	return writeRawFrame(p.conn, mt, id, payload)
}

func (p *c07Peer) writeBytes(b []byte) error {
	p.wmu.Lock()
	defer p.wmu.Unlock()
	p.conn.SetWriteDeadline(time.Now().Add(2 * time.Second))
	_, err := p.conn.Write(b)
	return err
}

// ping sends a ping req and returns the channel closed when its ping res arrives.
func (p *c07Peer) ping(id uint32) <-chan struct{} {
	ch := make(chan struct{})
	p.mu.Lock()
	p.pings[id] = ch
	p.mu.Unlock()
	p.write(0xd0, id, nil)
	return ch
}

// sendCallReq sends a one-frame call req (service svc, method echo, arg2 = decimal id).
func (p *c07Peer) sendCallReq(id uint32, ttlMs uint32) error {
	hdr := rawCallReqHeader(ttlMs, make([]byte, 25), "svc", [][2]string{{"cn", "rawpeer"}, {"as", "raw"}})
	frames := buildRawCallFrames(true, id, hdr, 0, [3][]byte{[]byte("echo"), []byte(strconv.Itoa(int(id))), []byte("payload")}, 60000)
	for _, f := range frames {
		if err := p.writeBytes(f); err != nil {
			return err
		}
	}
	return nil
}

// sendCallRes answers the channel's outbound call id.
func (p *c07Peer) sendCallRes(id uint32) error {
	hdr := rawCallResHeader(0, make([]byte, 25), [][2]string{{"as", "raw"}})
	frames := buildRawCallFrames(false, id, hdr, 0, [3][]byte{{}, []byte("r2"), []byte("r3-" + strconv.Itoa(int(id)))}, 60000)
	for _, f := range frames {
		if err := p.writeBytes(f); err != nil {
			return err
		}
	}
	return nil
}

func (p *c07Peer) errFrames() [][2]int64 {
	p.mu.Lock()
	defer p.mu.Unlock()
	return append([][2]int64(nil), p.errs...)
}

func (p *c07Peer) gotRes(id uint32) bool {
	p.mu.Lock()
	defer p.mu.Unlock()
	return p.resDone[id]
}

// ---------------------------------------------------------------------------------------
// the handler of the channel under test: reads the call, reports entry, waits for release

type c07Handler struct {
	id      uint32
	entered chan struct{}
	release chan struct{}
	done    chan struct{}
	werr    error
	code    int // != 0: answer with InboundCallResponse.SendSystemError(code) (set before release)
}

type c07Handlers struct {
	mu sync.Mutex
	m  map[uint32][]*c07Handler // by message id (a reused id has several generations)
}

func (hs *c07Handlers) expect(id uint32) *c07Handler {
	h := &c07Handler{id: id, entered: make(chan struct{}), release: make(chan struct{}), done: make(chan struct{})}
	hs.mu.Lock()
	hs.m[id] = append(hs.m[id], h)
	hs.mu.Unlock()
	return h
}

// take returns the oldest expectation for id that has not been entered yet.
func (hs *c07Handlers) take(id uint32) *c07Handler {
	hs.mu.Lock()
	defer hs.mu.Unlock()
	for _, h := range hs.m[id] {
		select {
		case <-h.entered:
		default:
			return h
		}
	}
	return nil
}

func (hs *c07Handlers) handle(ctx context.Context, call *tchannel.InboundCall) {
	var a2, a3 []byte
	if err := tchannel.NewArgReader(call.Arg2Reader()).Read(&a2); err != nil {
		return
	}
	if err := tchannel.NewArgReader(call.Arg3Reader()).Read(&a3); err != nil {
		return
	}
	id64, _ := strconv.ParseUint(string(a2), 10, 32)
	h := hs.take(uint32(id64))
	if h == nil {
		h = &c07Handler{release: make(chan struct{}), done: make(chan struct{}), entered: make(chan struct{})}
		close(h.release)
	}
	close(h.entered)
	<-h.release
	if h.code != 0 {
		h.werr = call.Response().SendSystemError(tchannel.NewSystemError(tchannel.SystemErrCode(h.code), "c07 handler error"))
		close(h.done)
		return
	}
	err := tchannel.NewArgWriter(call.Response().Arg2Writer()).Write(a2)
	if err == nil {
		err = tchannel.NewArgWriter(call.Response().Arg3Writer()).Write(a3)
	}
	h.werr = err
	close(h.done)
}

// a RelayHost that never relays: the services used by the engines are local handlers
type c07RelayHost struct{}

func (c07RelayHost) SetChannel(ch *tchannel.Channel) {}
func (c07RelayHost) Start(relay.CallFrame, *relay.Conn) (tchannel.RelayCall, error) {
	return nil, fmt.Errorf("no relay destinations in this harness")
}

func c07NewChannel(name string, relayHost bool, hs *c07Handlers) (*tchannel.Channel, error) {
	opts := &tchannel.ChannelOptions{Logger: tchannel.NullLogger}
	if relayHost {
		opts.RelayHost = c07RelayHost{}
		opts.RelayLocalHandlers = []string{"svc"}
	}
	ch, err := tchannel.NewChannel(name, opts)
	if err != nil {
		return nil, err
	}
	if hs != nil {
		ch.Register(tchannel.HandlerFunc(hs.handle), "echo")
	}
	return ch, nil
}

// c07Dial connects a raw peer to ch and waits until ch tracks the new connection.
func c07Dial(ch *tchannel.Channel, known map[uint32]bool) (*c07Peer, *tchannel.Connection, error) {
	conn, err := net.DialTimeout("tcp", ch.PeerInfo().HostPort, 2*time.Second)
	if err != nil {
		return nil, nil, err
	}
	if _, err := rawClientHandshake(conn); err != nil {
		conn.Close()
		return nil, nil, err
	}
	deadline := time.Now().Add(2 * time.Second)
	for time.Now().Before(deadline) {
		for _, c := range tchannel.VerifC07Conns(ch) {
			if !known[tchannel.VerifC07ConnID(c)] {
				known[tchannel.VerifC07ConnID(c)] = true
				return newC07Peer(conn), c, nil
			}
		}
		time.Sleep(200 * time.Microsecond)
	}
	conn.Close()
	return nil, nil, fmt.Errorf("connection not tracked by the channel")
}
