package main

import (
	"bytes"
	"encoding/binary"
	"errors"
	"fmt"
	"math/rand"
	"net"
	"strings"
	"sync"
	"sync/atomic"
	"time"

	tchannel "github.com/uber/tchannel-go"
	"github.com/uber/tchannel-go/raw"
	"github.com/uber/tchannel-go/relay"
)

// relayfwd (C08): a real relay channel between RAW peers (rawpeer.go) on both sides, so that
// every frame that enters and leaves the relay is seen on the wire.
//   sub lazyreq   : newLazyCallReq vs the model on valid, boundary and hostile payloads
//   sub relayfwd  : sequenced scenarios (one frame at a time, ping barriers on every
//                   connection) -- every output frame is compared with the model's and judged
//                   by an oracle that keeps its own call table
//   sub relayconc : many source connections sending calls with the same ids concurrently
//   sub relayhop2 : raw source -> relay -> relay -> raw destination

func init() { engines["relayfwd"] = engineRelayFwd }

// ---------------------------------------------------------------- raw connection

type c08Conn struct {
	c      net.Conn
	frames chan *rawFrame
	dead   chan struct{}
	ping   uint32
	wmu    sync.Mutex
}

func newC08Conn(c net.Conn) *c08Conn {
	rc := &c08Conn{c: c, frames: make(chan *rawFrame, 1<<14), dead: make(chan struct{}), ping: 0x70000000}
	go func() {
		defer close(rc.dead)
		for {
			f, err := readRawFrame(c, 120*time.Second)
			if err != nil {
				return
			}
			if f.Type == 0xd0 { // the relay pings us: answer
				rc.write(rawFrameBytes(0xd1, f.ID, nil))
				continue
			}
			rc.frames <- f
		}
	}()
	return rc
}

func (rc *c08Conn) write(b []byte) error {
	rc.wmu.Lock()
	defer rc.wmu.Unlock()
	rc.c.SetWriteDeadline(time.Now().Add(5 * time.Second))
	_, err := rc.c.Write(b)
	return err
}

// barrier sends a ping and returns every frame that arrived before the ping response:
// the relay's send queue is FIFO, so everything enqueued before the ping was handled is in.
func (rc *c08Conn) barrier(timeout time.Duration) ([]*rawFrame, error) {
	rc.ping++
	id := rc.ping
	if err := rc.write(rawFrameBytes(0xd0, id, nil)); err != nil {
		return nil, err
	}
	var got []*rawFrame
	t := time.NewTimer(timeout)
	defer t.Stop()
	for {
		select {
		case f := <-rc.frames:
			if f.Type == 0xd1 && f.ID == id {
				return got, nil
			}
			got = append(got, f)
		case <-rc.dead:
			for {
				select {
				case f := <-rc.frames:
					got = append(got, f)
					continue
				default:
				}
				break
			}
			return got, errors.New("connection closed by the relay")
		case <-t.C:
			return got, errors.New("no ping response from the relay")
		}
	}
}

// waitFrame waits for one frame (used for timer-driven output)
func (rc *c08Conn) waitFrame(timeout time.Duration) *rawFrame {
	select {
	case f := <-rc.frames:
		return f
	case <-time.After(timeout):
		return nil
	}
}

func c08FrameBytes(f *rawFrame) []byte {
	b := make([]byte, 16+len(f.Payload))
	binary.BigEndian.PutUint16(b, uint16(f.Size))
	b[2], b[3] = f.Type, f.Res1
	binary.BigEndian.PutUint32(b[4:], f.ID)
	copy(b[8:16], f.Res8)
	copy(b[16:], f.Payload)
	return b
}

// ---------------------------------------------------------------- relay host

type c08Decision struct {
	kind     int // 0 destination, 1 error, 2 rate-limit drop, 3 no peer
	dst      int
	hostPort string
	appends  [][2]string
	sys      bool
	code     byte
	msg      string
}

type c08Seen struct {
	service, method, caller, delegate, key string
	ttl                                    time.Duration
}

type c08Call struct {
	peer                     *tchannel.Peer
	sent, recv               int64
	succeeded, failed, ended int32
}

func (c *c08Call) Destination() (*tchannel.Peer, bool) { return c.peer, c.peer != nil }
func (c *c08Call) SentBytes(n uint16)                  { atomic.AddInt64(&c.sent, int64(n)) }
func (c *c08Call) ReceivedBytes(n uint16)              { atomic.AddInt64(&c.recv, int64(n)) }
func (c *c08Call) CallResponse(relay.RespFrame)        {}
func (c *c08Call) Succeeded()                          { atomic.AddInt32(&c.succeeded, 1) }
func (c *c08Call) Failed(string)                       { atomic.AddInt32(&c.failed, 1) }
func (c *c08Call) End()                                { atomic.AddInt32(&c.ended, 1) }

type c08Host struct {
	mu    sync.Mutex
	ch    *tchannel.Channel
	next  *c08Decision
	route map[string]string
	seen  *c08Seen
	last  *c08Call
}

func (h *c08Host) SetChannel(ch *tchannel.Channel) { h.ch = ch }

func (h *c08Host) Start(cf relay.CallFrame, conn *relay.Conn) (tchannel.RelayCall, error) {
	h.mu.Lock()
	defer h.mu.Unlock()
	h.seen = &c08Seen{string(cf.Service()), string(cf.Method()), string(cf.Caller()), string(cf.RoutingDelegate()), string(cf.RoutingKey()), cf.TTL()}
	call := &c08Call{}
	h.last = call
	d := h.next
	if d == nil {
		hp, ok := h.route[string(cf.Service())]
		if !ok {
			return call, errors.New("no route")
		}
		call.peer = h.ch.RootPeers().GetOrAdd(hp)
		return call, nil
	}
	switch d.kind {
	case 0:
		for _, kv := range d.appends {
			cf.Arg2Append([]byte(kv[0]), []byte(kv[1]))
		}
		call.peer = h.ch.RootPeers().GetOrAdd(d.hostPort)
		return call, nil
	case 1:
		if d.sys {
			return call, tchannel.NewSystemError(tchannel.SystemErrCode(d.code), "%s", d.msg)
		}
		return call, errors.New(d.msg)
	case 2:
		return call, relay.RateLimitDropError{}
	}
	return call, nil
}

// ---------------------------------------------------------------- environment

type c08Env struct {
	rly   *tchannel.Channel
	host  *c08Host
	lns   []net.Listener
	conns []*c08Conn // sources first, then destinations
	nsrc  int
	dstHP []string
	rconn []*tchannel.Connection // the relay's connection to each destination
}

func (e *c08Env) close() {
	for _, c := range e.conns {
		if c != nil {
			c.c.Close()
		}
	}
	for _, l := range e.lns {
		l.Close()
	}
	if e.rly != nil {
		e.rly.Close()
	}
}

// rawDest listens, accepts one connection from the relay and handshakes on it.
func c08RawDest() (net.Listener, chan *c08Conn, error) {
	ln, err := net.Listen("tcp", "127.0.0.1:0")
	if err != nil {
		return nil, nil, err
	}
	ch := make(chan *c08Conn, 4)
	go func() {
		for {
			c, err := ln.Accept()
			if err != nil {
				return
			}
			if _, _, err := rawServerHandshake(c); err != nil {
				c.Close()
				continue
			}
			ch <- newC08Conn(c)
		}
	}()
	return ln, ch, nil
}

func newC08Env(nsrc, ndst int, maxT time.Duration, cnt0 []uint32) (*c08Env, error) {
	e := &c08Env{nsrc: nsrc, host: &c08Host{}}
	rly, err := tchannel.NewChannel("c08-relay", &tchannel.ChannelOptions{RelayHost: e.host, RelayMaxTimeout: maxT})
	if err != nil {
		return nil, err
	}
	e.rly = rly
	if err := rly.ListenAndServe("127.0.0.1:0"); err != nil {
		return e, err
	}
	for i := 0; i < nsrc; i++ {
		c, err := net.DialTimeout("tcp", rly.PeerInfo().HostPort, 2*time.Second)
		if err != nil {
			return e, err
		}
		if _, err := rawClientHandshake(c); err != nil {
			return e, err
		}
		e.conns = append(e.conns, newC08Conn(c))
	}
	for j := 0; j < ndst; j++ {
		ln, ch, err := c08RawDest()
		if err != nil {
			return e, err
		}
		e.lns = append(e.lns, ln)
		hp := ln.Addr().String()
		e.dstHP = append(e.dstHP, hp)
		ctx, cancel := tchannel.NewContext(3 * time.Second)
		conn, err := rly.RootPeers().GetOrAdd(hp).GetConnection(ctx)
		cancel()
		if err != nil {
			return e, err
		}
		select {
		case rc := <-ch:
			e.conns = append(e.conns, rc)
		case <-time.After(3 * time.Second):
			return e, errors.New("raw destination was not connected")
		}
		if j < len(cnt0) && cnt0[j] != 1 {
			tchannel.VerifSetNextMessageID(conn, cnt0[j])
		}
		e.rconn = append(e.rconn, conn)
	}
	return e, nil
}

// send one frame on connection c and collect, behind ping barriers, what every connection got
func (e *c08Env) exchange(c int, frame []byte) ([][]*rawFrame, error) {
	if frame != nil {
		if err := e.conns[c].write(frame); err != nil {
			return nil, err
		}
	}
	outs := make([][]*rawFrame, len(e.conns))
	order := []int{c}
	for i := range e.conns {
		if i != c {
			order = append(order, i)
		}
	}
	for _, i := range order {
		fs, err := e.conns[i].barrier(5 * time.Second)
		outs[i] = fs
		if err != nil {
			return outs, fmt.Errorf("connection %d: %v", i, err)
		}
	}
	return outs, nil
}

// ---------------------------------------------------------------- encodings shared with the model

const c08DstMarker = "dst:" // error frames made by the raw destination start their message with this

func c08IsRelayError(f *rawFrame) bool {
	if f.Type != 0xff {
		return false
	}
	if len(f.Payload) >= 28+len(c08DstMarker) && string(f.Payload[28:28+len(c08DstMarker)]) == c08DstMarker {
		return false
	}
	return len(f.Payload) >= 28
}

func beforeColon(b []byte) []byte {
	if i := bytes.IndexByte(b, ':'); i >= 0 {
		return b[:i]
	}
	return b
}

func c08PutOuts(dst []int64, outs [][]*rawFrame) []int64 {
	n := 0
	for _, fs := range outs {
		n += len(fs)
	}
	dst = append(dst, int64(n))
	for ci, fs := range outs {
		for _, f := range fs {
			if c08IsRelayError(f) {
				ml := int(binary.BigEndian.Uint16(f.Payload[26:28]))
				msg := f.Payload[28:]
				if ml <= len(msg) {
					msg = msg[:ml]
				}
				dst = append(dst, 1, int64(ci), int64(f.ID), int64(f.Payload[0]))
				dst = putBytes(dst, f.Payload[1:26])
				dst = putBytes(dst, beforeColon(msg))
			} else {
				dst = append(dst, 0, int64(ci))
				dst = putBytes(dst, c08FrameBytes(f))
			}
		}
	}
	return dst
}

func c08PutDecision(dst []int64, d *c08Decision, nsrc int) []int64 {
	if d == nil {
		return append(dst, 2)
	}
	switch d.kind {
	case 0:
		dst = append(dst, 0, int64(nsrc+d.dst), int64(len(d.appends)))
		for _, kv := range d.appends {
			dst = putBytes(dst, []byte(kv[0]))
			dst = putBytes(dst, []byte(kv[1]))
		}
	case 1:
		dst = append(dst, 1, b2i(d.sys), int64(d.code))
		dst = putBytes(dst, []byte(d.msg))
	case 2:
		dst = append(dst, 2)
	default:
		dst = append(dst, 3)
	}
	return dst
}

// ---------------------------------------------------------------- spec-level helpers (oracle)

// c08Relayable: can a relay that looks only at the first frame route this call req?  (from the
// protocol layout: ttl:4 tracing:25 service~1 nh:1 (k~1 v~1)* csumtype:1 csum arg1~2 arg2~2 and
// either the start of arg3 or the end of the frame with the more-fragments flag)
func c08Relayable(p []byte) bool {
	pos := 0
	need := func(n int) bool { ok := pos+n <= len(p); pos += n; return ok }
	if !need(30) || !need(1) {
		return false
	}
	if !need(int(p[30])) || !need(1) {
		return false
	}
	nh := int(p[pos-1])
	for i := 0; i < 2*nh; i++ {
		if !need(1) {
			return false
		}
		if !need(int(p[pos-1])) {
			return false
		}
	}
	if !need(1) {
		return false
	}
	ct := p[pos-1]
	if ct > 3 {
		return false
	}
	if ct != 0 && !need(4) {
		return false
	}
	for i := 0; i < 2; i++ {
		if !need(2) {
			return false
		}
		if !need(int(binary.BigEndian.Uint16(p[pos-2:]))) {
			return false
		}
	}
	if pos == len(p) && p[0]&1 != 0 {
		return true
	}
	return need(2)
}

// a frame payload limit that leaves room for the message header and at least a few chunk bytes
func c08SafeMax(maxPayload int, hdr []byte) int {
	if maxPayload < len(hdr)+6+16 {
		return 65519
	}
	return maxPayload
}

func c08Tracing(rng *rand.Rand) []byte {
	switch rng.Intn(4) {
	case 0:
		return make([]byte, 25)
	case 1:
		return bytes.Repeat([]byte{0xff}, 25)
	}
	return []byte(randBytes(rng, 25))
}

// ---------------------------------------------------------------- sub lazyreq

func c08GenHeaders(rng *rand.Rand, as string) [][2]string {
	h := [][2]string{}
	if as != "" {
		h = append(h, [2]string{"as", as})
	}
	if rng.Intn(4) > 0 {
		h = append(h, [2]string{"cn", "caller" + randBytes(rng, pick(rng, 0, 1, 10))})
	}
	if rng.Intn(3) == 0 {
		h = append(h, [2]string{"rd", "deleg" + randBytes(rng, pick(rng, 0, 3))})
	}
	if rng.Intn(3) == 0 {
		h = append(h, [2]string{"rk", "rkey" + randBytes(rng, pick(rng, 0, 3))})
	}
	if rng.Intn(3) == 0 {
		h = append(h, [2]string{"sk", "shard"})
	}
	for i := pick(rng, 0, 0, 1, 3, 20); i > 0; i-- {
		h = append(h, [2]string{fmt.Sprintf("x%d", i) + randBytes(rng, pick(rng, 0, 1, 30)), randBytes(rng, pick(rng, 0, 1, 255-40, 100))})
	}
	if rng.Intn(6) == 0 { // a duplicate of a key the relay looks at: the later one wins
		h = append(h, [2]string{[]string{"as", "cn", "rd", "rk"}[rng.Intn(4)], "dup" + randBytes(rng, 2)})
	}
	rng.Shuffle(len(h), func(i, j int) { h[i], h[j] = h[j], h[i] })
	return h
}

func lastHeader(h [][2]string, k string) string {
	v := ""
	for _, kv := range h {
		if kv[0] == k {
			v = kv[1]
		}
	}
	return v
}

func lazyreqCase(rng *rand.Rand, o *Out, id string) {
	service := "s" + randBytes(rng, pick(rng, 0, 1, 10, 254))
	if rng.Intn(10) == 0 {
		service = ""
	}
	as := []string{"raw", "thrift", "json", "", "thrif"}[rng.Intn(5)]
	headers := c08GenHeaders(rng, as)
	ttl := uint32([]uint64{0, 1, 1000, 120000, 1 << 31, 1<<32 - 1}[rng.Intn(6)])
	tracing := c08Tracing(rng)
	csum := byte(pick(rng, 0, 1, 2, 3))
	args := [3][]byte{[]byte("m" + randBytes(rng, pick(rng, 0, 1, 20, 300))), []byte(randBytes(rng, pick(rng, 0, 1, 2, 50, 2000))), []byte(randBytes(rng, pick(rng, 0, 1, 100, 3000)))}
	maxPayload := pick(rng, 65519, 65519, 5000, 1200, 700)
	frames := buildRawCallFrames(true, 7, rawCallReqHeader(ttl, tracing, service, headers), csum, args, c08SafeMax(maxPayload, rawCallReqHeader(ttl, tracing, service, headers)))
	payload := append([]byte{}, frames[0][16:]...)
	kind := "valid"
	switch rng.Intn(8) {
	case 0:
		cut := rng.Intn(len(payload) + 1)
		payload = payload[:cut]
		kind = "truncated"
	case 1:
		i := rng.Intn(len(payload))
		payload[i] ^= byte(1 << uint(rng.Intn(8)))
		kind = "bitflip"
	case 2:
		payload = []byte(randBytes(rng, pick(rng, 0, 1, 29, 30, 31, 40, 200)))
		kind = "random"
	case 3: // checksum type byte out of range / each value
		hl := 1 + len(rawCallReqHeader(ttl, tracing, service, headers))
		if hl < len(payload) {
			payload[hl] = byte(pick(rng, 4, 5, 255, 2, 0))
		}
		kind = "csumtype"
	}
	v, pan := tchannel.VerifLazyCallReq(payload, byte(pick(rng, 0, 0x55, 0xff, 1)))
	in := make([]int64, len(payload))
	for i, b := range payload {
		in[i] = int64(b)
	}
	var obs []int64
	verdict := ""
	if pan != nil {
		obs = []int64{-9}
		verdict = fmt.Sprintf("newLazyCallReq panicked on a %s call req payload of %d bytes: %v", kind, len(payload), pan)
	} else if v.Code != 0 {
		obs = []int64{int64(v.Code)}
	} else {
		obs = []int64{0, int64(v.CTOff), int64(v.CType), int64(v.A2Start), int64(v.A2End), b2i(v.A2Frag), int64(v.A3Start)}
		for _, b := range [][]byte{v.Method, v.As, v.Caller, v.Delegate, v.Key, v.Service} {
			obs = putBytes(obs, b)
		}
		obs = append(obs, int64(v.TTL))
		obs = putBytes(obs, v.Arg2)
		obs = putBytes(obs, v.Arg3)
	}
	if kind == "valid" && verdict == "" {
		// the relay must be able to route every well-formed call req whose first frame holds arg1 and
		// the start of arg2, and must see the caller's routing fields
		single := len(frames) == 1
		switch {
		case !c08Relayable(payload):
			// arg1 or the arg2 length did not fit the first frame (tiny frames): not routable by design
		case v.Code != 0:
			verdict = fmt.Sprintf("relay cannot parse a well-formed call req (code %d, %d frames)", v.Code, len(frames))
		case string(v.Service) != service || string(v.Method) != string(args[0]) || string(v.Caller) != lastHeader(headers, "cn") ||
			string(v.Delegate) != lastHeader(headers, "rd") || string(v.Key) != lastHeader(headers, "rk") || string(v.As) != lastHeader(headers, "as"):
			verdict = "relay host would see a different service/method/caller/routing delegate/routing key/arg scheme than the caller sent"
		case v.TTL != time.Duration(ttl)*time.Millisecond:
			verdict = "relay host would see a different ttl than the caller sent"
		case single && (!bytes.Equal(v.Arg2, args[1]) || !bytes.Equal(v.Arg3, args[2]) || v.A2Frag):
			verdict = "arg2/arg3 of an unfragmented call req located wrongly"
		}
	}
	o.Hist("lazyreq " + kind)
	o.Case("lazyreq", id, in, obs, true, verdict)
}

// ---------------------------------------------------------------- sub relayfwd (sequenced scenarios)

type c08Plan struct {
	src      int
	id       uint32
	dst      int
	service  string
	method   string
	ttl      uint32
	tracing  []byte
	headers  [][2]string
	csum     byte
	args     [3][]byte
	pairs    [][2]string // arg2 as key/value pairs (thrift calls)
	req      [][]byte    // wire frames
	dec      c08Decision
	resKind  int // 0 call res ok, 1 call res application error, 2 error frame, 3 no response
	resArgs  [3][]byte
	resFrag  int
	res      [][]byte
	nextReq  int
	nextRes  int
	destID   uint32
	stage    int // 0 planned, 1 request in progress, 2 response in progress, 3 done, 4 dead
	expire   bool
	resBuilt bool
	ck       *rawCsum  // running checksum of an appended call as the destination sees it
	early    *rawFrame // timer scenarios: the timeout error frame, if it arrived while the call req event was still being collected
}

type c08Scenario struct {
	e       *c08Env
	rng     *rand.Rand
	maxOpt  time.Duration
	maxMs   uint32
	in      []int64
	obs     []int64
	nev     int
	verdict string
	live    map[[2]uint32]*c08Plan // (src conn, id) -> call whose item exists on the source side
	tomb    map[[2]uint32]bool     // (src conn, id) entombed on the source side
	byDest  map[[2]uint32]*c08Plan // (dst conn, dest id) -> call
	usedIDs map[int]map[uint32]bool
	hist    map[string]int
	plans   []*c08Plan
	steal   func(ci int, f *rawFrame) bool // frames that belong to a later (timer) event
}

func (s *c08Scenario) fail(format string, a ...interface{}) {
	if s.verdict == "" {
		s.verdict = fmt.Sprintf(format, a...)
	}
}

// validated relay maximum in ms, from the option value (documented behaviour of RelayMaxTimeout)
func c08MaxMs(opt time.Duration) uint32 {
	ms := int64(opt / time.Millisecond)
	if ms > 0 && ms <= 1<<32-1 {
		return uint32(ms)
	}
	return 120000
}

func kvPairs(rng *rand.Rand) [][2]string {
	var p [][2]string
	for i := pick(rng, 0, 1, 2, 5); i > 0; i-- {
		p = append(p, [2]string{fmt.Sprintf("k%d", i), randBytes(rng, pick(rng, 0, 1, 10, 200))})
	}
	return p
}

func (s *c08Scenario) genPlan(expiry bool) *c08Plan {
	rng, e := s.rng, s.e
	p := &c08Plan{src: rng.Intn(e.nsrc), dst: rng.Intn(len(e.dstHP))}
	p.id = []uint32{1, 2, 3, 1, 2, 0, 0xffffffff, 0x7fffffff, rng.Uint32()}[rng.Intn(9)]
	p.service = fmt.Sprintf("svc%d", p.dst)
	p.method = "m" + randBytes(rng, pick(rng, 0, 1, 8, 40))
	ttls := []uint32{2000, 5000, 119999, 120000, 120001, 9999, 10000, 10001, 1 << 31, 1<<32 - 1}
	p.ttl = ttls[rng.Intn(len(ttls))]
	p.tracing = c08Tracing(rng)
	thrift := rng.Intn(2) == 0
	as := "raw"
	if thrift {
		as = "thrift"
	}
	p.headers = c08GenHeaders(rng, as)
	p.csum = byte(pick(rng, 0, 1, 1, 3, 3, 2))
	arg2 := []byte(randBytes(rng, pick(rng, 0, 1, 100, 2000)))
	if thrift || rng.Intn(4) == 0 {
		p.pairs = kvPairs(rng)
		if rng.Intn(6) == 0 {
			p.pairs = append(p.pairs, [2]string{"big", randBytes(rng, pick(rng, 30000, 60000, 64000))})
		}
		arg2 = kvBuffer(p.pairs)
	}
	arg3 := []byte(randBytes(rng, pick(rng, 0, 1, 12, 1000, 3000, 70000, 140000)))
	p.args = [3][]byte{[]byte(p.method), arg2, arg3}
	maxPayload := pick(rng, 65519, 65519, 65519, 2000, 700)
	if len(arg3) > 3000 {
		maxPayload = 65519
	}
	p.dec = c08Decision{kind: 0, dst: p.dst, hostPort: e.dstHP[p.dst]}
	switch k := rng.Intn(20); {
	case k == 0:
		p.dec = c08Decision{kind: 1, sys: true, code: byte(pick(rng, 3, 4, 6, 5)), msg: "verif host says no"}
	case k == 1:
		p.dec = c08Decision{kind: 1, sys: false, msg: "plain host error"}
	case k == 2:
		p.dec = c08Decision{kind: 2}
	case k == 3:
		p.dec = c08Decision{kind: 3}
	case k < 10:
		for i := pick(rng, 1, 1, 2, 4); i > 0; i-- {
			p.dec.appends = append(p.dec.appends, [2]string{fmt.Sprintf("a%d", i), randBytes(rng, pick(rng, 0, 3, 100, 16000))})
		}
	}
	if expiry {
		p.ttl = uint32(pick(rng, 40, 41, 45, 1000, 5000))
		p.args[2] = []byte(randBytes(rng, pick(rng, 0, 10, 300)))
		maxPayload = 65519
		p.dec = c08Decision{kind: 0, dst: p.dst, hostPort: e.dstHP[p.dst]}
		p.resKind = 3
		p.expire = true
	} else {
		p.resKind = pick(rng, 0, 0, 0, 1, 2, 3)
	}
	if len(p.dec.appends) > 0 && p.csum == 2 {
		p.csum = 1 // farmhash is unimplemented in the library: appended calls would be rejected by any destination
	}
	hdr := rawCallReqHeader(p.ttl, p.tracing, p.service, p.headers)
	p.req = buildRawCallFrames(true, p.id, hdr, p.csum, p.args, c08SafeMax(maxPayload, hdr))
	if rng.Intn(5) == 0 { // reserved header bytes are to be ignored by receivers
		for _, f := range p.req {
			f[3] = 0x5a
			copy(f[8:16], []byte{1, 2, 3, 4, 5, 6, 7, 8})
		}
	}
	p.resArgs = [3][]byte{{}, []byte(randBytes(rng, pick(rng, 0, 5, 500))), []byte(randBytes(rng, pick(rng, 0, 1, 300, 3000, 66000, 140000)))}
	p.resFrag = pick(rng, 65519, 65519, 1500, 400)
	if len(p.resArgs[2]) > 3000 {
		p.resFrag = 65519
	}
	return p
}

func (s *c08Scenario) buildRes(p *c08Plan) {
	switch p.resKind {
	case 0, 1:
		hdr := rawCallResHeader(byte(p.resKind), p.tracing, [][2]string{{"as", "raw"}})
		p.res = buildRawCallFrames(false, p.destID, hdr, byte(pick(s.rng, 0, 1, 3)), p.resArgs, p.resFrag)
	case 2:
		p.res = [][]byte{rawFrameBytes(0xff, p.destID, rawErrorPayload(byte(pick(s.rng, 1, 3, 5, 6)), p.tracing, c08DstMarker+" busy: try later"))}
	}
	p.resBuilt = true
}

// record one label + what the implementation did
func (s *c08Scenario) eventFrame(c int, dec *c08Decision, frame []byte) [][]*rawFrame {
	e := s.e
	e.host.mu.Lock()
	e.host.next = dec
	if dec == nil {
		e.host.next = &c08Decision{kind: 2}
	}
	e.host.seen = nil
	e.host.mu.Unlock()
	s.in = append(s.in, 0, int64(c))
	s.in = c08PutDecision(s.in, dec, e.nsrc)
	s.in = putBytes(s.in, frame)
	s.nev++
	outs, err := e.exchange(c, frame)
	if err != nil {
		s.fail("relay stopped answering after a frame of type %#x on connection %d: %v", frame[2], c, err)
	}
	if outs == nil {
		outs = make([][]*rawFrame, len(e.conns))
	}
	if s.steal != nil {
		for ci := range outs {
			kept := outs[ci][:0]
			for _, f := range outs[ci] {
				if !s.steal(ci, f) {
					kept = append(kept, f)
				}
			}
			outs[ci] = kept
		}
	}
	s.obs = c08PutOuts(s.obs, outs)
	return outs
}

func countOuts(outs [][]*rawFrame) int {
	n := 0
	for _, fs := range outs {
		n += len(fs)
	}
	return n
}

func (s *c08Scenario) expectNone(outs [][]*rawFrame, why string) {
	if n := countOuts(outs); n != 0 {
		s.fail("%s: the relay emitted %d frame(s), want none", why, n)
	}
}

// exactly one frame, on connection c
func (s *c08Scenario) expectOne(outs [][]*rawFrame, c int, why string) *rawFrame {
	if countOuts(outs) != 1 || len(outs[c]) != 1 {
		per := []int{}
		for _, fs := range outs {
			per = append(per, len(fs))
		}
		s.fail("%s: want exactly one frame on connection %d, got per connection %v", why, c, per)
		return nil
	}
	return outs[c][0]
}

func (s *c08Scenario) expectRelayError(outs [][]*rawFrame, p *c08Plan, code byte, msgPrefix string, why string) {
	f := s.expectOne(outs, p.src, why)
	if f == nil {
		return
	}
	if f.Type != 0xff || f.ID != p.id || len(f.Payload) < 28 || f.Payload[0] != code || !bytes.Equal(f.Payload[1:26], p.tracing) {
		s.fail("%s: want an error frame id %d code %d carrying the call's tracing, got type %#x id %d payload %x", why, p.id, code, f.Type, f.ID, f.Payload[:imin(len(f.Payload), 30)])
		return
	}
	if !bytes.HasPrefix(f.Payload[28:], []byte(msgPrefix)) {
		s.fail("%s: error message %q does not start with %q", why, f.Payload[28:], msgPrefix)
	}
}

func (s *c08Scenario) freshDestID(p *c08Plan, k uint32, why string) {
	d := s.e.nsrc + p.dst
	if s.usedIDs[d] == nil {
		s.usedIDs[d] = map[uint32]bool{}
	}
	if s.usedIDs[d][k] {
		s.fail("%s: destination id %d was already used on destination connection %d (live or earlier call)", why, k, p.dst)
	}
	s.usedIDs[d][k] = true
	p.destID = k
	s.byDest[[2]uint32{uint32(d), k}] = p
}

func (s *c08Scenario) sendCallReq(p *c08Plan) {
	e := s.e
	key := [2]uint32{uint32(p.src), p.id}
	frame := p.req[0]
	dup := s.live[key] != nil || s.tomb[key]
	if p.expire {
		// under load the relay's timer (40-60 ms) can fire before all barriers of this event are
		// done: its error frame belongs to the timer event that follows
		s.steal = func(ci int, f *rawFrame) bool {
			if ci == p.src && f.Type == 0xff && f.ID == p.id && len(f.Payload) >= 28 && f.Payload[0] == 1 && c08IsRelayError(f) && p.early == nil {
				p.early = f
				return true
			}
			return false
		}
	}
	outs := s.eventFrame(p.src, &p.dec, frame)
	s.steal = nil
	why := fmt.Sprintf("call req (source %d id %d, %d frames, %d appends, host decision %d)", p.src, p.id, len(p.req), len(p.dec.appends), p.dec.kind)
	payload := frame[16:]
	p.stage = 4
	if !c08Relayable(payload) {
		s.hist["callreq not routable from its first frame"]++
		return // tiny frames: arg1/arg2 start not in the first frame -- outside what a relay can route; model decides
	}
	e.host.mu.Lock()
	seen := e.host.seen
	e.host.mu.Unlock()
	if seen == nil {
		s.fail("%s: RelayHost.Start was not called", why)
	} else if seen.service != p.service || seen.method != p.method || seen.caller != lastHeader(p.headers, "cn") ||
		seen.delegate != lastHeader(p.headers, "rd") || seen.key != lastHeader(p.headers, "rk") || seen.ttl != time.Duration(p.ttl)*time.Millisecond {
		s.fail("%s: RelayHost.Start saw service/method/caller/routing/ttl %+v, different from what the caller sent", why, *seen)
	}
	switch p.dec.kind {
	case 1:
		s.hist["callreq host error"]++
		code := p.dec.code
		if !p.dec.sys {
			code = 4
		}
		s.expectRelayError(outs, p, code, p.dec.msg, why)
		return
	case 2:
		s.hist["callreq rate-limit drop"]++
		s.expectNone(outs, why)
		return
	case 3:
		if dup {
			s.expectNone(outs, why+" duplicate id")
			return
		}
		s.hist["callreq no peer"]++
		s.expectRelayError(outs, p, 4, "bad relay host", why)
		return
	}
	if dup {
		s.hist["callreq duplicate active id"]++
		s.expectNone(outs, why+" with an id that is still active on this connection")
		return
	}
	d := e.nsrc + p.dst
	if len(p.dec.appends) == 0 {
		s.hist[fmt.Sprintf("callreq forwarded frames=%d", imin(len(p.req), 3))]++
		f := s.expectOne(outs, d, why)
		if f == nil {
			return
		}
		want := append([]byte{}, payload...)
		ttl := p.ttl
		if ttl > s.maxMs {
			ttl = s.maxMs
		}
		binary.BigEndian.PutUint32(want[1:5], ttl)
		if f.Type != 0x03 || !bytes.Equal(f.Payload, want) {
			s.fail("%s: forwarded call req differs from the original beyond id and ttl=min(%d,%d) (type %#x, %d vs %d payload bytes, first difference at %d)", why, p.ttl, s.maxMs, f.Type, len(f.Payload), len(want), rfFirstDiff(f.Payload, want))
			return
		}
		s.freshDestID(p, f.ID, why)
		s.live[key] = p
		p.stage, p.nextReq = 1, 1
		if len(p.req) == 1 {
			p.stage = 2
		}
		return
	}
	// arg2 appends: thrift only, arg2 entirely in the first frame, at least the 2-byte count
	pc, perr := parseRawCall(0x03, payload)
	arg2InFirst := perr == nil && len(pc.Chunks) >= 3
	ok := lastHeader(p.headers, "as") == "thrift" && arg2InFirst && len(p.args[1]) >= 2
	if !ok {
		s.hist["callreq append refused"]++
		s.tomb[key] = true
		s.expectRelayError(outs, p, 5, "relay-arg2-modify-failed", why)
		if n := len(outs[d]); n != 0 {
			s.fail("%s: %d frame(s) reached the destination although the append was refused", why, n)
		}
		return
	}
	s.hist[fmt.Sprintf("callreq appended frames=%d", imin(len(p.req), 3))]++
	if countOuts(outs) != len(outs[d]) || len(outs[d]) == 0 {
		s.fail("%s: re-fragmented call req: frames went to the wrong connection or none arrived", why)
		return
	}
	var frags []*rawCall
	ck := &rawCsum{typ: p.csum}
	if p.csum == 2 {
		ck.typ = 0 // farmhash is unimplemented: the relay re-emits with checksum type none
	}
	for i, f := range outs[d] {
		wantT := byte(0x13)
		if i == 0 {
			wantT = 0x03
		}
		fc, err := parseRawCall(f.Type, f.Payload)
		if f.Type != wantT || err != nil || f.ID != outs[d][0].ID || f.Size > 65535 {
			s.fail("%s: re-fragmented frame %d malformed (type %#x id %d err %v)", why, i, f.Type, f.ID, err)
			return
		}
		for _, ch := range fc.Chunks {
			ck.add(ch)
		}
		if fc.CsumType != ck.typ || !bytes.Equal(fc.Csum, ck.bytes()) {
			s.fail("%s: checksum of re-fragmented frame %d does not match the independently computed running checksum", why, i)
			return
		}
		last := i == len(outs[d])-1
		if !last && fc.Flags&1 == 0 {
			s.fail("%s: re-fragmented frame %d of %d lacks the more-fragments flag", why, i, len(outs[d]))
		}
		if last && (fc.Flags&1 != 0) != (len(p.req) > 1) {
			s.fail("%s: last re-fragmented frame has more-fragments=%v but the call has %d original frames", why, fc.Flags&1 != 0, len(p.req))
		}
		frags = append(frags, fc)
	}
	f0 := frags[0]
	ttl := p.ttl
	if ttl > s.maxMs {
		ttl = s.maxMs
	}
	if f0.TTL != ttl || !bytes.Equal(f0.Tracing, p.tracing) || f0.Service != p.service || fmt.Sprint(f0.Headers) != fmt.Sprint(p.headers) {
		s.fail("%s: re-fragmented call req changed ttl/tracing/service/transport headers", why)
	}
	args := collectArgs(frags)
	wantPairs := append(append([][2]string{}, p.pairs...), p.dec.appends...)
	firstArg3 := pc.Chunks[2]
	if len(args) != 3 || !bytes.Equal(args[0], p.args[0]) || !bytes.Equal(args[2], firstArg3) {
		s.fail("%s: arg1/arg3 changed by the arg2 append (%d args)", why, len(args))
	} else if got, wf := parseKVBuffer(args[1]); !wf || fmt.Sprint(got) != fmt.Sprint(wantPairs) {
		s.fail("%s: destination sees %d arg2 pairs (well-formed %v), want the %d original pairs followed by the %d appended ones", why, len(got), wf, len(p.pairs), len(p.dec.appends))
	}
	s.freshDestID(p, outs[d][0].ID, why)
	s.live[key] = p
	p.stage, p.nextReq = 1, 1
	if len(p.req) == 1 {
		p.stage = 2
	}
	// the running checksum continues over the continuation frames the relay will patch
	p.ck = ck
}

func rfFirstDiff(a, b []byte) int {
	for i := 0; i < len(a) && i < len(b); i++ {
		if a[i] != b[i] {
			return i
		}
	}
	return imin(len(a), len(b))
}

func (s *c08Scenario) sendReqCont(p *c08Plan) {
	frame := p.req[p.nextReq]
	outs := s.eventFrame(p.src, nil, frame)
	why := fmt.Sprintf("call req continue %d/%d (source %d id %d)", p.nextReq, len(p.req), p.src, p.id)
	d := s.e.nsrc + p.dst
	f := s.expectOne(outs, d, why)
	p.nextReq++
	if p.nextReq == len(p.req) {
		p.stage = 2
	}
	if f == nil {
		return
	}
	s.hist["continuation forwarded"]++
	if ck := p.ck; ck != nil {
		// appended call: only the checksum bytes may differ, and they must be the running checksum
		fc, err := parseRawCall(f.Type, f.Payload)
		oc, _ := parseRawCall(0x13, frame[16:])
		if err != nil || f.Type != 0x13 || f.ID != p.destID || len(fc.Chunks) != len(oc.Chunks) {
			s.fail("%s: continuation of an appended call malformed", why)
			return
		}
		for i, ch := range fc.Chunks {
			if !bytes.Equal(ch, oc.Chunks[i]) {
				s.fail("%s: continuation chunk %d changed", why, i)
			}
			ck.add(ch)
		}
		if !bytes.Equal(fc.Csum, ck.bytes()) {
			s.fail("%s: checksum of a continuation frame of an appended call is not the running checksum of what the destination received", why)
		}
		return
	}
	if f.Type != 0x13 || f.ID != p.destID || !bytes.Equal(f.Payload, frame[16:]) {
		s.fail("%s: forwarded frame differs from the original beyond the id (type %#x id %d want id %d)", why, f.Type, f.ID, p.destID)
	}
}

func (s *c08Scenario) sendRes(p *c08Plan) {
	if !p.resBuilt {
		s.buildRes(p)
	}
	frame := p.res[p.nextRes]
	d := s.e.nsrc + p.dst
	outs := s.eventFrame(d, nil, frame)
	why := fmt.Sprintf("response frame %d/%d type %#x (destination %d id %d -> source %d id %d)", p.nextRes, len(p.res), frame[2], p.dst, p.destID, p.src, p.id)
	f := s.expectOne(outs, p.src, why)
	p.nextRes++
	if p.nextRes == len(p.res) {
		p.stage = 3
		delete(s.live, [2]uint32{uint32(p.src), p.id})
		delete(s.byDest, [2]uint32{uint32(d), p.destID})
	}
	if f == nil {
		return
	}
	s.hist[fmt.Sprintf("response forwarded type=%#x", frame[2])]++
	if f.Type != frame[2] || f.ID != p.id || !bytes.Equal(f.Payload, frame[16:]) {
		s.fail("%s: the caller got a frame that differs from what the destination produced beyond the id (type %#x id %d, %d vs %d bytes)", why, f.Type, f.ID, len(f.Payload), len(frame)-16)
	}
}

func (s *c08Scenario) hostile() {
	rng, e := s.rng, s.e
	switch rng.Intn(7) {
	case 0: // continuation for an id that is not active on that source connection
		c := rng.Intn(e.nsrc)
		id := uint32(pick(rng, 1, 2, 3, 9))
		if s.live[[2]uint32{uint32(c), id}] != nil || s.tomb[[2]uint32{uint32(c), id}] {
			return
		}
		s.hist["hostile: continuation for unknown id"]++
		outs := s.eventFrame(c, nil, rawFrameBytes(0x13, id, []byte{0, 0, 0, 2, 1, 2}))
		s.expectNone(outs, "call req continue for an id without a call")
	case 1: // response frames for an id the relay never allocated / already finished
		d := e.nsrc + rng.Intn(len(e.dstHP))
		id := uint32(pick(rng, 1, 5, 77, 0))
		if s.byDest[[2]uint32{uint32(d), id}] != nil {
			return
		}
		s.hist["hostile: response for unknown id"]++
		t := byte(pick(rng, 0x04, 0x14, 0xff))
		payload := []byte{0, 0}
		if t == 0x04 {
			payload = append([]byte{0}, rawCallResHeader(0, make([]byte, 25), nil)...)
			payload = append(payload, 0, 0, 0, 0, 0, 0, 0)
		} else if t == 0xff {
			payload = rawErrorPayload(3, make([]byte, 25), c08DstMarker+"stray")
		}
		outs := s.eventFrame(d, nil, rawFrameBytes(t, id, payload))
		s.expectNone(outs, "response frame for an id without a call")
	case 2: // cancel frames are not propagated by default
		c := rng.Intn(e.nsrc)
		s.hist["hostile: cancel"]++
		p := append([]byte{0, 0, 0, 1}, make([]byte, 25)...)
		p = append(p, 0, 3, 'w', 'h', 'y')
		outs := s.eventFrame(c, nil, rawFrameBytes(0xc0, uint32(pick(rng, 1, 2, 3)), p))
		s.expectNone(outs, "cancel frame (PropagateCancel off)")
	case 3: // call req that cannot be parsed: dropped without a trace
		c := rng.Intn(e.nsrc)
		s.hist["hostile: unparsable call req"]++
		var payload []byte
		switch rng.Intn(3) {
		case 0:
			payload = []byte(randBytes(rng, pick(rng, 1, 10, 29, 30)))
		case 1:
			payload = rawCallReqFirst(rng, 200)
			payload = payload[:len(payload)-pick(rng, 1, 2, 3, 40)]
		default:
			payload = rawCallReqFirst(rng, 60)
			hl := 1 + 4 + 25 + 1 + 3 + 1
			payload[hl] = byte(pick(rng, 4, 9, 255))
		}
		if c08Relayable(payload) {
			return
		}
		dec := &c08Decision{kind: 0, dst: 0, hostPort: e.dstHP[0]}
		outs := s.eventFrame(c, dec, rawFrameBytes(0x03, 0x123456, payload))
		s.expectNone(outs, "call req that is not routable")
	case 4: // the relay channel uses the destination connection for itself (ping): takes an id
		j := rng.Intn(len(e.dstHP))
		s.hist["own id (relay pings the destination)"]++
		ctx, cancel := tchannel.NewContext(3 * time.Second)
		err := e.rly.Ping(ctx, e.dstHP[j])
		cancel()
		if err != nil {
			s.fail("harness: relay ping to the raw destination failed: %v", err)
			return
		}
		s.in = append(s.in, 1, int64(e.nsrc+j))
		s.nev++
		outs, err := e.exchange(0, nil)
		if err != nil {
			s.fail("relay stopped answering after its own ping: %v", err)
			outs = make([][]*rawFrame, len(e.conns))
		}
		s.obs = c08PutOuts(s.obs, outs)
		s.expectNone(outs, "relay's own ping")
	case 5: // a request frame after the call has completed: the id is free again
		c := rng.Intn(e.nsrc)
		id := uint32(0xabcdef)
		s.hist["hostile: continuation for unknown id"]++
		outs := s.eventFrame(c, nil, rawFrameBytes(0x13, id, []byte{1, 0}))
		s.expectNone(outs, "call req continue for an id without a call")
	default: // an empty continuation payload for a live call is forwarded as it is
		for _, p := range s.plans { // slice order: deterministic
			if s.live[[2]uint32{uint32(p.src), p.id}] == p && p.stage == 1 && p.ck == nil {
				s.hist["hostile: empty continuation payload"]++
				outs := s.eventFrame(p.src, nil, rawFrameBytes(0x13, p.id, nil))
				f := s.expectOne(outs, s.e.nsrc+p.dst, "empty call req continue of a live call")
				if f != nil && (f.ID != p.destID || len(f.Payload) != 0) {
					s.fail("empty call req continue of a live call: forwarded with id %d (want %d) and %d payload bytes", f.ID, p.destID, len(f.Payload))
				}
				return
			}
		}
	}
}

func rawCallReqFirst(rng *rand.Rand, n int) []byte {
	fr := buildRawCallFrames(true, 1, rawCallReqHeader(3000, make([]byte, 25), "svc", [][2]string{{"as", "raw"}}), byte(pick(rng, 0, 1, 3)), [3][]byte{[]byte("mm"), []byte(randBytes(rng, n)), []byte("a3")}, 65519)
	return append([]byte{}, fr[0][16:]...)
}

func (s *c08Scenario) expireCall(p *c08Plan) {
	// wait for the relay's timer: the source gets a timeout error frame
	f := p.early
	if f == nil {
		f = s.e.conns[p.src].waitFrame(3 * time.Second)
	}
	time.Sleep(30 * time.Millisecond)
	d := s.e.nsrc + p.dst
	s.in = append(s.in, 2, int64(d), 0, int64(p.destID))
	s.obs = append(s.obs, 0)
	s.in = append(s.in, 2, int64(p.src), 1, int64(p.id))
	s.nev += 2
	outs := make([][]*rawFrame, len(s.e.conns))
	if f != nil {
		outs[p.src] = []*rawFrame{f}
	}
	s.obs = c08PutOuts(s.obs, outs)
	s.hist["timer expiry"]++
	delete(s.live, [2]uint32{uint32(p.src), p.id})
	s.tomb[[2]uint32{uint32(p.src), p.id}] = true
	p.stage = 4
	why := fmt.Sprintf("call (source %d id %d) left unanswered, ttl min(%d,%d) ms", p.src, p.id, p.ttl, s.maxMs)
	if f == nil {
		s.fail("%s: no timeout error frame reached the caller within 3 s", why)
		return
	}
	s.expectRelayError(outs, p, 1, "timeout", why)
	// frames of the dead call are swallowed in both directions
	o2 := s.eventFrame(p.src, nil, rawFrameBytes(0x13, p.id, []byte{0, 0, 0, 1, 9}))
	s.expectNone(o2, why+": request frame after the timeout")
	res := rawFrameBytes(0xff, p.destID, rawErrorPayload(3, p.tracing, c08DstMarker+"late"))
	o3 := s.eventFrame(d, nil, res)
	s.expectNone(o3, why+": response frame after the timeout")
}

func runC08Scenario(rng *rand.Rand, o *Out, id string, tier string) {
	expiry := rng.Intn(8) == 0
	opts := []time.Duration{0, 10 * time.Second, time.Hour, (1<<32 - 1) * time.Millisecond, (1 << 32) * time.Millisecond, -time.Second, 999999 * time.Nanosecond, 10*time.Second + 999999*time.Nanosecond}
	maxOpt := opts[rng.Intn(len(opts))]
	if expiry {
		maxOpt = []time.Duration{40500 * time.Microsecond, 60 * time.Millisecond}[rng.Intn(2)]
	}
	nsrc, ndst := pick(rng, 1, 2, 3, 4), pick(rng, 1, 1, 2)
	cnt0 := make([]uint32, ndst)
	for j := range cnt0 {
		cnt0[j] = []uint32{1, 1, 1, 0xfffffffc, 0x7fffffff, 41}[rng.Intn(6)]
	}
	e, err := newC08Env(nsrc, ndst, maxOpt, cnt0)
	defer func() {
		if e != nil {
			e.close()
		}
	}()
	if err != nil {
		o.Oracle("relayfwd", id, false, id, "harness: cannot set up the relay scenario: "+err.Error())
		return
	}
	s := &c08Scenario{e: e, rng: rng, maxOpt: maxOpt, maxMs: c08MaxMs(maxOpt), live: map[[2]uint32]*c08Plan{}, tomb: map[[2]uint32]bool{},
		byDest: map[[2]uint32]*c08Plan{}, usedIDs: map[int]map[uint32]bool{}, hist: map[string]int{}}
	ncalls := pick(rng, 2, 4, 6, 10)
	if tier != "quick" {
		ncalls += pick(rng, 0, 4, 10)
	}
	var plans []*c08Plan
	for i := 0; i < ncalls; i++ {
		plans = append(plans, s.genPlan(expiry))
	}
	s.plans = plans
	next := 0
	for steps := 0; steps < 400; steps++ {
		var active []*c08Plan
		for _, p := range plans[:next] {
			if p.stage == 1 || (p.stage == 2 && p.resKind != 3) {
				active = append(active, p)
			}
		}
		if next == len(plans) && len(active) == 0 {
			break
		}
		r := rng.Intn(10)
		switch {
		case r == 0 && !expiry:
			s.hostile()
		case next < len(plans) && (len(active) == 0 || r < 4):
			p := plans[next]
			next++
			s.sendCallReq(p)
			if p.expire && p.stage != 4 {
				s.expireCall(p)
			}
		case len(active) > 0:
			p := active[rng.Intn(len(active))]
			if p.stage == 1 {
				s.sendReqCont(p)
			} else {
				s.sendRes(p)
			}
		}
		if s.verdict != "" {
			break
		}
	}
	// case input: validated option, PropagateCancel, initial counters, events
	in := []int64{int64(maxOpt), 0, int64(nsrc + ndst)}
	for i := 0; i < nsrc; i++ {
		in = append(in, 0)
	}
	for _, c := range cnt0 {
		in = append(in, int64(c))
	}
	in = append(in, int64(s.nev))
	in = append(in, s.in...)
	for k, v := range s.hist {
		for i := 0; i < v; i++ {
			o.Hist(k)
		}
	}
	o.Hist(fmt.Sprintf("scenario sources=%d dests=%d", nsrc, ndst))
	o.Sample(map[string]interface{}{"sub": "relayfwd", "sources": nsrc, "destinations": ndst, "relay_max_timeout_option_ns": int64(maxOpt), "initial_dest_counters": cnt0, "events": s.nev, "calls": ncalls, "timer_scenario": expiry})
	o.Case("relayfwd", id, in, s.obs, true, s.verdict)
}

// ---------------------------------------------------------------- sub relayconc

// many raw sources send calls with the SAME ids at the same time to one raw destination,
// which answers every call with a response derived from the request; nothing may mix.
func runC08Conc(rng *rand.Rand, o *Out, id string) {
	nsrc := pick(rng, 2, 4, 8)
	perSrc := pick(rng, 2, 4, 8)
	e, err := newC08Env(nsrc, 1, 0, []uint32{uint32(pick(rng, 1, 1, 0xfffffff0))})
	defer func() {
		if e != nil {
			e.close()
		}
	}()
	if err != nil {
		o.Oracle("relayconc", id, false, id, "harness: "+err.Error())
		return
	}
	e.host.route = map[string]string{"svc": e.dstHP[0]}
	dst := e.conns[nsrc]
	var verdictMu sync.Mutex
	verdict := ""
	fail := func(format string, a ...interface{}) {
		verdictMu.Lock()
		if verdict == "" {
			verdict = fmt.Sprintf(format, a...)
		}
		verdictMu.Unlock()
	}
	total := nsrc * perSrc
	sizes := make([][]int, nsrc)
	for i := range sizes {
		for j := 0; j < perSrc; j++ {
			sizes[i] = append(sizes[i], pick(rng, 0, 10, 1000, 70000, 140000))
		}
	}
	seeds := make([]int64, nsrc)
	for i := range seeds {
		seeds[i] = rng.Int63()
	}
	// destination: reassemble calls per id, check, answer
	done := make(chan struct{})
	go func() {
		defer close(done)
		type st struct {
			frags []*rawCall
			ck    *rawCsum
		}
		calls := map[uint32]*st{}
		seen := map[uint32]bool{}
		answered := 0
		for answered < total {
			var f *rawFrame
			select {
			case f = <-dst.frames:
			case <-time.After(8 * time.Second):
				fail("destination received %d of %d calls within the time limit", answered, total)
				return
			}
			pc, err := parseRawCall(f.Type, f.Payload)
			if err != nil {
				fail("destination got an unparsable frame type %#x", f.Type)
				return
			}
			c := calls[f.ID]
			if f.Type == 0x03 {
				if c != nil {
					fail("destination got a second call req with id %d while that id is in flight: two calls collide", f.ID)
					return
				}
				if seen[f.ID] {
					fail("destination id %d reused", f.ID)
				}
				seen[f.ID] = true
				c = &st{ck: &rawCsum{typ: pc.CsumType}}
				calls[f.ID] = c
			} else if c == nil || f.Type != 0x13 {
				fail("destination got frame type %#x for id %d without a call req", f.Type, f.ID)
				return
			}
			for _, ch := range pc.Chunks {
				c.ck.add(ch)
			}
			if !bytes.Equal(pc.Csum, c.ck.bytes()) {
				fail("running checksum mismatch at the destination for id %d: frames of different calls mixed or reordered", f.ID)
				return
			}
			c.frags = append(c.frags, pc)
			if pc.Flags&1 != 0 {
				continue
			}
			args := collectArgs(c.frags)
			delete(calls, f.ID)
			answered++
			if len(args) != 3 || len(args[1]) < 8 {
				fail("call id %d arrived with %d args", f.ID, len(args))
				return
			}
			// arg2 = src(4) seq(4); arg3 must be the pattern for (src, seq)
			src, seq := binary.BigEndian.Uint32(args[1]), binary.BigEndian.Uint32(args[1][4:])
			if int(src) >= nsrc || int(seq) >= perSrc || !bytes.Equal(args[2], concPattern(src, seq, sizes[src][seq])) || string(args[0]) != fmt.Sprintf("m-%d-%d", src, seq) {
				fail("call id %d: arguments do not belong to one source call (src %d seq %d)", f.ID, src, seq)
				return
			}
			resArg3 := concPattern(src+1000, seq, sizes[src][seq]/2+3)
			hdr := rawCallResHeader(0, c.frags[0].Tracing, [][2]string{{"as", "raw"}})
			for _, fr := range buildRawCallFrames(false, f.ID, hdr, 1, [3][]byte{{}, args[1], resArg3}, 65519) {
				if err := dst.write(fr); err != nil {
					fail("harness: destination write: %v", err)
					return
				}
			}
		}
	}()
	var wg sync.WaitGroup
	for i := 0; i < nsrc; i++ {
		wg.Add(1)
		go func(i int) {
			defer wg.Done()
			lr := rand.New(rand.NewSource(seeds[i]))
			sc := e.conns[i]
			// interleave the frames of this source's calls; every source uses ids 1..perSrc
			var queues [][][]byte
			for j := 0; j < perSrc; j++ {
				a2 := make([]byte, 8)
				binary.BigEndian.PutUint32(a2, uint32(i))
				binary.BigEndian.PutUint32(a2[4:], uint32(j))
				tr := make([]byte, 25)
				tr[0], tr[1] = byte(i), byte(j)
				hdr := rawCallReqHeader(20000, tr, "svc", [][2]string{{"as", "raw"}, {"cn", fmt.Sprintf("src%d", i)}})
				queues = append(queues, buildRawCallFrames(true, uint32(j+1), hdr, byte(pick(lr, 0, 1, 3)), [3][]byte{[]byte(fmt.Sprintf("m-%d-%d", i, j)), a2, concPattern(uint32(i), uint32(j), sizes[i][j])}, pick(lr, 65519, 65519, 20000)))
			}
			for {
				var nonEmpty []int
				for j, q := range queues {
					if len(q) > 0 {
						nonEmpty = append(nonEmpty, j)
					}
				}
				if len(nonEmpty) == 0 {
					break
				}
				j := nonEmpty[lr.Intn(len(nonEmpty))]
				if err := sc.write(queues[j][0]); err != nil {
					fail("harness: source write: %v", err)
					return
				}
				queues[j] = queues[j][1:]
			}
			// responses: per id, in order, content for (i, id-1)
			type st struct {
				frags []*rawCall
				ck    *rawCsum
			}
			got := map[uint32]*st{}
			finished := 0
			for finished < perSrc {
				var f *rawFrame
				select {
				case f = <-sc.frames:
				case <-time.After(8 * time.Second):
					fail("source %d received %d of %d responses within the time limit", i, finished, perSrc)
					return
				}
				if f.Type != 0x04 && f.Type != 0x14 {
					fail("source %d got frame type %#x id %d instead of a call response (payload %q)", i, f.Type, f.ID, f.Payload[imin(len(f.Payload), 28):])
					return
				}
				pc, err := parseRawCall(f.Type, f.Payload)
				if err != nil || f.ID < 1 || int(f.ID) > perSrc {
					fail("source %d got a response with id %d it never used", i, f.ID)
					return
				}
				c := got[f.ID]
				if c == nil {
					c = &st{ck: &rawCsum{typ: pc.CsumType}}
					got[f.ID] = c
				}
				for _, ch := range pc.Chunks {
					c.ck.add(ch)
				}
				if !bytes.Equal(pc.Csum, c.ck.bytes()) {
					fail("source %d: running checksum mismatch in the response to id %d", i, f.ID)
					return
				}
				c.frags = append(c.frags, pc)
				if pc.Flags&1 != 0 {
					continue
				}
				finished++
				args := collectArgs(c.frags)
				j := f.ID - 1
				if len(args) != 3 || len(args[1]) != 8 || binary.BigEndian.Uint32(args[1]) != uint32(i) || binary.BigEndian.Uint32(args[1][4:]) != j ||
					!bytes.Equal(args[2], concPattern(uint32(i)+1000, j, sizes[i][j]/2+3)) || !bytes.Equal(c.frags[0].Tracing[:2], []byte{byte(i), byte(j)}) {
					fail("source %d id %d received the response of another call", i, f.ID)
					return
				}
			}
		}(i)
	}
	wg.Wait()
	<-done
	// all items gone on the relay's destination connection
	if verdict == "" {
		deadline := time.Now().Add(2 * time.Second)
		for {
			in, out := tchannel.VerifRelayItems(e.rconn[0])
			if in == 0 && out == 0 {
				break
			}
			if time.Now().After(deadline) {
				fail("after all calls completed the relay still holds %d inbound / %d outbound items on the destination connection", in, out)
				break
			}
			time.Sleep(10 * time.Millisecond)
		}
	}
	o.Hist(fmt.Sprintf("relayconc sources=%d calls/source=%d", nsrc, perSrc))
	o.Oracle("relayconc", id, true, fmt.Sprint(id, nsrc, perSrc, sizes), verdict)
}

func concPattern(a, b uint32, n int) []byte {
	out := make([]byte, n)
	x := a*2654435761 + b*40503 + 12345
	for i := range out {
		x = x*1664525 + 1013904223
		out[i] = byte(x >> 24)
	}
	return out
}

// ---------------------------------------------------------------- sub relayhop2

// raw source -> relay A -> relay B -> raw destination: after two hops the destination sees
// the caller's frames with only id and ttl (min of all) changed, and the caller sees the
// destination's frames with only the id changed back.
func runC08Hop2(rng *rand.Rand, o *Out, id string) {
	maxA := []time.Duration{0, 10 * time.Second, 30 * time.Second}[rng.Intn(3)]
	maxB := []time.Duration{0, 20 * time.Second, 7 * time.Second}[rng.Intn(3)]
	eB, err := newC08Env(0, 1, maxB, nil)
	defer func() {
		if eB != nil {
			eB.close()
		}
	}()
	if err != nil {
		o.Oracle("relayhop2", id, false, id, "harness: "+err.Error())
		return
	}
	eB.host.route = map[string]string{"svc": eB.dstHP[0]}
	hostA := &c08Host{route: map[string]string{"svc": eB.rly.PeerInfo().HostPort}}
	rlyA, err := tchannel.NewChannel("c08-relay-a", &tchannel.ChannelOptions{RelayHost: hostA, RelayMaxTimeout: maxA})
	if err != nil {
		o.Oracle("relayhop2", id, false, id, "harness: "+err.Error())
		return
	}
	defer rlyA.Close()
	if err := rlyA.ListenAndServe("127.0.0.1:0"); err != nil {
		o.Oracle("relayhop2", id, false, id, "harness: "+err.Error())
		return
	}
	c, err := net.DialTimeout("tcp", rlyA.PeerInfo().HostPort, 2*time.Second)
	if err != nil {
		o.Oracle("relayhop2", id, false, id, "harness: "+err.Error())
		return
	}
	defer c.Close()
	if _, err := rawClientHandshake(c); err != nil {
		o.Oracle("relayhop2", id, false, id, "harness: "+err.Error())
		return
	}
	src := newC08Conn(c)
	dst := eB.conns[0]
	verdict := ""
	ncalls := pick(rng, 1, 3, 6)
	for k := 0; k < ncalls && verdict == ""; k++ {
		ttl := uint32(pick(rng, 3000, 6999, 7000, 7001, 15000, 25000, 119000, 500000))
		want := ttl
		for _, m := range []uint32{c08MaxMs(maxA), c08MaxMs(maxB)} {
			if want > m {
				want = m
			}
		}
		tracing := c08Tracing(rng)
		headers := c08GenHeaders(rng, "raw")
		args := [3][]byte{[]byte("meth" + randBytes(rng, 3)), []byte(randBytes(rng, pick(rng, 0, 10, 2000))), []byte(randBytes(rng, pick(rng, 0, 100, 70000, 140000)))}
		cid := uint32(pick(rng, 1, 2, 0xffffffff, 77))
		frames := buildRawCallFrames(true, cid, rawCallReqHeader(ttl, tracing, "svc", headers), byte(pick(rng, 0, 1, 3)), args, pick(rng, 65519, 65519, 30000))
		var did uint32
		for i, fr := range frames {
			if err := src.write(fr); err != nil {
				verdict = "harness: " + err.Error()
				break
			}
			f := dst.waitFrame(3 * time.Second)
			if f == nil {
				verdict = fmt.Sprintf("frame %d of a call did not reach the destination through two relays", i)
				break
			}
			wantP := append([]byte{}, fr[16:]...)
			if i == 0 {
				binary.BigEndian.PutUint32(wantP[1:5], want)
				did = f.ID
			}
			if f.Type != fr[2] || f.ID != did || !bytes.Equal(f.Payload, wantP) {
				verdict = fmt.Sprintf("after two relays frame %d differs from the original beyond id and ttl=min(%d, maxima)=%d (type %#x, first difference at payload byte %d)", i, ttl, want, f.Type, rfFirstDiff(f.Payload, wantP))
				break
			}
		}
		if verdict != "" {
			break
		}
		var res [][]byte
		if rng.Intn(4) == 0 {
			res = [][]byte{rawFrameBytes(0xff, did, rawErrorPayload(byte(pick(rng, 1, 3, 5)), tracing, c08DstMarker+"two hops away"))}
		} else {
			res = buildRawCallFrames(false, did, rawCallResHeader(byte(rng.Intn(2)), tracing, [][2]string{{"as", "raw"}}), byte(pick(rng, 0, 1, 3)),
				[3][]byte{{}, []byte(randBytes(rng, pick(rng, 0, 20))), []byte(randBytes(rng, pick(rng, 0, 100, 66000, 140000)))}, pick(rng, 65519, 65519, 10000))
		}
		for i, fr := range res {
			if err := dst.write(fr); err != nil {
				verdict = "harness: " + err.Error()
				break
			}
			f := src.waitFrame(3 * time.Second)
			if f == nil {
				verdict = fmt.Sprintf("response frame %d did not reach the caller through two relays", i)
				break
			}
			if f.Type != fr[2] || f.ID != cid || !bytes.Equal(f.Payload, fr[16:]) {
				verdict = fmt.Sprintf("after two relays response frame %d differs from what the destination produced beyond the id (type %#x id %d want %d)", i, f.Type, f.ID, cid)
				break
			}
		}
	}
	o.Hist("relayhop2")
	o.Oracle("relayhop2", id, true, fmt.Sprint(id, maxA, maxB, ncalls), verdict)
}

// ---------------------------------------------------------------- sub relaytiny

// A peer is free to use small frames.  A call whose arg1 does not end within the first frame is
// served by a real server when sent directly; through a relay it must arrive as well.
func runC08Tiny(rng *rand.Rand, o *Out, id string) {
	method := "tiny-" + strings.Repeat("m", pick(rng, 60, 100, 200))
	server, err := tchannel.NewChannel("svc", nil)
	if err != nil {
		o.Oracle("relaytiny", id, false, id, "harness: "+err.Error())
		return
	}
	defer server.Close()
	server.Register(raw.Wrap(&captureHandler{}), method)
	if err := server.ListenAndServe("127.0.0.1:0"); err != nil {
		o.Oracle("relaytiny", id, false, id, "harness: "+err.Error())
		return
	}
	host := &c08Host{route: map[string]string{"svc": server.PeerInfo().HostPort}}
	rly, err := tchannel.NewChannel("c08-relay-tiny", &tchannel.ChannelOptions{RelayHost: host})
	if err != nil {
		o.Oracle("relaytiny", id, false, id, "harness: "+err.Error())
		return
	}
	defer rly.Close()
	if err := rly.ListenAndServe("127.0.0.1:0"); err != nil {
		o.Oracle("relaytiny", id, false, id, "harness: "+err.Error())
		return
	}
	arg3 := []byte(randBytes(rng, pick(rng, 0, 10, 300)))
	frames := buildRawCallFrames(true, 5, rawCallReqHeader(3000, make([]byte, 25), "svc", [][2]string{{"as", "raw"}, {"cn", "tiny"}}), byte(pick(rng, 0, 1, 3)),
		[3][]byte{[]byte(method), []byte("a2"), arg3}, 100)
	try := func(hp string) (string, bool) {
		c, err := net.DialTimeout("tcp", hp, 2*time.Second)
		if err != nil {
			return "harness: " + err.Error(), false
		}
		defer c.Close()
		if _, err := rawClientHandshake(c); err != nil {
			return "harness: " + err.Error(), false
		}
		for _, f := range frames {
			c.Write(f)
		}
		var frags []*rawCall
		for {
			f, err := readRawFrame(c, 1500*time.Millisecond)
			if err != nil {
				return "no response frame and no error frame within 1.5 s", false
			}
			if f.Type == 0xff {
				return fmt.Sprintf("error frame code %d %q", f.Payload[0], f.Payload[imin(28, len(f.Payload)):]), false
			}
			pc, err := parseRawCall(f.Type, f.Payload)
			if err != nil {
				return "unparsable response", false
			}
			frags = append(frags, pc)
			if pc.Flags&1 == 0 {
				break
			}
		}
		args := collectArgs(frags)
		if len(args) != 3 || !bytes.Equal(args[2], arg3) {
			return "wrong response", false
		}
		return "", true
	}
	verdict := ""
	if msg, ok := try(server.PeerInfo().HostPort); !ok {
		// the direct path is the reference: if the server itself refuses such a call it is not a relay matter
		o.Hist("relaytiny: direct call refused (" + msg + ")")
	} else if msg, ok := try(rly.PeerInfo().HostPort); !ok {
		verdict = fmt.Sprintf("[c08:arg1-not-in-first-frame-dropped] a call sent in %d frames of <= 100 payload bytes whose arg1 (%d bytes) does not end within the first frame is answered when sent directly but not through a relay: %s", len(frames), len(method), msg)
	}
	o.Hist("relaytiny")
	o.Oracle("relaytiny", id, true, fmt.Sprint(id, len(method), len(arg3)), verdict)
}

// ---------------------------------------------------------------- engine

func engineRelayFwd(rng *rand.Rand, n int, tier string, o *Out) {
	// n = number of sequenced scenarios; the cheap parser cases are 12 per scenario
	for i := 0; i < 12*n; i++ {
		lazyreqCase(rng, o, fmt.Sprintf("lz%d", i))
	}
	// a broken relay fails everywhere: after a few failures of a kind stop waiting out time limits
	for i, f0 := 0, o.fails; i < n && o.fails < f0+8; i++ {
		runC08Scenario(rng, o, fmt.Sprintf("sc%d", i), tier)
	}
	for i, f0 := 0, o.fails; i < n/4+1 && o.fails < f0+3; i++ {
		runC08Conc(rng, o, fmt.Sprintf("cc%d", i))
	}
	for i, f0 := 0, o.fails; i < n/4+1 && o.fails < f0+3; i++ {
		runC08Hop2(rng, o, fmt.Sprintf("h%d", i))
	}
	for i := 0; i < 2; i++ {
		runC08Tiny(rng, o, fmt.Sprintf("t%d", i))
	}
}
