package main

// engine_retryruns.go (C17): SEVERAL Channel.RunWithRetry runs that overlap in time -- the
// clause "each attempt sees its attempt number and the peers already tried" when the
// RequestState comes out of requestStatePool.
//
//   nested      the retried function of a run makes a retried call of its own (what a thrift /
//               json client does inside a retried function), one or two levels deep, on the same
//               or on another Channel (the pool is package-level), with its own options;
//   concurrent  runs in 2..3 goroutines; an attempt YIELDS to the next goroutine, which runs
//               until one of its attempts yields or it is finished.  A baton (one unbuffered
//               channel per goroutine) makes exactly one goroutine runnable at a time, so the
//               interleaving is the generated one, not the scheduler's.
//
// "pinned" cases run under GOMAXPROCS(1) with the garbage collector off: sync.Pool then hands out
// the element most recently put back, every time, and the case records WHICH element every run
// was given (pointer identity -> small names); the model (Model/RetryRuns.v, sub retryruns)
// replays the recorded labels on a heap + pool and refuses a Get of an element that a run still
// holds.  "free" cases run with the process's normal settings and name a fresh element per run.
//
// Oracle, from the statement, per run and independent of the model: 1..MaxAttempts calls
// (its OWN options; 0 / none => 5), attempt numbers 1..k in order, the same at the call and at
// the return of the retried function; stop at the first success / first error its OWN policy
// does not retry / its budget; nil or its last error returned; at the call an attempt sees
// exactly the host:ports and hosts marked by the EARLIER attempts of ITS run, at its return
// those plus its own -- never one that only another run marked; a selection from a sub-channel
// peer list with the attempt's PrevSelectedPeers does not go back to a peer this run has tried
// while the list holds one it has not; every attempt of a run is handed the same RequestState.

import (
	"fmt"
	"math/rand"
	"runtime"
	"runtime/debug"
	"sort"
	"strings"
	"time"

	tchannel "github.com/uber/tchannel-go"
	"golang.org/x/net/context"
)

type rrAttempt struct {
	marks      []string
	selectSC   bool
	children   []*rrRun
	yield      bool
	marksAfter []string
	out        scriptedOutcome
}

type rrLook struct {
	attempt int
	sel     []string
}

type rrRun struct {
	id          int
	hasOpts     bool
	maxAttempts int
	policy      int
	tpa         time.Duration
	chIdx       int
	attempts    []rrAttempt
	depth       int

	// results
	calls    int
	looks    []rrLook // call, return, call, return, ...
	ownMarks [][]string
	ret      error
	returned bool
	started  bool
	startIdx int // index of the LStart label's element slot
	ptr      *tchannel.RequestState
	verdict  string
}

func (r *rrRun) eff() (int, int) {
	m, p := r.maxAttempts, r.policy
	if !r.hasOpts {
		m, p = 5, 0
	}
	if m == 0 {
		m = 5
	}
	return m, p
}

type rrBaton struct {
	wake []chan struct{}
	live []bool
	done chan struct{}
}

func (b *rrBaton) next(me int) int {
	n := len(b.live)
	for d := 1; d < n; d++ {
		if g := (me + d) % n; b.live[g] {
			return g
		}
	}
	return -1
}

func (b *rrBaton) yield(me int) bool {
	g := b.next(me)
	if g < 0 {
		return false
	}
	b.wake[g] <- struct{}{}
	<-b.wake[me]
	return true
}

func (b *rrBaton) finish(me int) {
	b.live[me] = false
	if g := b.next(me); g >= 0 {
		b.wake[g] <- struct{}{}
	} else {
		close(b.done)
	}
}

type rrCase struct {
	chans  []*tchannel.Channel
	sc     *tchannel.SubChannel
	scList []string
	pinned bool
	labels []int64
	nlab   int
	objs   map[*tchannel.RequestState]int
	baton  *rrBaton
	runs   []*rrRun
	yields int
}

func rrHost(hp string) string {
	if i := strings.LastIndex(hp, ":"); i >= 0 {
		return hp[:i]
	}
	return hp
}

func rrSeen(rs *tchannel.RequestState) []string {
	keys := []string{}
	for h := range rs.PrevSelectedPeers() {
		keys = append(keys, h)
	}
	sort.Strings(keys)
	return keys
}

func (c *rrCase) obj(r *rrRun, rs *tchannel.RequestState) int64 {
	if !c.pinned {
		return int64(1000 + r.id)
	}
	if id, ok := c.objs[rs]; ok {
		return int64(id)
	}
	id := len(c.objs) + 1
	c.objs[rs] = id
	return int64(id)
}

func (c *rrCase) mark(r *rrRun, rs *tchannel.RequestState, hp string) {
	rs.AddSelectedPeer(hp)
	c.labels = append(c.labels, 2, int64(r.id))
	c.labels = putBytes(c.labels, []byte(hp))
	c.nlab++
	r.ownMarks[len(r.ownMarks)-1] = append(r.ownMarks[len(r.ownMarks)-1], hp)
}

// run one RunWithRetry on goroutine g (nested runs recurse)
func (c *rrCase) run(g int, r *rrRun) {
	cb := tchannel.NewContextBuilder(20 * time.Second)
	if r.hasOpts {
		cb.SetRetryOptions(&tchannel.RetryOptions{MaxAttempts: r.maxAttempts, RetryOn: tchannel.RetryOn(r.policy), TimeoutPerAttempt: r.tpa})
	}
	ctx, cancel := cb.Build()
	defer cancel()
	c.labels = append(c.labels, 0, int64(r.id), b2i(r.hasOpts), int64(r.maxAttempts), int64(r.policy), -1)
	r.startIdx = len(c.labels) - 1
	r.started = true
	c.nlab++
	func() {
		defer func() {
			if p := recover(); p != nil {
				r.verdict = fmt.Sprintf("run %d: RunWithRetry panicked: %v", r.id, p)
			}
		}()
		r.ret = c.chans[r.chIdx].RunWithRetry(ctx, func(actx context.Context, rs *tchannel.RequestState) error {
			k := r.calls
			r.calls++
			at := r.attempts[len(r.attempts)-1]
			if k < len(r.attempts) {
				at = r.attempts[k]
			}
			if r.ptr == nil {
				r.ptr = rs
				c.labels[r.startIdx] = c.obj(r, rs)
			} else if r.ptr != rs {
				r.verdict = fmt.Sprintf("run %d: attempt %d was handed another RequestState than attempt 1", r.id, k+1)
			}
			c.labels = append(c.labels, 1, int64(r.id), c.obj(r, rs))
			c.nlab++
			r.looks = append(r.looks, rrLook{rs.Attempt, rrSeen(rs)})
			r.ownMarks = append(r.ownMarks, nil)
			for _, hp := range at.marks {
				c.mark(r, rs, hp)
			}
			if at.selectSC {
				// what SubChannel.BeginCall does: select with the peers tried so far, then mark
				tried := map[string]bool{}
				for _, ms := range r.ownMarks {
					for _, hp := range ms {
						tried[hp] = true
					}
				}
				untried := 0
				for _, hp := range c.scList {
					if !tried[hp] {
						untried++
					}
				}
				p, err := c.sc.Peers().Get(rs.PrevSelectedPeers())
				if err != nil {
					r.verdict = fmt.Sprintf("run %d: PeerList.Get failed on a list of %d peers: %v", r.id, len(c.scList), err)
				} else {
					if tried[p.HostPort()] && untried > 0 {
						r.verdict = fmt.Sprintf("run %d attempt %d (attempt number seen: %d) was sent to %s, which this run had already tried, although %d of %d peers were untried", r.id, k+1, rs.Attempt, p.HostPort(), untried, len(c.scList))
					}
					c.mark(r, rs, p.HostPort())
				}
			}
			for _, ch := range at.children {
				c.run(g, ch)
			}
			if at.yield {
				if c.baton.yield(g) {
					c.yields++
				}
			}
			for _, hp := range at.marksAfter {
				c.mark(r, rs, hp)
			}
			r.looks = append(r.looks, rrLook{rs.Attempt, rrSeen(rs)})
			e := at.out.err()
			c.labels = append(c.labels, 3, int64(r.id))
			c.labels = append(c.labels, encErr(e)...)
			c.nlab++
			return e
		})
		r.returned = true
	}()
}

// the statement, for one run
func (c *rrCase) judge(r *rrRun) string {
	if r.verdict != "" {
		return r.verdict
	}
	if !r.returned {
		return fmt.Sprintf("run %d did not return", r.id)
	}
	effMax, effPolicy := r.eff()
	if r.calls < 1 || r.calls > effMax {
		return fmt.Sprintf("run %d: invoked %d times, budget %d", r.id, r.calls, effMax)
	}
	// who marked what (for the message only)
	owner := map[string]int{}
	for _, o := range c.runs {
		for _, ms := range o.ownMarks {
			for _, hp := range ms {
				if _, ok := owner[hp]; !ok || o.id == r.id {
					owner[hp] = o.id
				}
				if _, ok := owner[rrHost(hp)]; !ok || o.id == r.id {
					owner[rrHost(hp)] = o.id
				}
			}
		}
	}
	want := map[string]bool{}
	check := func(k int, when string, look rrLook) string {
		if look.attempt != k+1 {
			return fmt.Sprintf("run %d: call %d saw attempt number %d %s, want %d", r.id, k+1, look.attempt, when, k+1)
		}
		for _, h := range look.sel {
			if !want[h] {
				if o, ok := owner[h]; ok && o != r.id {
					return fmt.Sprintf("run %d: call %d saw tried peer %s %s, which only run %d selected", r.id, k+1, h, when, o)
				}
				return fmt.Sprintf("run %d: call %d saw tried peer %s %s, which no earlier attempt of this run selected", r.id, k+1, h, when)
			}
		}
		if len(look.sel) != len(want) {
			return fmt.Sprintf("run %d: call %d saw %d tried entries %s, want %d (its own tried peers are forgotten)", r.id, k+1, len(look.sel), when, len(want))
		}
		return ""
	}
	for k := 0; k < r.calls; k++ {
		if 2*k+1 >= len(r.looks) {
			return fmt.Sprintf("run %d: call %d did not return", r.id, k+1)
		}
		if v := check(k, "when called", r.looks[2*k]); v != "" {
			return v
		}
		for _, hp := range r.ownMarks[k] {
			want[hp] = true
			want[rrHost(hp)] = true
		}
		if v := check(k, "when it returned", r.looks[2*k+1]); v != "" {
			return v
		}
		at := r.attempts[len(r.attempts)-1]
		if k < len(r.attempts) {
			at = r.attempts[k]
		}
		last := k == r.calls-1
		if at.out.kind == 0 && !last {
			return fmt.Sprintf("run %d continued after a success", r.id)
		}
		if at.out.kind != 0 && !specRetryable(effPolicy, at.out) && !last {
			return fmt.Sprintf("run %d continued after an error its policy %d does not retry", r.id, effPolicy)
		}
		if last {
			if at.out.kind == 0 && r.ret != nil {
				return fmt.Sprintf("run %d: success not returned as nil", r.id)
			}
			if at.out.kind != 0 {
				if r.ret == nil || fmt.Sprint(encErr(r.ret)) != fmt.Sprint(encErr(at.out.err())) {
					return fmt.Sprintf("run %d: last error not returned", r.id)
				}
				if specRetryable(effPolicy, at.out) && r.calls < effMax {
					return fmt.Sprintf("run %d stopped after %d calls on a retryable error with budget %d", r.id, r.calls, effMax)
				}
			}
		}
	}
	return ""
}

func init() { engines["retryruns"] = engineRetryRuns }

func engineRetryRuns(rng *rand.Rand, n int, tier string, o *Out) {
	var chans []*tchannel.Channel
	for i := 0; i < 2; i++ {
		ch, err := tchannel.NewChannel(fmt.Sprintf("verif-retryruns-%d", i), nil)
		if err != nil {
			panic(err)
		}
		defer ch.Close()
		chans = append(chans, ch)
	}

	interesting := []int{0, 1, 2, 3, 4, 5, 6, 7, 8, 255}
	caseNo := 0
	nextID := 0

	var genRun func(depth int, shared bool) *rrRun
	genRun = func(depth int, shared bool) *rrRun {
		nextID++
		r := &rrRun{id: nextID, depth: depth}
		r.hasOpts = rng.Intn(8) != 0
		r.maxAttempts = []int{0, 1, 2, 3, 4, 5, 7}[rng.Intn(7)]
		r.policy = rng.Intn(6)
		if rng.Intn(6) == 0 {
			r.tpa = time.Duration(1+rng.Intn(5)) * time.Second
		}
		r.chIdx = rng.Intn(len(chans))
		effMax, _ := r.eff()
		success := rng.Intn(effMax + 2) // may be beyond the budget: never succeeds
		nChildrenLeft := 2
		for k := 0; k < effMax; k++ {
			at := rrAttempt{}
			if k == success {
				at.out.kind = 0
			} else {
				switch rng.Intn(10) {
				case 0:
					at.out.kind = 2
				case 1:
					at.out.kind = []int{3, 4, 5, 6, 7, 8}[rng.Intn(6)]
				case 2:
					at.out.kind, at.out.code = 1, interesting[rng.Intn(len(interesting))]
				default: // mostly retryable, so that runs have later attempts that can see the damage
					at.out.kind, at.out.code = 1, []int{3, 4}[rng.Intn(2)]
				}
				if at.out.kind == 1 && rng.Intn(3) == 0 {
					at.out.wrap = 1 + rng.Intn(4)
				}
			}
			pool := r.id
			if shared {
				pool = 99
			}
			mk := func() string {
				if rng.Intn(12) == 0 {
					return fmt.Sprintf("host%d-%d", pool, rng.Intn(3)) // no port
				}
				return fmt.Sprintf("10.%d.0.%d:%d", pool, rng.Intn(4), 4000+rng.Intn(3))
			}
			for j := rng.Intn(3); j > 0; j-- {
				at.marks = append(at.marks, mk())
			}
			if rng.Intn(4) == 0 {
				at.marksAfter = append(at.marksAfter, mk())
			}
			at.selectSC = rng.Intn(4) == 0
			if depth < 2 && nChildrenLeft > 0 && rng.Intn(3) == 0 {
				for j := 1 + rng.Intn(2); j > 0 && nChildrenLeft > 0; j-- {
					at.children = append(at.children, genRun(depth+1, shared))
					nChildrenLeft--
				}
			}
			at.yield = rng.Intn(3) == 0
			r.attempts = append(r.attempts, at)
		}
		return r
	}

	var collect func(r *rrRun, into *[]*rrRun)
	collect = func(r *rrRun, into *[]*rrRun) {
		*into = append(*into, r)
		for _, at := range r.attempts {
			for _, ch := range at.children {
				collect(ch, into)
			}
		}
	}

	runCase := func(id string, pinned bool, plan [][]*rrRun) {
		caseNo++
		c := &rrCase{chans: chans, pinned: pinned, objs: map[*tchannel.RequestState]int{}}
		c.sc = chans[0].GetSubChannel(fmt.Sprintf("rr-svc-%d", caseNo), tchannel.Isolated)
		// distinct scores: the heap breaks ties between equal scores at random, the case must not
		scores := map[string]uint64{}
		c.sc.Peers().SetStrategy(tchannel.ScoreCalculatorFunc(func(p *tchannel.Peer) uint64 { return scores[p.HostPort()] }))
		np := 2 + rng.Intn(3)
		for _, i := range rng.Perm(np) {
			hp := fmt.Sprintf("10.200.%d.%d:5000", caseNo%250, i)
			scores[hp] = uint64(10 + len(c.scList))
			c.scList = append(c.scList, hp)
			c.sc.Peers().Add(hp)
		}
		for _, rs := range plan {
			for _, r := range rs {
				collect(r, &c.runs)
			}
		}
		G := len(plan)
		c.baton = &rrBaton{wake: make([]chan struct{}, G), live: make([]bool, G), done: make(chan struct{})}
		for g := 0; g < G; g++ {
			c.baton.wake[g] = make(chan struct{})
			c.baton.live[g] = true
		}
		for g := 0; g < G; g++ {
			go func(g int) {
				<-c.baton.wake[g]
				for _, r := range plan[g] {
					c.run(g, r)
				}
				c.baton.finish(g)
			}(g)
		}
		c.baton.wake[0] <- struct{}{}
		select {
		case <-c.baton.done:
		case <-time.After(60 * time.Second):
			o.Oracle("retryruns-stuck", id, true, id, "[harness-crash] the runs of case "+id+" did not finish within 60 s")
			return
		}

		in := append([]int64{int64(c.nlab)}, c.labels...)
		// runs nested in an attempt that was never made did not start
		started := c.runs[:0]
		for _, r := range c.runs {
			if r.started {
				started = append(started, r)
			}
		}
		c.runs = started
		sort.Slice(c.runs, func(i, j int) bool { return c.runs[i].id < c.runs[j].id })
		obs := []int64{int64(len(c.runs))}
		verdict := ""
		maxDepth, overlapping := 0, len(c.runs) > 1 && c.yields > 0
		for _, r := range c.runs {
			obs = append(obs, int64(r.id), b2i(r.returned))
			obs = append(obs, encErr(r.ret)...)
			obs = append(obs, int64(len(r.looks)))
			for _, l := range r.looks {
				obs = append(obs, int64(l.attempt), int64(len(l.sel)))
				for _, h := range l.sel {
					obs = putBytes(obs, []byte(h))
				}
			}
			if v := c.judge(r); v != "" && verdict == "" {
				verdict = v
			}
			if r.depth > maxDepth {
				maxDepth = r.depth
			}
		}
		if maxDepth > 0 {
			overlapping = true
		}
		variant := "free"
		if pinned {
			variant = "pinned"
		}
		o.Hist(fmt.Sprintf("%s goroutines=%d nesting=%d", variant, G, maxDepth))
		o.Hist(fmt.Sprintf("runs=%d", len(c.runs)))
		if c.yields > 0 {
			o.Hist("yielded")
		}
		if caseNo <= 2 {
			o.Sample(map[string]interface{}{"engine": "retryruns", "case": id, "input": in, "observed": obs})
		}
		o.Case("retryruns", id, in, obs, overlapping, verdict)
	}

	busy := scriptedOutcome{kind: 1, code: 3}
	okOut := scriptedOutcome{kind: 0}
	fixedNested := func() [][]*rrRun {
		// the retried function of a 4-attempt run makes a 3-attempt retried call each time
		nextID = 0
		outer := &rrRun{id: 1, hasOpts: true, maxAttempts: 4, policy: 0}
		nextID = 1
		for k := 0; k < 4; k++ {
			nextID++
			inner := &rrRun{id: nextID, hasOpts: true, maxAttempts: 3, policy: 0, depth: 1, chIdx: k % 2}
			for j := 0; j < 3; j++ {
				out := busy
				if j == 2 {
					out = okOut
				}
				inner.attempts = append(inner.attempts, rrAttempt{marks: []string{"192.168.7.7:7000"}, out: out})
			}
			out := busy
			if k == 3 {
				out = okOut
			}
			outer.attempts = append(outer.attempts, rrAttempt{marks: []string{fmt.Sprintf("10.0.0.%d:1000", k+1)}, children: []*rrRun{inner}, out: out})
		}
		return [][]*rrRun{{outer}}
	}
	fixedConcurrent := func() [][]*rrRun {
		// run 1: first attempt selects from the sub-channel list and is slow (yields), fails busy;
		// its second attempt selects again.  Run 2 (other goroutine) makes three busy attempts meanwhile.
		a := &rrRun{id: 1, hasOpts: true, maxAttempts: 3, policy: 0}
		a.attempts = []rrAttempt{{selectSC: true, yield: true, out: busy}, {selectSC: true, out: busy}, {selectSC: true, out: okOut}}
		b := &rrRun{id: 2, hasOpts: true, maxAttempts: 3, policy: 0, chIdx: 1}
		for j := 0; j < 3; j++ {
			b.attempts = append(b.attempts, rrAttempt{marks: []string{"2.2.2.2:2222"}, out: busy})
		}
		nextID = 2
		return [][]*rrRun{{a}, {b}}
	}
	fixedSingleOuterAttempt := func() [][]*rrRun {
		// the outer run has ONE attempt: the damage must be visible at the return of that attempt
		outer := &rrRun{id: 1, hasOpts: true, maxAttempts: 1, policy: 2}
		inner := &rrRun{id: 2, hasOpts: false, depth: 1}
		for j := 0; j < 5; j++ {
			inner.attempts = append(inner.attempts, rrAttempt{marks: []string{"10.2.0.1:4000"}, out: busy})
		}
		outer.attempts = []rrAttempt{{marks: []string{"10.1.0.1:4000"}, children: []*rrRun{inner}, out: busy}}
		nextID = 2
		return [][]*rrRun{{outer}}
	}

	genPlan := func() [][]*rrRun {
		nextID = 0
		G := 1
		switch rng.Intn(5) {
		case 0, 1:
			G = 2
		case 2:
			G = 3
		}
		shared := rng.Intn(5) == 0
		plan := make([][]*rrRun, G)
		for g := 0; g < G; g++ {
			for j := 1 + rng.Intn(2); j > 0; j-- {
				plan[g] = append(plan[g], genRun(0, shared))
			}
		}
		return plan
	}

	// pinned phase: one P, no GC -- the pool is deterministic
	nFree := n / 4
	oldProcs := runtime.GOMAXPROCS(1)
	oldGC := debug.SetGCPercent(-1)
	runCase("fixed-nested", true, fixedNested())
	runCase("fixed-concurrent", true, fixedConcurrent())
	runCase("fixed-one-outer-attempt", true, fixedSingleOuterAttempt())
	for i := 0; i < n-nFree; i++ {
		runCase(fmt.Sprintf("p%d", i), true, genPlan())
		if i%2000 == 1999 {
			runtime.GC()
		}
	}
	debug.SetGCPercent(oldGC)
	runtime.GOMAXPROCS(oldProcs)
	// free phase
	runCase("fixed-nested-free", false, fixedNested())
	runCase("fixed-concurrent-free", false, fixedConcurrent())
	for i := 0; i < nFree; i++ {
		runCase(fmt.Sprintf("f%d", i), false, genPlan())
	}
}
