package main

import (
	"fmt"
	"math/rand"
	"net"
	"sync/atomic"
	"time"

	tchannel "github.com/uber/tchannel-go"
	"github.com/uber/tchannel-go/raw"
	"github.com/uber/tchannel-go/relay/relaytest"
)

// relayinactive (C09, C10, C11): the destination connection a relay has just selected leaves
// the active state before the call is admitted on it (the relay's OnPeerStatusChanged
// callback closes the freshly dialled connection).  The caller must see exactly ONE terminal
// frame for its id (a declined error) and nothing else; the relay must account for the call
// once and keep no pending count, so that it can still complete a graceful close.
// Added after seeded defects in this rarely taken branch were missed.

func init() { engines["relayinactive"] = engineRelayInactive }

func engineRelayInactive(rng *rand.Rand, n int, tier string, o *Out) {
	for c := 0; c < n; c++ {
		v := relayInactiveOnce(rng)
		if len(v) > 8 && v[:8] == "harness:" {
			o.Hist("relayinactive harness-problem")
			v = ""
		}
		o.Hist("relayinactive")
		if c == 0 {
			o.Sample(map[string]interface{}{"sub": "relayinactive", "scenario": "selected remote connection closed before admission"})
		}
		o.Oracle("relayinactive", fmt.Sprintf("ri%d", c), true, fmt.Sprint(c), v)
	}
}

func relayInactiveOnce(rng *rand.Rand) string {
	backend, err := tchannel.NewChannel("backend", &tchannel.ChannelOptions{Logger: tchannel.NullLogger})
	if err != nil {
		return "harness: " + err.Error()
	}
	defer backend.Close()
	backend.Register(raw.Wrap(childHandler{}), "echo")
	if err := backend.ListenAndServe("127.0.0.1:0"); err != nil {
		return "harness: " + err.Error()
	}
	backendHP := backend.PeerInfo().HostPort
	var sabotaged int32
	rh := relaytest.NewStubRelayHost()
	rly, err := tchannel.NewChannel("relay", &tchannel.ChannelOptions{
		RelayHost: rh, Logger: tchannel.NullLogger,
		OnPeerStatusChanged: func(p *tchannel.Peer) {
			if p.HostPort() != backendHP || !atomic.CompareAndSwapInt32(&sabotaged, 0, 1) {
				return
			}
			ctx, cancel := tchannel.NewContext(time.Second)
			defer cancel()
			if conn, err := p.GetConnection(ctx); err == nil {
				conn.Close()
			} else {
				atomic.StoreInt32(&sabotaged, -1)
			}
		},
	})
	if err != nil {
		return "harness: " + err.Error()
	}
	if err := rly.ListenAndServe("127.0.0.1:0"); err != nil {
		rly.Close()
		return "harness: " + err.Error()
	}
	rh.Add("backend", backendHP)

	// a raw caller, so that every frame written back for the id is seen
	conn, err := net.DialTimeout("tcp", rly.PeerInfo().HostPort, time.Second)
	if err != nil {
		rly.Close()
		return "harness: " + err.Error()
	}
	defer conn.Close()
	if _, err := rawClientHandshake(conn); err != nil {
		rly.Close()
		return "harness: handshake: " + err.Error()
	}
	id := uint32(100 + rng.Intn(1000))
	hdr := rawCallReqHeader(1500, zeroTracing, "backend", [][2]string{{"as", "raw"}, {"cn", "rawpeer"}})
	for _, f := range buildRawCallFrames(true, id, hdr, 1, [3][]byte{[]byte("echo"), []byte("a2"), []byte("a3")}, 65519) {
		conn.Write(f)
	}
	var kinds []string
	deadline := time.Now().Add(2200 * time.Millisecond)
	for time.Now().Before(deadline) {
		f, err := readRawFrame(conn, time.Until(deadline))
		if err != nil {
			break
		}
		if f.ID != id {
			continue
		}
		switch f.Type {
		case 0xff:
			kinds = append(kinds, fmt.Sprintf("Err(%d)", f.Payload[0]))
		case 0x04:
			kinds = append(kinds, "Res")
		case 0x14:
			kinds = append(kinds, "Cont")
		}
	}
	verdict := ""
	if atomic.LoadInt32(&sabotaged) != 1 {
		verdict = "harness: the remote connection was not closed in the window"
	} else if len(kinds) == 0 {
		verdict = "no frame at all was written back for the request id within its 1.5 s time-to-live"
	} else if len(kinds) > 1 {
		verdict = fmt.Sprintf("id %d: caller-side frames %v: more than one terminal frame / frames after the terminal", id, kinds)
	}
	// a second call must work (a new connection is dialled), then the relay must close gracefully
	if verdict == "" {
		client, err := tchannel.NewChannel("client", &tchannel.ChannelOptions{Logger: tchannel.NullLogger})
		if err == nil {
			ctx, cancel := tchannel.NewContext(time.Second)
			_, _, _, cerr := raw.Call(ctx, client, rly.PeerInfo().HostPort, "backend", "echo", nil, []byte("x"))
			cancel()
			client.Close()
			if cerr != nil {
				verdict = "a later call through the relay failed: " + cerr.Error()
			}
		}
	}
	// the caller stays connected: a graceful close must not depend on the peer going away
	rly.Close()
	if verdict == "" {
		select {
		case <-rly.ClosedChan():
		case <-time.After(3 * time.Second):
			verdict = fmt.Sprintf("after a call declined because its selected remote connection was inactive, the relay channel cannot complete a graceful close (state %v): a pending count or item is still held", rly.State())
		}
	}
	return verdict
}

// inboundleak (C11): malformed multi-fragment requests from a raw peer (arg1 never completed,
// bad continuation) with a short time-to-live.  After the time-to-live the server must hold no
// message exchange for them, and must still be able to close gracefully while that peer
// stays connected.
func init() { engines["inboundleak"] = engineInboundLeak }

func engineInboundLeak(rng *rand.Rand, n int, tier string, o *Out) {
	for c := 0; c < n; c++ {
		v, key := inboundLeakOnce(rng)
		if len(v) > 8 && v[:8] == "harness:" {
			v = ""
		}
		o.Hist("inboundleak " + key)
		if c == 0 {
			o.Sample(map[string]interface{}{"sub": "inboundleak", "variant": key})
		}
		o.Oracle("inboundleak", fmt.Sprintf("il%d", c), true, fmt.Sprint(c, key), v)
	}
}

func inboundLeakOnce(rng *rand.Rand) (string, string) {
	srv, err := tchannel.NewChannel("leak-server", &tchannel.ChannelOptions{Logger: tchannel.NullLogger})
	if err != nil {
		return "harness: " + err.Error(), ""
	}
	srv.Register(raw.Wrap(childHandler{}), "echo")
	if err := srv.ListenAndServe("127.0.0.1:0"); err != nil {
		return "harness: " + err.Error(), ""
	}
	conn, err := net.DialTimeout("tcp", srv.PeerInfo().HostPort, time.Second)
	if err != nil {
		srv.Close()
		return "harness: " + err.Error(), ""
	}
	defer conn.Close()
	if _, err := rawClientHandshake(conn); err != nil {
		srv.Close()
		return "harness: " + err.Error(), ""
	}
	hdr := rawCallReqHeader(200, zeroTracing, "leak-server", [][2]string{{"as", "raw"}})
	variant := rng.Intn(4)
	key := []string{"arg1-open-then-chunk-overrun", "arg1-open-then-bad-checksum", "arg1-only-no-more-fragments", "arg1-open-then-silence"}[variant]
	id := uint32(500 + rng.Intn(100))
	first := append(append([]byte{1}, hdr...), 0) // more fragments, checksum none
	first = append(first, 0, 2, 'e', 'c')         // arg1 chunk "ec", argument still open
	switch variant {
	case 0:
		conn.Write(rawFrameBytes(0x03, id, first))
		conn.Write(rawFrameBytes(0x13, id, []byte{0, 0, 0xff, 0xff, 'x'}))
	case 1:
		f := append(append([]byte{1}, hdr...), 1)
		f = append(append(f, specChecksum(1, []byte("ec"))...), 0, 2, 'e', 'c')
		conn.Write(rawFrameBytes(0x03, id, f))
		conn.Write(rawFrameBytes(0x13, id, []byte{0, 1, 9, 9, 9, 9, 0, 2, 'h', 'o', 0, 0, 0, 0}))
	case 2:
		f := append(append([]byte{0}, hdr...), 0) // last fragment but only arg1 present
		f = append(f, 0, 4, 'e', 'c', 'h', 'o')
		conn.Write(rawFrameBytes(0x03, id, f))
	case 3:
		conn.Write(rawFrameBytes(0x03, id, first))
	}
	// barrier: a ping answered means the reader has handled the frames above
	writeRawFrame(conn, 0xd0, 9999, nil)
	for {
		f, err := readRawFrame(conn, time.Second)
		if err != nil || (f.Type == 0xd1 && f.ID == 9999) {
			break
		}
	}
	time.Sleep(450 * time.Millisecond) // past the 200 ms time-to-live
	verdict := ""
	deadline := time.Now().Add(1500 * time.Millisecond)
	count := -1
	for time.Now().Before(deadline) {
		count = 0
		st := srv.IntrospectState(&tchannel.IntrospectionOptions{IncludeExchanges: true, IncludeEmptyPeers: true})
		for _, p := range st.RootPeers {
			for _, c := range p.InboundConnections {
				count += c.InboundExchange.Count
			}
		}
		for _, c := range st.InactiveConnections {
			count += c.InboundExchange.Count
		}
		if count == 0 {
			break
		}
		time.Sleep(20 * time.Millisecond)
	}
	if count > 0 {
		verdict = fmt.Sprintf("%d inbound message exchange(s) still held 2 s after a malformed request (%s) whose time-to-live was 200 ms", count, key)
	}
	srv.Close()
	if verdict == "" {
		select {
		case <-srv.ClosedChan():
		case <-time.After(3 * time.Second):
			verdict = fmt.Sprintf("after a malformed request (%s) the channel cannot complete a graceful close while the peer stays connected (state %v)", key, srv.State())
		}
	}
	return verdict, key
}
