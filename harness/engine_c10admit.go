package main

// C10, strengthening V10 (part B): a call req that races with Close is declined ONCE.
//
// Extra scripted cases of engine respwire (called from engineRespWire), compared with
// Model/RespWire.v like the other scripted cases.  The schedule that has to be forced:
//
//	1. call A is in flight on the connection (its scripted handler has started and may have sent
//	   0..n fragments): the connection will DRAIN after Close instead of closing at once, so it can
//	   still send;
//	2. the call req of B is read while the connection is active (first state check of
//	   handleCallReq passes); its reader is parked at inbound.afterNewExchange (exchange registered);
//	3. Close lands (Connection.Close, or Channel.Close of the whole server);
//	4. the reader goes on: the re-check declines B (error frame "closed channel", mex.shutdown) and
//	   MUST return: no handler is dispatched for B;
//	5. A completes; the connection finishes draining.
//
// In every 4th case there is no call A: B's own registered exchange keeps the connection draining
// until the decline removes it (the error frame is queued BEFORE mex.shutdown closes the connection).
//
// B's method is one whose handler (or the library on its behalf) answers with a SYSTEM ERROR the
// moment it runs -- InboundCallResponse.SendSystemError only looks at response.err, so a handler
// dispatched for the declined call would get a second error frame on the wire: a handler calling
// SendSystemError, tchannel.ErrorHandlerFunc returning an error, raw.Wrap (handler error /
// Res.SystemErr), json.Register (SystemError), thrift.NewServer (handler error), a method nobody
// registered ("no handler for service/method"), and a handler that completes a normal response.
//
// Oracle from the statement: the frames of B's id are exactly ONE terminal frame (the decline) and
// nothing else; A's id: the frame grammar.  Model: RdCallReq1 B; RdCallReq2; CClose; RdCallReq3 --
// the call is PDead, no handler label exists for it (C10_declined_call_dead / _exactly_one_err).

import (
	"fmt"
	"math/rand"
	"strings"
	"time"

	tchannel "github.com/uber/tchannel-go"
	tjson "github.com/uber/tchannel-go/json"
	"github.com/uber/tchannel-go/raw"
	"github.com/uber/tchannel-go/thrift"
	xcontext "golang.org/x/net/context"
)

type c10AdmitTarget struct {
	name, method string
	arg2, arg3   []byte
}

var c10AdmitTargets = []c10AdmitTarget{
	{"handler:SendSystemError", "c10busy", []byte("a2"), []byte("q")},
	{"ErrorHandlerFunc:error", "c10efh", []byte("a2"), []byte("q")},
	{"raw.Wrap:handler-error", "c10raw", []byte{2, 0}, []byte("q")},
	{"raw.Wrap:Res.SystemErr", "c10raw", []byte{3, 0}, []byte("q")},
	{"json.Register:SystemError", "jsonv", nil, []byte(`{"mode":6}`)},
	{"thrift:handler-error", "Rh::herr", []byte{0, 0}, []byte{0}},
	{"no-handler-for-method", "c10nobody", []byte("a2"), []byte("q")},
	{"handler:complete-response", "c10ok", []byte("a2"), []byte("q")},
}

func c10AdmitServer() *tchannel.Channel {
	ch, err := tchannel.NewChannel("svc", nil)
	if err != nil {
		panic(err)
	}
	ch.Register(tchannel.HandlerFunc(scriptedHandler), "m")
	ch.Register(tchannel.HandlerFunc(func(ctx xcontext.Context, call *tchannel.InboundCall) {
		call.Response().SendSystemError(tchannel.ErrServerBusy)
	}), "c10busy")
	ch.Register(tchannel.ErrorHandlerFunc(func(ctx xcontext.Context, call *tchannel.InboundCall) error {
		return tchannel.NewSystemError(tchannel.ErrCodeBadRequest, "c10: refused by the handler")
	}), "c10efh")
	ch.Register(raw.Wrap(rhRaw{}), "c10raw")
	ch.Register(tchannel.HandlerFunc(func(ctx xcontext.Context, call *tchannel.InboundCall) {
		var a2, a3 []byte
		if tchannel.NewArgReader(call.Arg2Reader()).Read(&a2) != nil || tchannel.NewArgReader(call.Arg3Reader()).Read(&a3) != nil {
			return
		}
		resp := call.Response()
		if tchannel.NewArgWriter(resp.Arg2Writer()).Write([]byte("r2")) != nil {
			return
		}
		tchannel.NewArgWriter(resp.Arg3Writer()).Write([]byte("r3"))
	}), "c10ok")
	if err := tjson.Register(ch, tjson.Handlers{"jsonv": rhJSONValue}, func(xcontext.Context, error) {}); err != nil {
		panic(err)
	}
	thrift.NewServer(ch).Register(rhThriftServer{})
	if err := ch.ListenAndServe("127.0.0.1:0"); err != nil {
		panic(err)
	}
	return ch
}

// one case; the returned values are those of runModelCase
// withA = false: B is the ONLY exchange of the connection: its registered exchange keeps the
// connection draining after Close until the decline removes it -- the error frame must have been
// queued before (the order "SendSystemError, then mex.shutdown" of the re-check branch).
func c10AdmitRun(rng *rand.Rand, tg c10AdmitTarget, chanClose bool, stepsBefore int, withA bool) (in, obs []int64, verdict string, infeasible string, note string) {
	srv := c10AdmitServer()
	defer srv.Close()
	rw, err := dialRW(srv.PeerInfo().HostPort)
	if err != nil {
		return nil, nil, "", "dial: " + err.Error(), ""
	}
	defer rw.c.Close()
	m := &mcase{rng: rng, prop: false, calls: map[uint32]*mcall{}, reqCount: map[uint32]int{}, rw: rw}
	if !rw.barrier() {
		return nil, nil, "", "no ping response", ""
	}
	m.conn = tchannel.VerifFindConn(srv, rw.c.LocalAddr().String())
	if m.conn == nil {
		return nil, nil, "", "server connection not found", ""
	}
	idA := uint32(2 + rng.Intn(500))
	idB := idA + uint32(1+rng.Intn(5))
	// 1. call A in flight; its handler has started and performs stepsBefore API calls
	planA := completePlan(rng, pick(rng, 0, 1, 2), pick(rng, 0, 1, 2))
	if rng.Intn(3) == 0 {
		// ... or A itself ends with a system error after some fragments
		cut := 4 + rng.Intn(len(planA)-4)
		planA = append(append([]hcmd{}, planA[:cut]...), hcmd{op: opSysErr})
	}
	var a *mcall
	if withA {
		m.request(idA, 60000, pick(rng, 1, 1, 2), planA, false)
		if m.infeasible != "" {
			return nil, nil, "", m.infeasible, ""
		}
		if a = m.calls[idA]; a == nil {
			return nil, nil, "", "call A was not dispatched", ""
		}
		for i := 0; i < stepsBefore && a.pc < len(a.plan)-2 && m.infeasible == ""; i++ {
			m.stepCall(a)
		}
	} else {
		note = "B-is-the-only-exchange"
	}
	// 2. B's call req passes the first state check and registers its exchange
	s := NewSched()
	k := key("inbound.afterNewExchange", idB)
	s.ParkAtID("inbound.afterNewExchange", idB)
	m.order = append(m.order, idB)
	m.reqCount[idB]++
	if err := rw.sendCall(idB, 60000, "svc", tg.method, tg.arg2, tg.arg3, 1); err != nil {
		s.Close()
		return nil, nil, "", "write call req B: " + err.Error(), ""
	}
	if !s.WaitArrived(k, 1, 2*time.Second) {
		s.Close()
		return nil, nil, "", "reader did not reach inbound.afterNewExchange", ""
	}
	m.lab(1, int64(idB), 0)
	m.lab(2, 1, 0)
	// 3. Close lands
	if chanClose {
		srv.Close()
	} else {
		m.conn.Close()
	}
	m.lab(40, 0, 0)
	m.closing = true
	if st, _, _ := m.info(); st != 1 {
		note += fmt.Sprintf(" state-after-close=%d", st)
	}
	// 4. the re-check
	s.Release(k)
	m.lab(3, 0, 0)
	m.waitGone(idB)
	s.Close()
	// a handler that was (wrongly) dispatched for B answers within this pause
	m.sync()
	time.Sleep(5 * time.Millisecond)
	// 5. A completes
	for i := 0; a != nil && i < 200 && !a.ended && m.infeasible == ""; i++ {
		m.stepCall(a)
	}
	if a != nil && !a.ended {
		select {
		case a.sc.cmd <- hcmd{op: opEnd}:
			<-a.sc.res
		case <-time.After(200 * time.Millisecond):
		}
		a.ended = true
	}
	if m.infeasible != "" {
		return nil, nil, "", m.infeasible, note
	}
	m.sync()
	cst, stopped, inb := m.quiesce()
	m.rw.settle(8 * time.Millisecond)
	in = append([]int64{0, int64(m.nlabels)}, m.labels...)
	obs = []int64{int64(cst), b2i(stopped), int64(inb), int64(len(m.order))}
	var verdicts []string
	for _, id := range m.order {
		fs := rw.snapshot(id)
		obs = append(obs, int64(id), int64(len(fs)))
		for _, f := range fs {
			obs = append(obs, f.kind())
		}
		if c := m.calls[id]; c != nil {
			obs = append(obs, int64(len(c.rets)))
			obs = append(obs, c.rets...)
		} else {
			obs = append(obs, 0)
		}
		if v := wireVerdict(id, fs, false); v != "" {
			verdicts = append(verdicts, v)
		}
	}
	// the raced id: exactly one terminal frame, the decline, and nothing else
	fb := rw.snapshot(idB)
	if len(fb) != 1 || fb[0].typ != 0xff {
		why := fmt.Sprintf("while call %d was in flight (connection draining)", idA)
		if !withA {
			why = "with its own registered exchange keeping the connection draining"
		}
		verdicts = append(verdicts, fmt.Sprintf("c10admit (%s): call req id %d passed the first state check, Close landed before the re-check of handleCallReq %s: the call must be declined with exactly one error frame and never reach a handler; the caller received %v",
			tg.name, idB, why, fb))
	}
	verdicts = append(verdicts, m.verdicts...)
	for _, id := range rw.ids() {
		if m.reqCount[id] == 0 && id != 0xffffffff {
			verdicts = append(verdicts, fmt.Sprintf("frames %v for id %d which was never requested", rw.snapshot(id), id))
		}
	}
	return in, obs, strings.Join(verdicts, "; "), "", note
}

func c10AdmitCases(rng0 *rand.Rand, tier string, o *Out) {
	rng := rand.New(rand.NewSource(rng0.Int63()))
	rounds := 2
	if tier != "quick" {
		rounds = 10
	}
	k := 0
	infeasible := 0
	for r := 0; r < rounds; r++ {
		for _, tg := range c10AdmitTargets {
			in, obs, verdict, inf, note := c10AdmitRun(rng, tg, k%3 == 2, rng.Intn(6), k%4 != 1)
			id := fmt.Sprintf("c10a%d", k)
			k++
			if inf != "" {
				infeasible++
				o.Hist("script:c10admit:infeasible: " + inf)
				continue
			}
			o.Hist("script:c10admit:" + tg.name)
			if note != "" {
				o.Hist("script:c10admit:" + note)
			}
			o.Case("respwire", id, in, obs, true, verdict)
		}
	}
	if infeasible*4 > k+3 {
		o.Oracle("respwire-script", "c10admit-infeasible", false, "", fmt.Sprintf("harness: %d of %d close-vs-admission cases could not be forced", infeasible, k))
	}
}
