package main

// Second half of engine "errors" (property C20): what a raw TCP peer (spec-written codec of
// rawpeer.go) sees -- error frames sent by a real server's handler, and every error a real
// relay originates.

import (
	"bytes"
	"encoding/binary"
	"fmt"
	"math/rand"
	"net"
	"strings"
	"sync/atomic"
	"time"

	tchannel "github.com/uber/tchannel-go"
	"github.com/uber/tchannel-go/relay"
	"golang.org/x/net/context"
)

// rawClient is a raw TCP peer that initiated the connection.
type rawClient struct {
	conn net.Conn
	next uint32
}

func dialRaw(hostPort string) (*rawClient, error) {
	conn, err := net.DialTimeout("tcp", hostPort, 2*time.Second)
	if err != nil {
		return nil, err
	}
	if _, err := rawClientHandshake(conn); err != nil {
		conn.Close()
		return nil, err
	}
	return &rawClient{conn: conn, next: 10}, nil
}

// sendCall writes a single-frame (or, with moreFlag, a first-of-many) call req.
func (c *rawClient) sendCall(id uint32, ttlMs uint32, span [4]uint64, service string, moreFlag bool) error {
	hdr := rawCallReqHeader(ttlMs, spanBytes(span), service, [][2]string{{"as", "raw"}, {"cn", "rawclient"}})
	fr := buildRawCallFrames(true, id, hdr, 1, [3][]byte{[]byte("m"), []byte("a2"), []byte("a3")}, 65519)
	b := fr[0]
	if moreFlag {
		b[16] |= 0x01
	}
	c.conn.SetWriteDeadline(time.Now().Add(2 * time.Second))
	_, err := c.conn.Write(b)
	return err
}

// readError waits for the next error frame (skipping other frame types); nil on timeout / EOF.
func (c *rawClient) readError(wait time.Duration) *rawFrame {
	deadline := time.Now().Add(wait)
	for time.Now().Before(deadline) {
		f, err := readRawFrame(c.conn, time.Until(deadline))
		if err != nil {
			return nil
		}
		if f.Type == 0xff {
			return f
		}
	}
	return nil
}

// closedByPeer: true when the peer closes the connection within 150 ms (EOF / reset); a peer
// that keeps it open must still answer a ping.
func (c *rawClient) closedByPeer() bool {
	for i := 0; i < 8; i++ {
		f, err := readRawFrame(c.conn, 150*time.Millisecond)
		if err != nil {
			if ne, ok := err.(net.Error); ok && ne.Timeout() {
				break
			}
			return true
		}
		_ = f
	}
	if err := writeRawFrame(c.conn, 0xd0, 9999, nil); err != nil {
		return true
	}
	for i := 0; i < 5; i++ {
		f, err := readRawFrame(c.conn, 500*time.Millisecond)
		if err != nil {
			return true
		}
		if f.Type == 0xd1 {
			return false
		}
	}
	return false
}

// ---------------------------------------------------------------- handler's error on the wire

func c20SendWire(rng *rand.Rand, n int, o *Out) {
	srv := newC20Server("c20-wire-server")
	defer srv.ch.Close()
	rc, err := dialRaw(srv.ch.PeerInfo().HostPort)
	if err != nil {
		panic(err)
	}
	defer rc.conn.Close()
	for c := 0; c < n; c++ {
		var e c20Err
		switch {
		case c < 6:
			e = c20Err{kind: 1, code: pick(rng, 1, 3, 255, 0), msg: randBytes(rng, []int{0, 65490, 65491, 65492, 65535, 65536}[c])}
		case rng.Intn(5) == 0:
			e = c20Err{kind: 5, msg: c20Msg(rng, false)}
		default:
			e = c20Err{kind: 1, code: rng.Intn(256), msg: c20Msg(rng, true)}
		}
		id := rc.next
		rc.next++
		span := c20Span(rng)
		ins := &c20Instr{kind: 2, err: e.goErr(), started: make(chan struct{})}
		srv.set(ins)
		if err := rc.sendCall(id, 2000, span, "c20-wire-server", false); err != nil {
			panic(err)
		}
		select {
		case <-ins.started:
		case <-time.After(2 * time.Second):
		}
		var f *rawFrame
		if ins.sendRet == nil {
			f = rc.readError(time.Second)
		} else {
			f = rc.readError(30 * time.Millisecond)
		}
		// the server's default (no-op) tracer yields the empty span on the error frame
		zero := [4]uint64{}
		in := []int64{1, 1, int64(id), 0, 0, 0, 0, 0}
		in = append(in, e.enc()...)
		var obs []int64
		var wire []byte
		if f != nil {
			wire = rawFrameBytes(f.Type, f.ID, f.Payload)
			wire[3] = f.Res1
			copy(wire[8:16], f.Res8)
			obs = putBytes([]int64{0}, wire)
		} else if ins.sendRet != nil && strings.HasPrefix(ins.sendRet.Error(), "failed to create outbound error frame") {
			obs = []int64{1}
		} else {
			obs = []int64{9}
		}
		verdict := c20SendOracle(wire, ins.sendRet, id, zero, e, 1, 1)
		o.Hist("sendwire msglen " + lenBucket(len(e.msg)))
		o.Case("c20_send", fmt.Sprintf("w%d", c), in, obs, true, verdict)
	}

	// a call req reaching a real server that is closing (in-flight call keeps the connection
	// in start-close): the raw peer must see declined (0x04) for the new call's id.
	ins := &c20Instr{kind: 3, started: make(chan struct{}), release: make(chan struct{})}
	srv.set(ins)
	hold := rc.next
	rc.next++
	rc.sendCall(hold, 3000, [4]uint64{}, "c20-wire-server", false)
	select {
	case <-ins.started:
	case <-time.After(2 * time.Second):
	}
	srv.ch.Close()
	time.Sleep(10 * time.Millisecond)
	for c := 0; c < 4; c++ {
		id := rc.next
		rc.next++
		span := c20Span(rng)
		rc.sendCall(id, 1000, span, "c20-wire-server", false)
		f := rc.readError(time.Second)
		in := append([]int64{2, 1, int64(id)}, spanInts(span)...)
		obs := []int64{1, 9}
		verdict := "no error frame for a call req sent to a closing server"
		if f != nil {
			wire := rawFrameBytes(f.Type, f.ID, f.Payload)
			obs = putBytes([]int64{1, 0}, wire)
			code, tr, msg, ok := parseRawError(f.Payload)
			verdict = ""
			if !ok || f.ID != id || code != 0x04 || !bytes.Equal(tr, spanBytes(span)) {
				verdict = fmt.Sprintf("closing server answered call %d with id %d code %#x %q; the statement requires declined (0x04)", id, f.ID, code, msg)
			}
		}
		o.Hist("closing real-server")
		o.Case("c20_closing", fmt.Sprintf("kw%d", c), in, obs, true, verdict)
	}
	close(ins.release)

	// a real (non-relay) server receiving a second call req with an id that is still active:
	// protocol error frame (0xff) for that id, then the connection is closed
	srv2 := newC20Server("c20-wire-server2")
	defer srv2.ch.Close()
	rc2, err := dialRaw(srv2.ch.PeerInfo().HostPort)
	if err == nil {
		ins2 := &c20Instr{kind: 3, started: make(chan struct{}), release: make(chan struct{})}
		srv2.set(ins2)
		rc2.sendCall(77, 2000, [4]uint64{}, "c20-wire-server2", false)
		select {
		case <-ins2.started:
		case <-time.After(2 * time.Second):
		}
		rc2.sendCall(77, 2000, [4]uint64{}, "c20-wire-server2", false)
		f := rc2.readError(time.Second)
		verdict := ""
		if f == nil {
			verdict = "duplicate call req id: no protocol error frame"
		} else if code, _, _, ok := parseRawError(f.Payload); !ok || code != 0xff || f.ID != 77 {
			verdict = fmt.Sprintf("duplicate call req id answered with code %#x for id %d, want protocol error 0xff for id 77", code, f.ID)
		} else if !rc2.closedByPeer() {
			verdict = "connection still open after the server reported a protocol error"
		}
		close(ins2.release)
		rc2.conn.Close()
		o.Hist("protoerr real-server duplicate-id")
		o.Oracle("c20_protoerr", "dup-wire", true, "dup-wire", verdict)
	}
}

// ---------------------------------------------------------------- relay-originated errors

// stallConn blocks Write while stalled (a destination that stopped reading).
type stallConn struct {
	net.Conn
	stalled *atomic.Bool
	gate    chan struct{}
}

func (s *stallConn) Write(b []byte) (int, error) {
	if s.stalled.Load() {
		<-s.gate
	}
	return s.Conn.Write(b)
}

type relayObs struct {
	frame  *rawFrame
	closed bool
}

// encodes what the raw client saw in the model's put_relay_res encoding
func (r relayObs) enc() []int64 {
	if r.frame == nil {
		return []int64{0}
	}
	code, _, msg, ok := parseRawError(r.frame.Payload)
	if !ok {
		return []int64{-2}
	}
	return putBytes([]int64{1, b2i(r.closed), int64(code)}, []byte(msg))
}

func (r relayObs) code() int {
	if r.frame == nil {
		return -1
	}
	c, _, _, ok := parseRawError(r.frame.Payload)
	if !ok {
		return -2
	}
	return int(c)
}

func (r relayObs) msg() string {
	if r.frame == nil {
		return ""
	}
	_, _, m, _ := parseRawError(r.frame.Payload)
	return m
}

func refusedAddr() (string, string) {
	ln, err := net.Listen("tcp", "127.0.0.1:0")
	if err != nil {
		panic(err)
	}
	a := ln.Addr().String()
	ln.Close()
	_, derr := net.DialTimeout("tcp", a, time.Second)
	txt := ""
	if derr != nil {
		txt = derr.Error()
	}
	return a, txt
}

func c20RelayOrigin(rng *rand.Rand, tier string, o *Out) {
	caseNo := 0
	emit := func(name string, in []int64, ob relayObs, wantCode int, wantPrefix string, span [4]uint64, id uint32) {
		verdict := ""
		got := ob.code()
		switch {
		case wantCode == -1 && got != -1:
			verdict = fmt.Sprintf("%s: the relay sent an error frame (code %#x) where the documentation says it sends none", name, got)
		case wantCode >= 0 && got == -1:
			verdict = fmt.Sprintf("%s: the relay sent no error frame, documented code %#x", name, wantCode)
		case wantCode >= 0 && got != wantCode:
			verdict = fmt.Sprintf("%s: relay-originated error carries code %#x, documented code is %#x (message %q)", name, got, wantCode, clip(ob.msg()))
			if name == "remote-inactive" {
				verdict = "[c20:relay-remote-inactive-code] " + verdict
			}
		case wantCode >= 0 && !strings.HasPrefix(ob.msg(), wantPrefix):
			verdict = fmt.Sprintf("%s: message %q does not start with %q", name, clip(ob.msg()), wantPrefix)
		case wantCode >= 0 && ob.frame.ID != id:
			verdict = fmt.Sprintf("%s: error frame for id %d, the call had id %d", name, ob.frame.ID, id)
		}
		if verdict == "" && wantCode >= 0 {
			if _, tr, _, _ := parseRawError(ob.frame.Payload); !bytes.Equal(tr, spanBytes(span)) {
				verdict = name + ": relay-originated error frame does not carry the call's tracing span"
			}
		}
		o.Hist("relay-origin " + name)
		if caseNo == 2 {
			o.Sample(map[string]interface{}{"sub": "c20_relay", "site": name, "code": got, "msg": clip(ob.msg())})
		}
		o.Case("c20_relay", fmt.Sprintf("y%d-%s", caseNo, name), in, ob.enc(), true, verdict)
		caseNo++
	}
	handleIn := func(local, frag bool, start c20Err, rl bool, src int, dup, hasDest bool, connect c20Err, remote int) []int64 {
		in := []int64{0, b2i(local), b2i(frag)}
		in = append(in, start.enc()...)
		in = append(in, b2i(rl), int64(src), b2i(dup), b2i(hasDest))
		in = append(in, connect.enc()...)
		return append(in, int64(remote))
	}
	none := c20Err{}

	// --- RelayHost.Start errors, no destination, connection failures: one relay, one raw client
	{
		srv := newC20Server("c20-rsrv")
		host := &c20Host{}
		rl := newC20Relay("c20-relay-o", host, &tchannel.ChannelOptions{RelayLocalHandlers: []string{"c20-local"}})
		type sc struct {
			name      string
			start     c20Err
			ratelimit bool
			dest      int // 0 server, 1 none, 2 refused port
		}
		var scs []sc
		for _, code := range []int{0, 1, 2, 3, 4, 5, 6, 7, 0x80, 0xfe, 0xff} {
			scs = append(scs, sc{name: "start-system", start: c20Err{kind: 1, code: code, msg: "start says no " + randBytes(rng, rng.Intn(8))}})
		}
		scs = append(scs, sc{name: "start-other", start: c20Err{kind: 5, msg: "unknown service"}},
			sc{name: "start-other", start: c20Err{kind: 5, msg: "lookup failed", net: 1}},
			sc{name: "start-ratelimit", ratelimit: true},
			sc{name: "bad-host", dest: 1}, sc{name: "bad-host", dest: 1},
			sc{name: "connect-refused", dest: 2}, sc{name: "connect-refused", dest: 2})
		for _, s := range scs {
			rc, err := dialRaw(rl.PeerInfo().HostPort)
			if err != nil {
				panic(err)
			}
			var startErr error
			if s.ratelimit {
				startErr = relay.RateLimitDropError{}
			} else {
				startErr = s.start.goErr()
			}
			connect := none
			switch s.dest {
			case 0:
				host.set(srv.ch.PeerInfo().HostPort, startErr)
			case 1:
				host.set("", startErr)
			case 2:
				addr, txt := refusedAddr()
				host.set(addr, startErr)
				connect = c20Err{kind: 5, msg: txt, net: 1}
			}
			srv.set(&c20Instr{kind: 0, arg2: []byte("r2"), arg3: []byte("r3")})
			id, span := rc.next, c20Span(rng)
			rc.sendCall(id, 1000, span, "c20-rsrv", false)
			wait := time.Second
			if s.ratelimit {
				wait = 60 * time.Millisecond
			}
			ob := relayObs{frame: rc.readError(wait)}
			ob.closed = rc.closedByPeer()
			startModel := s.start
			if s.ratelimit {
				startModel = c20Err{kind: 5, msg: "frame dropped silently due to rate limiting"}
			}
			in := handleIn(false, false, startModel, s.ratelimit, 1, false, s.dest != 1, connect, 1)
			want, prefix := -1, ""
			switch {
			case s.ratelimit:
			case s.start.kind == 1:
				want, prefix = s.start.code, s.start.msg
			case s.start.kind == 5:
				want, prefix = 4, s.start.msg
			case s.dest == 1:
				want = 4
			case s.dest == 2:
				want = 7
			}
			emit(s.name, in, ob, want, prefix, span, id)
			if verdictClose := (want == 0xff) != ob.closed; verdictClose && want >= 0 {
				o.Oracle("c20_relay", fmt.Sprintf("y%d-close", caseNo), false, s.name, fmt.Sprintf("%s code %#x: relay closed the connection = %v (only a protocol error from the relay host closes it)", s.name, want, ob.closed))
			}
			rc.conn.Close()
		}

		// fragmented call to a service the relay channel handles itself: bad request
		for i := 0; i < 2; i++ {
			rc, err := dialRaw(rl.PeerInfo().HostPort)
			if err != nil {
				panic(err)
			}
			host.set(srv.ch.PeerInfo().HostPort, nil)
			id, span := rc.next, c20Span(rng)
			rc.sendCall(id, 1000, span, "c20-local", true)
			ob := relayObs{frame: rc.readError(time.Second)}
			ob.closed = rc.closedByPeer()
			emit("local-fragmented", handleIn(true, true, none, false, 1, false, true, none, 1), ob, 6, "", span, id)
			rc.conn.Close()
		}
		rl.Close()
		srv.ch.Close()
	}

	// --- timeout of a relayed call: the relay's timer answers the caller with timeout (0x01)
	for i := 0; i < 2; i++ {
		srv := newC20Server("c20-rsrv")
		host := &c20Host{}
		host.set(srv.ch.PeerInfo().HostPort, nil)
		rl := newC20Relay("c20-relay-t", host, nil)
		rc, err := dialRaw(rl.PeerInfo().HostPort)
		if err != nil {
			panic(err)
		}
		ins := &c20Instr{kind: 3, started: make(chan struct{}), release: make(chan struct{})}
		srv.set(ins)
		id, span := rc.next, c20Span(rng)
		rc.sendCall(id, uint32(40+20*i), span, "c20-rsrv", false)
		ob := relayObs{frame: rc.readError(time.Second)}
		ob.closed = rc.closedByPeer()
		emit("timeout", []int64{1, 1, 1}, ob, 1, "timeout", span, id)
		// the handler answers after the relay gave up: its error frame meets entombed relay
		// items and must not reach the caller (model: a hop whose item is a tomb forwards nothing)
		close(ins.release)
		late := rc.readError(100 * time.Millisecond)
		lin := c20Err{kind: 1, code: 3, msg: "server busy"}.enc()
		lin = append(lin, 5, 0, 0, 0, 0, 6, 1, 1, 2, 1, 0, 1)
		lobs := []int64{8}
		lverdict := ""
		if late != nil {
			code, _, msg, _ := parseRawError(late.Payload)
			lobs = putBytes([]int64{0, 0, 1, int64(code)}, []byte(msg))
			lverdict = fmt.Sprintf("after the relay answered call %d with timeout a second error frame (code %#x) reached the caller", id, code)
		}
		o.Hist("relay late-error-after-timeout")
		o.Case("c20_e2e_err", fmt.Sprintf("tomb%d", i), lin, lobs, true, lverdict)
		rc.conn.Close()
		rl.Close()
		srv.ch.Close()
	}

	// --- duplicate id while the first call is in flight: no error frame (code has a TODO)
	// --- and: relay's connection to the caller not active any more (relay channel closing)
	{
		srv := newC20Server("c20-rsrv")
		host := &c20Host{}
		host.set(srv.ch.PeerInfo().HostPort, nil)
		rl := newC20Relay("c20-relay-s", host, nil)
		rc, err := dialRaw(rl.PeerInfo().HostPort)
		if err != nil {
			panic(err)
		}
		ins := &c20Instr{kind: 3, started: make(chan struct{}), release: make(chan struct{})}
		srv.set(ins)
		hold := rc.next
		rc.next++
		rc.sendCall(hold, 3000, [4]uint64{}, "c20-rsrv", false)
		select {
		case <-ins.started:
		case <-time.After(2 * time.Second):
		}
		rc.sendCall(hold, 3000, [4]uint64{}, "c20-rsrv", false)
		ob := relayObs{frame: rc.readError(80 * time.Millisecond)}
		emit("duplicate-id", handleIn(false, false, none, false, 1, true, true, none, 1), ob, -1, "", [4]uint64{}, hold)

		rl.Close() // the connection to the raw client enters start-close (a relayed call is pending)
		time.Sleep(15 * time.Millisecond)
		for i := 0; i < 2; i++ {
			id, span := rc.next, c20Span(rng)
			rc.next++
			rc.sendCall(id, 1000, span, "c20-rsrv", false)
			ob := relayObs{frame: rc.readError(time.Second)}
			emit("source-inactive", handleIn(false, false, none, false, 2, false, true, none, 1), ob, 4, "incoming connection is not active", span, id)
		}
		close(ins.release)
		rc.conn.Close()
		srv.ch.Close()
	}

	// --- selected remote connection not active: the freshly connected outbound connection is
	//     closed (public API, from the peer-status callback) before the relay uses it
	for i := 0; i < 2; i++ {
		srv := newC20Server("c20-rsrv")
		host := &c20Host{}
		host.set(srv.ch.PeerInfo().HostPort, nil)
		var fired atomic.Bool // (a sync.Once would deadlock: Close re-enters the callback)
		remoteState := int64(0)
		opts := &tchannel.ChannelOptions{OnPeerStatusChanged: func(p *tchannel.Peer) {
			if p.HostPort() != srv.ch.PeerInfo().HostPort {
				return
			}
			if !fired.CompareAndSwap(false, true) {
				return
			}
			ctx, cancel := context.WithTimeout(context.Background(), time.Second)
			defer cancel()
			if conn, err := p.GetConnection(ctx); err == nil {
				conn.Close()
				remoteState = int64(tchannel.VerifC20ConnState(conn))
			}
		}}
		rl := newC20Relay("c20-relay-r", host, opts)
		rc, err := dialRaw(rl.PeerInfo().HostPort)
		if err != nil {
			panic(err)
		}
		srv.set(&c20Instr{kind: 0})
		id, span := rc.next, c20Span(rng)
		rc.sendCall(id, 1000, span, "c20-rsrv", false)
		ob := relayObs{frame: rc.readError(time.Second)}
		ob.closed = rc.closedByPeer()
		emit("remote-inactive", handleIn(false, false, none, false, 1, false, true, none, int(remoteState)), ob, 4, "selected remote connection is not active", span, id)
		rc.conn.Close()
		rl.Close()
		srv.ch.Close()
	}

	// --- destination connection slow: its send queue (1 slot) is full behind a stalled write
	for i := 0; i < 2; i++ {
		srv := newC20Server("c20-rsrv")
		host := &c20Host{}
		host.set(srv.ch.PeerInfo().HostPort, nil)
		stalled := &atomic.Bool{}
		gate := make(chan struct{})
		opts := &tchannel.ChannelOptions{
			DefaultConnectionOptions: tchannel.ConnectionOptions{SendBufferSize: 1},
			Dialer: func(ctx context.Context, network, hostPort string) (net.Conn, error) {
				d := net.Dialer{}
				c, err := d.DialContext(ctx, network, hostPort)
				if err != nil {
					return nil, err
				}
				return &stallConn{Conn: c, stalled: stalled, gate: gate}, nil
			},
		}
		rl := newC20Relay("c20-relay-d", host, opts)
		rc, err := dialRaw(rl.PeerInfo().HostPort)
		if err != nil {
			panic(err)
		}
		// first call establishes the relay -> server connection and completes
		srv.set(&c20Instr{kind: 0, arg2: []byte("x"), arg3: []byte("y")})
		rc.sendCall(rc.next, 1000, [4]uint64{}, "c20-rsrv", false)
		rc.next++
		readRawFrame(rc.conn, time.Second)
		stalled.Store(true)
		var ob relayObs
		var spans = map[uint32][4]uint64{}
		for k := 0; k < 6 && ob.frame == nil; k++ {
			id, span := rc.next, c20Span(rng)
			rc.next++
			spans[id] = span
			rc.sendCall(id, 2000, span, "c20-rsrv", false)
			ob.frame = rc.readError(40 * time.Millisecond)
		}
		stalled.Store(false)
		close(gate)
		in := []int64{2, 1, 1, 1, 1}
		in = putBytes(in, []byte("relay-dest-conn-slow"))
		in = append(in, c20Err{kind: 1, code: 7, msg: "frame was not sent to remote side"}.enc()...)
		fid := uint32(0)
		if ob.frame != nil {
			fid = ob.frame.ID
		}
		emit("dest-conn-slow", in, ob, 5, "relay-dest-conn-slow", spans[fid], fid)
		rc.conn.Close()
		rl.Close()
		srv.ch.Close()
	}
	_ = binary.BigEndian
}
