package main

// Engine "connfail" (property C14, clause d: "a handler's context is cancelled when ... its
// connection fails"), every KIND of connection failure while handlers run on the connection
// and calls wait on it:
//
//	dup        the raw peer re-uses the id of a call that is still active  -> Connection.protocolError
//	           (then keeps the socket open, or closes it: a connectionError follows)
//	kind 0     the raw peer closes the socket                              -> connectionError (read)
//	kind 1     the raw peer sends an error frame with code "protocol error"-> connectionError
//	kind 2     the raw peer sends an error frame that cannot be parsed     -> connectionError
//	kind 3     the channel's own write fails (wrapped net.Conn, provoked by a ping) -> connectionError (write)
//	kind 4     the raw peer sends a frame header with an impossible size   -> connectionError (read)
//
// One real channel A with a handler that reads its arguments and then waits for ctx.Done() (or
// for the order to complete its response), one raw peer R; either R dials A (topology 0) or A
// dials R (topology 1; A then also has outbound calls waiting on the same connection).
// Script events (the input of Model/ConnFail.v run_connfail after the two harness-only
// numbers topology, kind):  0 id  call req with message id 100+id (an id still active = dup)
// | 1 id  A begins an outbound call (never answered) | 2  the failure of the case's kind (after a
// first failure: R closes the socket) | 5 id  wait until the (short) deadline of handler id passed
// | 6 id  handler id completes its response.
// Observation after the script, with a generous bound: per dispatched handler the state of its
// context (0 live, 1 DeadlineExceeded, 2 Canceled), the outbound calls that ended, those still
// waiting -- compared with the model; the oracle below is written from the statement.

import (
	"fmt"
	"math/rand"
	"net"
	"sync"
	"sync/atomic"
	"time"

	tchannel "github.com/uber/tchannel-go"
	"golang.org/x/net/context"
)

func init() { engines["connfail"] = engineConnFail }

type cfEvent struct{ code, id int }

type cfCase struct {
	topo, kind int
	events     []cfEvent
}

func (c *cfCase) encode() []int64 {
	in := []int64{int64(c.topo), int64(c.kind), int64(len(c.events))}
	for _, e := range c.events {
		switch e.code {
		case 2:
			in = append(in, 2)
		default:
			in = append(in, int64(e.code), int64(e.id))
		}
	}
	return in
}

var cfKindNames = []string{"socket closed by the peer", "protocol error frame from the peer", "unparsable error frame from the peer", "write failure", "impossible frame size from the peer"}

func (c *cfCase) String() string {
	s := fmt.Sprintf("topology=%d kind=%d:", c.topo, c.kind)
	for _, e := range c.events {
		switch e.code {
		case 0:
			s += fmt.Sprintf(" callreq(%d)", e.id)
		case 1:
			s += fmt.Sprintf(" outcall(%d)", e.id)
		case 2:
			s += " FAIL"
		case 5:
			s += fmt.Sprintf(" deadline(%d)", e.id)
		case 6:
			s += fmt.Sprintf(" complete(%d)", e.id)
		}
	}
	return s
}

// ---- a net.Conn whose writes can be made to fail ----
type cfConn struct {
	net.Conn
	fail *int32
}

func (c *cfConn) Write(b []byte) (int, error) {
	if atomic.LoadInt32(c.fail) != 0 {
		return 0, fmt.Errorf("verif: write failure injected")
	}
	return c.Conn.Write(b)
}

type cfListener struct {
	net.Listener
	fail *int32
}

func (l *cfListener) Accept() (net.Conn, error) {
	c, err := l.Listener.Accept()
	if err != nil {
		return nil, err
	}
	return &cfConn{Conn: c, fail: l.fail}, nil
}

// ---- the handler ----
type cfRun struct {
	id       int
	started  chan struct{}
	complete chan struct{}
	done     chan struct{}
	ctx      context.Context
}

type cfHandler struct {
	mu    sync.Mutex
	runs  map[string]*cfRun
	rogue int32
}

func (h *cfHandler) Handle(ctx context.Context, call *tchannel.InboundCall) {
	var a2, a3 []byte
	if err := tchannel.NewArgReader(call.Arg2Reader()).Read(&a2); err != nil {
		return
	}
	if err := tchannel.NewArgReader(call.Arg3Reader()).Read(&a3); err != nil {
		return
	}
	h.mu.Lock()
	r := h.runs[string(a3)]
	h.mu.Unlock()
	if r == nil {
		atomic.AddInt32(&h.rogue, 1)
		return
	}
	r.ctx = ctx
	close(r.started)
	defer close(r.done)
	select {
	case <-ctx.Done():
	case <-r.complete:
		resp := call.Response()
		if err := tchannel.NewArgWriter(resp.Arg2Writer()).Write([]byte("r2")); err != nil {
			return
		}
		tchannel.NewArgWriter(resp.Arg3Writer()).Write([]byte("r3"))
	}
}

// ---- the raw peer ----
type cfPeer struct {
	conn     net.Conn
	mu       sync.Mutex
	callReqs int // call req frames received from A
	eof      bool
}

func (p *cfPeer) readLoop() {
	for {
		f, err := readRawFrame(p.conn, 60*time.Second)
		if err != nil {
			p.mu.Lock()
			p.eof = true
			p.mu.Unlock()
			return
		}
		if f.Type == 0x03 {
			p.mu.Lock()
			p.callReqs++
			p.mu.Unlock()
		}
	}
}

func (p *cfPeer) seenCallReqs() int {
	p.mu.Lock()
	defer p.mu.Unlock()
	return p.callReqs
}

func cfCallReq(id uint32, ttlMs uint32, token string) []byte {
	hdr := rawCallReqHeader(ttlMs, make([]byte, 25), "cfA", [][2]string{{"as", "raw"}, {"cn", "verif"}})
	return buildRawCallFrames(true, id, hdr, 0, [3][]byte{[]byte("blk"), {}, []byte(token)}, 65519)[0]
}

type cfOutcome struct {
	obs        []int64
	verdict    string
	harnessErr string
	started    int
}

func runConnFailCase(c *cfCase) (out cfOutcome) {
	var failWrites int32
	h := &cfHandler{runs: map[string]*cfRun{}}
	opts := &tchannel.ChannelOptions{}
	var rawLn net.Listener
	accepted := make(chan net.Conn, 4)
	if c.topo == 1 {
		ln, err := net.Listen("tcp", "127.0.0.1:0")
		if err != nil {
			out.harnessErr = err.Error()
			return
		}
		rawLn = ln
		defer ln.Close()
		go func() {
			for {
				conn, err := ln.Accept()
				if err != nil {
					return
				}
				accepted <- conn
			}
		}()
		opts.Dialer = func(ctx context.Context, network, hostPort string) (net.Conn, error) {
			var nd net.Dialer
			conn, err := nd.DialContext(ctx, network, hostPort)
			if err != nil {
				return nil, err
			}
			return &cfConn{Conn: conn, fail: &failWrites}, nil
		}
	}
	A, err := tchannel.NewChannel("cfA", opts)
	if err != nil {
		out.harnessErr = err.Error()
		return
	}
	defer A.Close()
	A.Register(h, "blk")
	peer := &cfPeer{}
	if c.topo == 0 {
		ln, err := net.Listen("tcp", "127.0.0.1:0")
		if err != nil {
			out.harnessErr = err.Error()
			return
		}
		if err := A.Serve(&cfListener{Listener: ln, fail: &failWrites}); err != nil {
			out.harnessErr = err.Error()
			return
		}
		conn, err := net.Dial("tcp", ln.Addr().String())
		if err != nil {
			out.harnessErr = err.Error()
			return
		}
		if _, err := rawClientHandshake(conn); err != nil {
			conn.Close()
			out.harnessErr = "handshake: " + err.Error()
			return
		}
		peer.conn = conn
	} else {
		if err := A.ListenAndServe("127.0.0.1:0"); err != nil {
			out.harnessErr = err.Error()
			return
		}
		cerrCh := make(chan error, 1)
		go func() {
			ctx, cancel := tchannel.NewContext(5 * time.Second)
			defer cancel()
			_, err := A.RootPeers().GetOrAdd(rawLn.Addr().String()).GetConnection(ctx)
			cerrCh <- err
		}()
		select {
		case conn := <-accepted:
			if _, _, err := rawServerHandshake(conn); err != nil {
				conn.Close()
				out.harnessErr = "handshake: " + err.Error()
				return
			}
			peer.conn = conn
		case <-time.After(5 * time.Second):
			out.harnessErr = "the channel did not dial the raw peer"
			return
		}
		if err := <-cerrCh; err != nil {
			out.harnessErr = "connect: " + err.Error()
			return
		}
	}
	defer peer.conn.Close()
	go peer.readLoop()

	type outCall struct {
		id   int
		done chan error
	}
	var (
		runs       []*cfRun // dispatched handlers in order
		live       = map[int]*cfRun{}
		outs       []*outCall
		failedAt   time.Time
		failedHow  string
		atFailure  = map[int]bool{} // handlers running (context live) when the first failure happened
		outAtFail  = map[int]bool{}
		deadlined  = map[int]bool{}
		sendTimes  = map[int]time.Time{}
		peerClosed bool
		nTok       int
		lateTokens []*cfRun
	)
	newRun := func(id int) (*cfRun, string) {
		nTok++
		tok := fmt.Sprintf("h%d-%d", id, nTok)
		r := &cfRun{id: id, started: make(chan struct{}), complete: make(chan struct{}), done: make(chan struct{})}
		h.mu.Lock()
		h.runs[tok] = r
		h.mu.Unlock()
		return r, tok
	}
	noteFailure := func(how string) {
		if failedAt.IsZero() {
			failedAt = time.Now()
			failedHow = how
			for id, r := range live {
				select {
				case <-r.ctx.Done():
				default:
					atFailure[id] = true
				}
			}
			for _, oc := range outs {
				select {
				case err := <-oc.done:
					oc.done <- err
				default:
					outAtFail[oc.id] = true
				}
			}
		}
	}
	for _, e := range c.events {
		switch e.code {
		case 0:
			if r, ok := live[e.id]; ok {
				// the id is still active: a duplicate, which must never reach a handler
				_ = r
				dup, tok := newRun(e.id)
				lateTokens = append(lateTokens, dup)
				if failedAt.IsZero() {
					noteFailure("a call req re-using the id of an active call (protocol error detected by this side)")
				}
				if !peerClosed {
					peer.conn.SetWriteDeadline(time.Now().Add(2 * time.Second))
					peer.conn.Write(cfCallReq(uint32(100+e.id), 30000, tok))
				}
				time.Sleep(60 * time.Millisecond)
				continue
			}
			r, tok := newRun(e.id)
			ttl := uint32(30000)
			for _, e2 := range c.events {
				if e2.code == 5 && e2.id == e.id {
					ttl = 200
				}
			}
			if !peerClosed {
				peer.conn.SetWriteDeadline(time.Now().Add(2 * time.Second))
				peer.conn.Write(cfCallReq(uint32(100+e.id), ttl, tok))
			}
			sendTimes[e.id] = time.Now()
			if !failedAt.IsZero() {
				// a call req on a failed connection: must not be dispatched
				lateTokens = append(lateTokens, r)
				time.Sleep(60 * time.Millisecond)
				continue
			}
			select {
			case <-r.started:
				runs = append(runs, r)
				live[e.id] = r
			case <-time.After(3 * time.Second):
				out.harnessErr = "handler not dispatched within 3s"
				return
			}
		case 1:
			before := peer.seenCallReqs()
			oc := &outCall{id: e.id, done: make(chan error, 2)}
			outs = append(outs, oc)
			go func() {
				ctx, cancel := tchannel.NewContext(30 * time.Second)
				defer cancel()
				call, err := A.BeginCall(ctx, rawLn.Addr().String(), "rawsvc", "m", nil)
				if err != nil {
					oc.done <- err
					return
				}
				if err := tchannel.NewArgWriter(call.Arg2Writer()).Write([]byte("a2")); err != nil {
					oc.done <- err
					return
				}
				if err := tchannel.NewArgWriter(call.Arg3Writer()).Write([]byte("a3")); err != nil {
					oc.done <- err
					return
				}
				var r2 []byte
				err = tchannel.NewArgReader(call.Response().Arg2Reader()).Read(&r2)
				if err == nil {
					err = fmt.Errorf("verif: a call nobody answers returned a response")
				}
				oc.done <- err
			}()
			deadline := time.Now().Add(3 * time.Second)
			for peer.seenCallReqs() == before {
				if time.Now().After(deadline) {
					out.harnessErr = "outbound call req not seen by the raw peer within 3s"
					return
				}
				time.Sleep(2 * time.Millisecond)
			}
		case 2:
			if !failedAt.IsZero() || c.kind == 0 {
				noteFailure(cfKindNames[0])
				peer.conn.Close()
				peerClosed = true
			} else {
				noteFailure(cfKindNames[c.kind])
				peer.conn.SetWriteDeadline(time.Now().Add(2 * time.Second))
				switch c.kind {
				case 1:
					peer.conn.Write(rawFrameBytes(0xff, 0xffffffff, rawErrorPayload(0xff, make([]byte, 25), "verif: you violated the protocol")))
				case 2:
					peer.conn.Write(rawFrameBytes(0xff, 0xffffffff, []byte{0x03}))
				case 3:
					atomic.StoreInt32(&failWrites, 1)
					peer.conn.Write(rawFrameBytes(0xd0, 999, nil))
				case 4:
					hdr := make([]byte, 16)
					hdr[1] = 5 // size 5 < 16
					hdr[2] = 0x03
					peer.conn.Write(hdr)
				}
			}
			time.Sleep(60 * time.Millisecond)
		case 5:
			r := live[e.id]
			if r == nil {
				continue
			}
			if d := time.Until(sendTimes[e.id].Add(260 * time.Millisecond)); d > 0 {
				time.Sleep(d)
			}
			if failedAt.IsZero() {
				deadlined[e.id] = true
			}
			delete(live, e.id) // never re-used
		case 6:
			r := live[e.id]
			if r == nil {
				continue
			}
			select {
			case <-r.ctx.Done():
				// its context is gone already (failure): the order comes too late
			default:
			}
			close(r.complete)
			select {
			case <-r.done:
			case <-time.After(3 * time.Second):
				out.harnessErr = "handler did not complete within 3s"
				return
			}
			delete(live, e.id)
			time.Sleep(20 * time.Millisecond)
		}
	}
	// ---- observation ----
	bound := 300 * time.Millisecond
	if !failedAt.IsZero() {
		bound = 2 * time.Second
	}
	until := time.Now().Add(bound)
	out.started = len(runs)
	obs := []int64{int64(len(runs))}
	for _, r := range runs {
		code := int64(0)
		select {
		case <-r.ctx.Done():
		case <-time.After(time.Until(until)):
		}
		select {
		case <-r.ctx.Done():
			if r.ctx.Err() == context.DeadlineExceeded {
				code = 1
			} else {
				code = 2
			}
		default:
		}
		obs = append(obs, int64(r.id), code)
		if out.verdict == "" && atFailure[r.id] {
			switch {
			case code == 0:
				out.verdict = fmt.Sprintf("the context of the handler of call %d is still live %v after its connection failed (%s)", r.id, time.Since(failedAt).Round(10*time.Millisecond), failedHow)
			case code == 1 && !deadlined[r.id]:
				out.verdict = fmt.Sprintf("the context of the handler of call %d (ttl 30s) reports DeadlineExceeded after its connection failed (%s)", r.id, failedHow)
			}
		}
	}
	var fin []int64
	pending := 0
	for _, oc := range outs {
		ended := false
		select {
		case <-oc.done:
			ended = true
		default:
			select {
			case <-oc.done:
				ended = true
			case <-time.After(time.Until(until)):
			}
		}
		if ended {
			fin = append(fin, int64(oc.id), 1)
		} else {
			pending++
			if out.verdict == "" && outAtFail[oc.id] {
				out.verdict = fmt.Sprintf("outbound call %d is still waiting %v after its connection failed (%s)", oc.id, time.Since(failedAt).Round(10*time.Millisecond), failedHow)
			}
		}
	}
	obs = append(obs, int64(len(fin)/2))
	obs = append(obs, fin...)
	obs = append(obs, int64(pending))
	for _, r := range lateTokens {
		select {
		case <-r.started:
			if out.verdict == "" {
				out.verdict = fmt.Sprintf("a call req (id %d) that re-used an active id or arrived after the connection had failed was dispatched to a handler", 100+r.id)
			}
		default:
		}
	}
	if n := atomic.LoadInt32(&h.rogue); n != 0 && out.verdict == "" {
		out.verdict = fmt.Sprintf("%d handler invocation(s) for call reqs that must not be dispatched (duplicate id)", n)
	}
	out.obs = obs
	// release the handlers that are still blocked
	for _, r := range runs {
		select {
		case <-r.complete:
		default:
			close(r.complete)
		}
	}
	return
}

func genConnFailCase(rng *rand.Rand) *cfCase {
	c := &cfCase{topo: rng.Intn(2), kind: rng.Intn(5)}
	nH := pick(rng, 1, 2, 2, 3)
	var ev []cfEvent
	for i := 1; i <= nH; i++ {
		ev = append(ev, cfEvent{0, i})
	}
	liveIDs := []int{}
	for i := 1; i <= nH; i++ {
		liveIDs = append(liveIDs, i)
	}
	if c.topo == 1 {
		for k := 0; k < pick(rng, 0, 1, 1, 2); k++ {
			pos := rng.Intn(len(ev) + 1)
			ev = append(ev[:pos], append([]cfEvent{{1, k + 1}}, ev[pos:]...)...)
		}
	}
	// one handler may have ended before the failure
	if nH >= 2 {
		switch rng.Intn(4) {
		case 0:
			ev = append(ev, cfEvent{6, liveIDs[0]})
			liveIDs = liveIDs[1:]
		case 1:
			ev = append(ev, cfEvent{5, liveIDs[0]})
			liveIDs = liveIDs[1:]
		}
	}
	switch rng.Intn(8) {
	case 0, 1, 2: // duplicate id, then the peer closes or not
		ev = append(ev, cfEvent{0, liveIDs[rng.Intn(len(liveIDs))]})
		switch rng.Intn(3) {
		case 0:
			ev = append(ev, cfEvent{2, 0})
		case 1:
			ev = append(ev, cfEvent{0, 9}) // a late call req on the failed connection
		}
	case 7: // no failure at all
	default:
		ev = append(ev, cfEvent{2, 0})
		if rng.Intn(4) == 0 {
			ev = append(ev, cfEvent{2, 0})
		}
	}
	if len(liveIDs) > 1 && rng.Intn(5) == 0 {
		ev = append(ev, cfEvent{6, liveIDs[len(liveIDs)-1]}) // completion ordered after the failure
	}
	c.events = ev
	return c
}

func engineConnFail(rng *rand.Rand, n int, tier string, o *Out) {
	var cases []*cfCase
	// fixed matrix: every failure kind on both topologies with two handlers running
	for topo := 0; topo < 2; topo++ {
		base := []cfEvent{{0, 1}, {0, 2}}
		if topo == 1 {
			base = []cfEvent{{0, 1}, {1, 1}, {0, 2}}
		}
		for kind := 0; kind < 5; kind++ {
			cases = append(cases, &cfCase{topo: topo, kind: kind, events: append(append([]cfEvent{}, base...), cfEvent{2, 0})})
		}
		cases = append(cases, &cfCase{topo: topo, kind: 0, events: append(append([]cfEvent{}, base...), cfEvent{0, 1})})
		cases = append(cases, &cfCase{topo: topo, kind: 0, events: append(append([]cfEvent{}, base...), cfEvent{0, 2}, cfEvent{2, 0})})
	}
	if len(cases) > n {
		cases = cases[:n]
	}
	for len(cases) < n {
		cases = append(cases, genConnFailCase(rng))
	}
	results := make([]cfOutcome, len(cases))
	var wg sync.WaitGroup
	sem := make(chan struct{}, 8)
	for i := range cases {
		wg.Add(1)
		sem <- struct{}{}
		go func(i int) {
			defer wg.Done()
			defer func() { <-sem }()
			for attempt := 0; attempt < 3; attempt++ {
				results[i] = runConnFailCase(cases[i])
				if results[i].harnessErr == "" && results[i].verdict == "" {
					break
				}
			}
		}(i)
	}
	wg.Wait()
	for i, c := range cases {
		r := results[i]
		hasFail, hasDup := false, false
		seen := map[int]bool{}
		for _, e := range c.events {
			if e.code == 2 {
				hasFail = true
			}
			if e.code == 0 {
				if seen[e.id] {
					hasDup = true
				}
				seen[e.id] = true
			}
		}
		how := "none"
		switch {
		case hasDup && hasFail:
			how = "duplicate id then socket closed"
		case hasDup:
			how = "duplicate id"
		case hasFail:
			how = cfKindNames[c.kind]
		}
		o.Hist(fmt.Sprintf("topology=%d,failure=%s", c.topo, how))
		if i < 2 || i == len(cases)-1 {
			o.Sample(map[string]interface{}{"sub": "connfail", "case": c.String(), "obs(n, (id ctx)*, finished outbound, pending outbound)": r.obs})
		}
		verdict := r.verdict
		obs := r.obs
		if r.harnessErr != "" {
			verdict = "harness: " + r.harnessErr
			obs = []int64{-2}
		}
		o.Case("connfail", fmt.Sprintf("f%d", i), c.encode(), obs, r.started > 0 && (hasFail || hasDup), verdict)
	}
}
