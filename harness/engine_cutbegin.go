package main

// Engine "cutbegin" (property C05): the connection fails WHILE ANOTHER CALL BEGINS.
//
// Family: k calls are in flight on one connection at various stages, and nnew further calls
// sit between the connection-state check and the registration of their message exchange
// (schedule points outbound.afterStateCheck / inbound.afterStateCheck, forced with Sched)
// at the moment the connection is cut; they are released after the failure has been
// delivered to the exchanges; then the calls in flight go on (write their next argument /
// fragment, read the response) and meet the error in their own clean-up.
//
//   side 0  outbound calls of a real client through a TCP forwarder to a real server whose
//           handler withholds the response.  Stages of the calls in flight:
//             0 begun (nothing but the method written)   1 arg2 written
//             3 arg2 and a flushed fragment of arg3 written   2 request complete, waiting
//           plus a sentinel in stage 2 (its return tells the harness that the failure has
//           been delivered).  Failure: the forwarder closes both sockets / half-closes
//           towards the client / resets the client's socket; in every third group of
//           scenarios the client channel has begun a graceful Close just before.
//           When everything is over a follow-up call to the same peer (new connection)
//           must end by its deadline too.
//   side 1  inbound calls at a real server whose listener hands out sockets with an
//           injectable write error; a real client sends the calls.  The server's reader is
//           parked at inbound.afterStateCheck with a NEW call req, so the failure comes from
//           the writer: a trigger handler writes a response fragment, the write fails.
//           Handlers in flight: 0 started, nothing read yet   1 arguments read
//           2 response arg2 flushed; sentinel: blocked reading an arg3 the client withholds.
//
// Oracle (from the statement of C05): EVERY call -- in flight, sentinel, new -- hands control
// back by its deadline + slack with an error or with exactly the expected response; on side
// 1 additionally every handler's reads and writes return by the handler context's deadline +
// slack.  A failing scenario is re-run 3 times and only alarms when it fails 3 out of 3.
// Model: Model/CutBegin.v run_c05cutbegin (paths over the generated wait-site AND lock-site
// tables): per call [failed, control back by the deadline].

import (
	"bytes"
	"fmt"
	"math/rand"
	"net"
	"sync"
	"sync/atomic"
	"time"

	tchannel "github.com/uber/tchannel-go"
	"github.com/uber/tchannel-go/raw"
	"golang.org/x/net/context"
)

func init() { engines["cutbegin"] = engineCutBegin }

const (
	cbSlack     = 400 * time.Millisecond
	cbHangGrace = 1200 * time.Millisecond // after deadline + slack the call is declared hung
)

var cbCutNames = []string{"close-both", "half-close-to-client", "reset-client", "server-write-error",
	"closing+close-both", "closing+half-close-to-client", "closing+reset-client"}

// ---------------------------------------------------------------- forwarder that is cut on demand

type cbForwarder struct {
	ln     net.Listener
	target string
	mu     sync.Mutex
	pairs  []cbPair
}

type cbPair struct {
	c, s  net.Conn // client side, server side
	muted *int32
}

func cbNewForwarder(target string) (*cbForwarder, error) {
	ln, err := net.Listen("tcp", "127.0.0.1:0")
	if err != nil {
		return nil, err
	}
	f := &cbForwarder{ln: ln, target: target}
	go f.serve()
	return f, nil
}

func (f *cbForwarder) addr() string { return f.ln.Addr().String() }

func (f *cbForwarder) serve() {
	for {
		c, err := f.ln.Accept()
		if err != nil {
			return
		}
		s, err := net.DialTimeout("tcp", f.target, time.Second)
		if err != nil {
			c.Close()
			continue
		}
		muted := new(int32)
		f.mu.Lock()
		f.pairs = append(f.pairs, cbPair{c, s, muted})
		f.mu.Unlock()
		pump := func(dst, src net.Conn) {
			buf := make([]byte, 32*1024)
			for {
				n, err := src.Read(buf)
				if n > 0 && atomic.LoadInt32(muted) == 0 {
					if _, werr := dst.Write(buf[:n]); werr != nil {
						return
					}
				}
				if err != nil {
					return
				}
			}
		}
		go pump(s, c)
		go pump(c, s)
	}
}

func (f *cbForwarder) cut(mode int) {
	f.mu.Lock()
	defer f.mu.Unlock()
	for _, p := range f.pairs {
		switch mode {
		case 1:
			atomic.StoreInt32(p.muted, 1)
			if t, ok := p.c.(*net.TCPConn); ok {
				t.CloseWrite()
			}
		case 2:
			if t, ok := p.c.(*net.TCPConn); ok {
				t.SetLinger(0)
			}
			p.c.Close()
			p.s.Close()
		default:
			p.c.Close()
			p.s.Close()
		}
	}
}

func (f *cbForwarder) close() {
	f.ln.Close()
	f.mu.Lock()
	for _, p := range f.pairs {
		p.c.Close()
		p.s.Close()
	}
	f.mu.Unlock()
}

// ---------------------------------------------------------------- listener with an injectable write error

type cbFailConn struct {
	net.Conn
	fail *int32
}

func (c *cbFailConn) Write(b []byte) (int, error) {
	if atomic.LoadInt32(c.fail) != 0 {
		return 0, errInjected
	}
	return c.Conn.Write(b)
}

type cbFailListener struct {
	net.Listener
	fail *int32
}

func (l *cbFailListener) Accept() (net.Conn, error) {
	c, err := l.Listener.Accept()
	if err != nil {
		return nil, err
	}
	return &cbFailConn{Conn: c, fail: l.fail}, nil
}

// ---------------------------------------------------------------- one scenario

type cbParams struct {
	side   int
	cut    int
	stages []int           // calls in flight
	dls    []time.Duration // their deadlines
	dSent  time.Duration   // sentinel
	dNew   []time.Duration // new calls
	dAfter time.Duration   // the follow-up call made when everything else is over
}

func (p *cbParams) input() []int64 {
	in := []int64{int64(p.side), int64(p.cut), int64(len(p.dNew)), int64(len(p.stages)), int64(p.dSent / time.Millisecond), int64(p.dAfter / time.Millisecond)}
	for _, d := range p.dNew {
		in = append(in, int64(d/time.Millisecond))
	}
	for i, s := range p.stages {
		in = append(in, int64(s), int64(p.dls[i]/time.Millisecond))
	}
	return in
}

type cbCall struct {
	label      string
	method     string
	stage      int // -1: new call
	timeout    time.Duration
	arg2, arg3 []byte
	ready      chan struct{}
	readyOnce  sync.Once
	done       chan struct{}
	created    time.Time

	mu         sync.Mutex
	returned   bool
	err        error
	got2, got3 []byte
	elapsed    time.Duration
}

func cbNewCall(label, method string, stage int, timeout time.Duration, rng *rand.Rand) *cbCall {
	return &cbCall{label: label, method: method, stage: stage, timeout: timeout,
		arg2: []byte(randBytes(rng, 1+rng.Intn(20))), arg3: []byte(randBytes(rng, 40+rng.Intn(200))),
		ready: make(chan struct{}), done: make(chan struct{}), created: time.Now()}
}

func (c *cbCall) markReady() { c.readyOnce.Do(func() { close(c.ready) }) }

func cbWriteArg(w tchannel.ArgWriter, err error, data []byte) error {
	if err != nil {
		return err
	}
	if _, err := w.Write(data); err != nil {
		return err
	}
	return w.Close()
}

// run: the caller's goroutine.  gate is closed by the harness once the new calls have been
// released; hold (sentinel on side 1) makes the caller withhold the rest of arg3.
func (c *cbCall) run(ch *tchannel.Channel, hostPort, service string, gate <-chan struct{}, hold <-chan struct{}) {
	start := time.Now()
	var err error
	var got2, got3 []byte
	defer func() {
		if p := recover(); p != nil {
			err = fmt.Errorf("PANIC: %v", p)
		}
		c.mu.Lock()
		c.returned, c.err, c.got2, c.got3, c.elapsed = true, err, got2, got3, time.Since(start)
		c.mu.Unlock()
		c.markReady()
		close(c.done)
	}()
	ctx, cancel := tchannel.NewContext(c.timeout)
	defer cancel()
	call, e := ch.BeginCall(ctx, hostPort, service, c.method, nil)
	if e != nil {
		err = e
		return
	}
	switch c.stage {
	case 0:
		c.markReady()
		<-gate
		w2, e := call.Arg2Writer()
		if err = cbWriteArg(w2, e, c.arg2); err != nil {
			return
		}
		w3, e := call.Arg3Writer()
		if err = cbWriteArg(w3, e, c.arg3); err != nil {
			return
		}
	case 1:
		w2, e := call.Arg2Writer()
		if err = cbWriteArg(w2, e, c.arg2); err != nil {
			return
		}
		c.markReady()
		<-gate
		w3, e := call.Arg3Writer()
		if err = cbWriteArg(w3, e, c.arg3); err != nil {
			return
		}
	case 3, 5:
		// 5: the sentinel of side 1, which withholds the rest of arg3 until `hold` is closed
		w2, e := call.Arg2Writer()
		if err = cbWriteArg(w2, e, c.arg2); err != nil {
			return
		}
		w3, e := call.Arg3Writer()
		if e != nil {
			err = e
			return
		}
		h := len(c.arg3) / 2
		if _, err = w3.Write(c.arg3[:h]); err != nil {
			return
		}
		if err = w3.Flush(); err != nil {
			return
		}
		c.markReady()
		if c.stage == 5 {
			<-hold
		} else {
			<-gate
		}
		if _, err = w3.Write(c.arg3[h:]); err != nil {
			return
		}
		if err = w3.Close(); err != nil {
			return
		}
	default: // 2, -1: the whole request
		w2, e := call.Arg2Writer()
		if err = cbWriteArg(w2, e, c.arg2); err != nil {
			return
		}
		w3, e := call.Arg3Writer()
		if err = cbWriteArg(w3, e, c.arg3); err != nil {
			return
		}
		c.markReady()
	}
	got2, got3, err = raw.ReadArgsV2(call.Response())
}

// handler-side record (side 1)
type cbHandlerRec struct {
	method   string
	start    time.Time
	deadline time.Time
	finished bool
	fin      time.Time
}

type cbServer struct {
	ch       *tchannel.Channel
	gate     chan struct{} // handlers go on
	trigGate chan struct{} // the trigger handler writes
	mu       sync.Mutex
	recs     []*cbHandlerRec
	ready    map[string]chan struct{}
	sentDone chan struct{}
}

func (s *cbServer) readyCh(method string) chan struct{} {
	s.mu.Lock()
	defer s.mu.Unlock()
	if s.ready[method] == nil {
		s.ready[method] = make(chan struct{})
	}
	return s.ready[method]
}

func cbCloseOnce(ch chan struct{}) {
	defer func() { recover() }()
	close(ch)
}

// handler: the method name says what the handler does: "e<i>" echo after the gate (side 0);
// "h<stage>-<i>", "hs" sentinel, "ht" trigger, "hn<i>" new (side 1).
func (s *cbServer) handle(ctx context.Context, call *tchannel.InboundCall) {
	m := call.MethodString()
	rec := &cbHandlerRec{method: m, start: time.Now()}
	rec.deadline, _ = ctx.Deadline()
	s.mu.Lock()
	s.recs = append(s.recs, rec)
	s.mu.Unlock()
	defer func() {
		recover()
		s.mu.Lock()
		rec.finished, rec.fin = true, time.Now()
		s.mu.Unlock()
		if m == "hs" {
			cbCloseOnce(s.sentDone)
		}
	}()
	kind := m[:2]
	var a2, a3 []byte
	readArgs := func() bool {
		if err := tchannel.NewArgReader(call.Arg2Reader()).Read(&a2); err != nil {
			return false
		}
		return tchannel.NewArgReader(call.Arg3Reader()).Read(&a3) == nil
	}
	respond := func(flushed bool) {
		resp := call.Response()
		if !flushed {
			if tchannel.NewArgWriter(resp.Arg2Writer()).Write(a2) != nil {
				return
			}
		}
		tchannel.NewArgWriter(resp.Arg3Writer()).Write(a3)
	}
	wait := func(g chan struct{}) {
		select {
		case <-g:
		case <-time.After(5 * time.Second):
		}
	}
	switch kind {
	case "hs":
		if err := tchannel.NewArgReader(call.Arg2Reader()).Read(&a2); err != nil {
			return
		}
		cbCloseOnce(s.readyCh(m))
		tchannel.NewArgReader(call.Arg3Reader()).Read(&a3) // blocks: the client withholds the rest
	case "ht":
		if !readArgs() {
			return
		}
		cbCloseOnce(s.readyCh(m))
		wait(s.trigGate)
		resp := call.Response()
		w2, err := resp.Arg2Writer()
		if err != nil {
			return
		}
		if _, err := w2.Write(a2); err != nil {
			return
		}
		if err := w2.Flush(); err != nil {
			return
		}
		if err := w2.Close(); err != nil {
			return
		}
		tchannel.NewArgWriter(resp.Arg3Writer()).Write(a3)
	case "h0":
		cbCloseOnce(s.readyCh(m))
		wait(s.gate)
		if readArgs() {
			respond(false)
		}
	case "h1":
		if !readArgs() {
			return
		}
		cbCloseOnce(s.readyCh(m))
		wait(s.gate)
		respond(false)
	case "h2":
		if !readArgs() {
			return
		}
		resp := call.Response()
		w2, err := resp.Arg2Writer()
		if err != nil {
			return
		}
		if _, err := w2.Write(a2); err != nil {
			return
		}
		if err := w2.Flush(); err != nil {
			return
		}
		cbCloseOnce(s.readyCh(m))
		wait(s.gate)
		if err := w2.Close(); err != nil {
			return
		}
		tchannel.NewArgWriter(resp.Arg3Writer()).Write(a3)
	case "bg":
		// the slow-consumer scenario: a response of several full frames, at once
		if !readArgs() {
			return
		}
		resp := call.Response()
		if tchannel.NewArgWriter(resp.Arg2Writer()).Write(a2) != nil {
			return
		}
		tchannel.NewArgWriter(resp.Arg3Writer()).Write(cbBig(a3))
	default: // side 0 echo, side 1 new calls
		if !readArgs() {
			return
		}
		wait(s.gate)
		respond(false)
	}
}

// cbBig: the big response derived from the request's arg3 (about 300 KB: five frames)
func cbBig(a3 []byte) []byte {
	if len(a3) == 0 {
		a3 = []byte{0}
	}
	return bytes.Repeat(a3, 300000/len(a3)+1)
}

// cbRunSlow: the connection's reader is stalled by a SLOW CONSUMER while another call begins.
// Caller A (long deadline) has read arg2 of a five-frame response and does not read on: two
// frames fill its exchange's buffer, the reader goroutine blocks handing over the next one.
// Caller B (short deadline) then begins a call on the same connection.  B must be back by its
// own deadline + slack (its response is stuck behind A's frames: a timeout is a valid outcome),
// and A, released afterwards, gets exactly its response or an error by its deadline.
func cbRunSlow(dA, dB time.Duration, rng *rand.Rand) (out cbOutcome) {
	srv := &cbServer{gate: make(chan struct{}), trigGate: make(chan struct{}), ready: map[string]chan struct{}{}, sentDone: make(chan struct{})}
	close(srv.gate)
	sch, err := tchannel.NewChannel("cb-server", nil)
	if err != nil {
		out.infeasible = "server: " + err.Error()
		return
	}
	sch.Register(tchannel.HandlerFunc(srv.handle), "echo")
	sch.Register(tchannel.HandlerFunc(srv.handle), "bg")
	if err := sch.ListenAndServe("127.0.0.1:0"); err != nil {
		out.infeasible = "serve: " + err.Error()
		return
	}
	client, err := tchannel.NewChannel("cb-client", nil)
	if err != nil {
		out.infeasible = "client: " + err.Error()
		return
	}
	gateA := make(chan struct{})
	defer func() {
		cbCloseOnce(gateA)
		fin := make(chan struct{})
		go func() { client.Close(); sch.Close(); close(fin) }()
		cbWaitCh(fin, 300*time.Millisecond)
	}()
	target := sch.PeerInfo().HostPort
	arg2, arg3 := []byte(randBytes(rng, 1+rng.Intn(20))), []byte(randBytes(rng, 40+rng.Intn(200)))
	type res struct {
		err        error
		got2, got3 []byte
		elapsed    time.Duration
	}
	aRead2 := make(chan struct{})
	aDone := make(chan res, 1)
	go func() {
		start := time.Now()
		var r res
		defer func() {
			if p := recover(); p != nil {
				r.err = fmt.Errorf("PANIC: %v", p)
			}
			r.elapsed = time.Since(start)
			cbCloseOnce(aRead2)
			aDone <- r
		}()
		ctx, cancel := tchannel.NewContext(dA)
		defer cancel()
		call, err := client.BeginCall(ctx, target, "cb-server", "bg", nil)
		if err != nil {
			r.err = err
			return
		}
		w2, e := call.Arg2Writer()
		if r.err = cbWriteArg(w2, e, arg2); r.err != nil {
			return
		}
		w3, e := call.Arg3Writer()
		if r.err = cbWriteArg(w3, e, arg3); r.err != nil {
			return
		}
		resp := call.Response()
		if r.err = tchannel.NewArgReader(resp.Arg2Reader()).Read(&r.got2); r.err != nil {
			return
		}
		cbCloseOnce(aRead2)
		<-gateA
		r.err = tchannel.NewArgReader(resp.Arg3Reader()).Read(&r.got3)
	}()
	if !cbWaitCh(aRead2, time.Second) {
		out.infeasible = "the slow consumer did not get its first frame"
		return
	}
	time.Sleep(60 * time.Millisecond) // the remaining frames arrive; the reader blocks on the third
	b := cbNewCall("caller B (begins while the reader is stalled)", "echo", 2, dB, rng)
	go b.run(client, target, "cb-server", gateA, gateA)
	cbWaitCh(b.done, dB+cbSlack+cbHangGrace)
	close(gateA)
	var ra res
	aBack := true
	select {
	case ra = <-aDone:
	case <-time.After(time.Until(time.Now().Add(dA + cbSlack))):
		aBack = false
	}
	b.mu.Lock()
	fb, ib := int64(0), int64(1)
	switch {
	case !b.returned:
		ib = 0
		out.verdict = fmt.Sprintf("%s (deadline %v) is still blocked %v after its deadline", b.label, dB, cbSlack+cbHangGrace)
	case b.elapsed > dB+cbSlack:
		ib = 0
		out.verdict = fmt.Sprintf("%s (deadline %v) returned after %v, err=%v", b.label, dB, b.elapsed, b.err)
	case b.err == nil && (!bytes.Equal(b.got2, b.arg2) || !bytes.Equal(b.got3, b.arg3)):
		fb = 2
		out.verdict = b.label + " reported success with a response that is not the one sent"
	}
	out.detail = fmt.Sprintf("B: returned=%v after %v err=%v; ", b.returned, b.elapsed.Round(time.Millisecond), b.err)
	b.mu.Unlock()
	fa, ia := int64(0), int64(1)
	switch {
	case !aBack:
		ia = 0
		if out.verdict == "" {
			out.verdict = fmt.Sprintf("the slow consumer A (deadline %v) did not get control back", dA)
		}
	case ra.elapsed > dA+cbSlack:
		ia = 0
		if out.verdict == "" {
			out.verdict = fmt.Sprintf("the slow consumer A (deadline %v) returned after %v", dA, ra.elapsed)
		}
	case ra.err == nil && (!bytes.Equal(ra.got2, arg2) || !bytes.Equal(ra.got3, cbBig(arg3))):
		fa = 2
		if out.verdict == "" {
			out.verdict = "the slow consumer A reported success with a response that is not the one sent"
		}
	}
	out.detail += fmt.Sprintf("A: back=%v after %v err=%v", aBack, ra.elapsed.Round(time.Millisecond), ra.err)
	out.obs = []int64{fb, ib, fa, ia}
	return
}

type cbOutcome struct {
	infeasible string
	obs        []int64
	verdict    string
	detail     string
}

func cbWaitCh(ch <-chan struct{}, d time.Duration) bool {
	select {
	case <-ch:
		return true
	case <-time.After(d):
		return false
	}
}

// cbRun performs the scenario once.
func cbRun(p *cbParams, rng *rand.Rand) (out cbOutcome) {
	srv := &cbServer{gate: make(chan struct{}), trigGate: make(chan struct{}), ready: map[string]chan struct{}{}, sentDone: make(chan struct{})}
	sch, err := tchannel.NewChannel("cb-server", nil)
	if err != nil {
		out.infeasible = "server: " + err.Error()
		return
	}
	srv.ch = sch
	sch.Register(tchannel.HandlerFunc(srv.handle), "echo")
	methods := []string{"hs", "ht"}
	for i := range p.stages {
		methods = append(methods, fmt.Sprintf("e%d", i), fmt.Sprintf("h%d-%d", p.stages[i], i))
	}
	for i := range p.dNew {
		methods = append(methods, fmt.Sprintf("hn%d", i), fmt.Sprintf("en%d", i))
	}
	methods = append(methods, "es")
	for _, m := range methods {
		sch.Register(tchannel.HandlerFunc(srv.handle), m)
	}
	var failWrites int32
	ln, err := net.Listen("tcp", "127.0.0.1:0")
	if err != nil {
		out.infeasible = "listen: " + err.Error()
		return
	}
	if err := sch.Serve(&cbFailListener{Listener: ln, fail: &failWrites}); err != nil {
		out.infeasible = "serve: " + err.Error()
		return
	}
	target := sch.PeerInfo().HostPort
	var fwd *cbForwarder
	if p.side == 0 {
		if fwd, err = cbNewForwarder(target); err != nil {
			out.infeasible = "forwarder: " + err.Error()
			return
		}
		target = fwd.addr()
	}
	client, err := tchannel.NewChannel("cb-client", nil)
	if err != nil {
		out.infeasible = "client: " + err.Error()
		return
	}
	sched := NewSched()
	gate := make(chan struct{})
	hold := make(chan struct{})
	defer func() {
		// clean up without ever blocking the engine: a tree that leaks a lock can block Close
		cbCloseOnce(gate)
		cbCloseOnce(hold)
		cbCloseOnce(srv.gate)
		cbCloseOnce(srv.trigGate)
		sched.Close()
		fin := make(chan struct{})
		go func() {
			client.Close()
			sch.Close()
			if fwd != nil {
				fwd.close()
			}
			close(fin)
		}()
		cbWaitCh(fin, 300*time.Millisecond)
	}()

	// establish the connection
	{
		ctx, cancel := tchannel.NewContext(time.Second)
		err := client.Ping(ctx, target)
		cancel()
		if err != nil {
			out.infeasible = "ping: " + err.Error()
			return
		}
	}

	// the calls in flight, and the sentinel
	var calls []*cbCall
	if p.side == 1 {
		// the trigger is the first call in flight (its handler's write provokes the failure)
		calls = append(calls, cbNewCall("trigger", "ht", 2, p.dls[0], rng))
		for i := 1; i < len(p.stages); i++ {
			calls = append(calls, cbNewCall(fmt.Sprintf("call%d(handler stage %d)", i, p.stages[i]), fmt.Sprintf("h%d-%d", p.stages[i], i), 2, p.dls[i], rng))
		}
		calls = append(calls, cbNewCall("sentinel", "hs", 5, p.dSent, rng))
	} else {
		for i, st := range p.stages {
			calls = append(calls, cbNewCall(fmt.Sprintf("call%d(stage %d)", i, st), fmt.Sprintf("e%d", i), st, p.dls[i], rng))
		}
		calls = append(calls, cbNewCall("sentinel", "es", 2, p.dSent, rng))
	}
	sentinel := calls[len(calls)-1]
	for _, c := range calls {
		go c.run(client, target, "cb-server", gate, hold)
	}
	for _, c := range calls {
		if !cbWaitCh(c.ready, time.Second) {
			out.infeasible = c.label + " did not reach its stage"
			return
		}
	}
	if p.side == 1 {
		// every handler in flight has reached its stage
		for _, c := range calls {
			if !cbWaitCh(srv.readyCh(c.method), time.Second) {
				out.infeasible = "handler of " + c.label + " did not reach its stage"
				return
			}
		}
	}
	for _, c := range calls {
		c.mu.Lock()
		ret := c.returned
		c.mu.Unlock()
		if ret {
			out.infeasible = c.label + " ended before the failure"
			return
		}
	}

	// the new calls, parked between the state check and the registration of their exchange
	point := "outbound.afterStateCheck"
	if p.side == 1 {
		point = "inbound.afterStateCheck"
	}
	sched.ParkAt(point)
	var news []*cbCall
	for i, d := range p.dNew {
		m := fmt.Sprintf("en%d", i)
		if p.side == 1 {
			m = fmt.Sprintf("hn%d", i)
		}
		c := cbNewCall(fmt.Sprintf("new%d", i), m, -1, d, rng)
		news = append(news, c)
		go c.run(client, target, "cb-server", gate, hold)
	}
	want := len(news)
	if p.side == 1 {
		want = 1 // the server's reader parks with the first new call req
	}
	if !sched.WaitArrived(point, want, time.Second) {
		out.infeasible = "the new calls did not reach " + point
		return
	}

	// the failure (cut >= 4: the client channel has begun a graceful Close just before; the calls in
	// flight are still being served)
	if p.side == 0 {
		if p.cut >= 4 {
			go client.Close()
			time.Sleep(10 * time.Millisecond)
		}
		fwd.cut(p.cut % 4)
	} else {
		atomic.StoreInt32(&failWrites, 1)
		close(srv.trigGate)
	}
	// ... has been delivered when the sentinel is back
	if p.side == 0 {
		cbWaitCh(sentinel.done, 500*time.Millisecond)
	} else {
		cbWaitCh(srv.sentDone, 500*time.Millisecond)
	}
	time.Sleep(5 * time.Millisecond)
	// release the new calls, give them time to register, then let the calls in flight go on
	sched.Unpark(point)
	sched.ReleaseAll()
	if p.side == 0 {
		for _, c := range news {
			cbWaitCh(c.done, 100*time.Millisecond)
		}
	} else {
		time.Sleep(30 * time.Millisecond)
	}
	close(gate)
	close(hold)
	close(srv.gate)

	// every call must be back by its deadline + slack
	all := append(append([]*cbCall(nil), calls...), news...)
	for _, c := range all {
		cbWaitCh(c.done, time.Until(c.created.Add(c.timeout+cbSlack+cbHangGrace)))
	}
	// the follow-up: when all that is over, a fresh call to the same peer (a new connection: the
	// forwarder / the listener still accept, the server is alive and answers at once) must also
	// end by its deadline -- with exactly its response or with an error
	atomic.StoreInt32(&failWrites, 0)
	after := cbNewCall("follow-up", "echo", 2, p.dAfter, rng)
	go after.run(client, target, "cb-server", gate, hold)
	cbWaitCh(after.done, after.timeout+cbSlack+cbHangGrace)
	all = append(all, after)
	for _, c := range all {
		c.mu.Lock()
		failed, intime := int64(1), int64(1)
		var v string
		switch {
		case !c.returned:
			intime = 0
			v = fmt.Sprintf("%s (deadline %v) is still blocked %v after its deadline", c.label, c.timeout, cbSlack+cbHangGrace)
		case c.elapsed > c.timeout+cbSlack:
			intime = 0
			v = fmt.Sprintf("%s (deadline %v) returned after %v, err=%v", c.label, c.timeout, c.elapsed, c.err)
		case c.err == nil:
			failed = 0
			if !bytes.Equal(c.got2, c.arg2) || !bytes.Equal(c.got3, c.arg3) {
				failed = 2
				v = fmt.Sprintf("%s reported success with a response that is not the one sent", c.label)
			}
		case c == after:
			failed = 0 // an error in time is a valid outcome of the follow-up too
		case len(c.err.Error()) >= 5 && c.err.Error()[:5] == "PANIC":
			v = fmt.Sprintf("%s panicked: %v", c.label, c.err)
		}
		out.detail += fmt.Sprintf("%s: returned=%v after %v err=%v; ", c.label, c.returned, c.elapsed.Round(time.Millisecond), c.err)
		c.mu.Unlock()
		out.obs = append(out.obs, failed, intime)
		if v != "" && out.verdict == "" {
			out.verdict = v
		}
	}
	if p.side == 1 {
		// the handlers: every read / write of a handler returns by its context's deadline + slack
		deadline := time.Now().Add(cbSlack)
		for {
			pending := ""
			srv.mu.Lock()
			for _, r := range srv.recs {
				if !r.finished {
					pending = r.method
				}
			}
			srv.mu.Unlock()
			if pending == "" || time.Now().After(deadline) {
				break
			}
			time.Sleep(5 * time.Millisecond)
		}
		srv.mu.Lock()
		for _, r := range srv.recs {
			if r.deadline.IsZero() {
				continue
			}
			late := ""
			if !r.finished && time.Now().After(r.deadline.Add(cbSlack)) {
				late = fmt.Sprintf("the handler of %s is still blocked in a read or write %v after its context's deadline", r.method, time.Since(r.deadline).Round(time.Millisecond))
			} else if r.finished && r.fin.After(r.deadline.Add(cbSlack)) {
				late = fmt.Sprintf("the handler of %s got control back %v after its context's deadline", r.method, r.fin.Sub(r.deadline).Round(time.Millisecond))
			}
			if late != "" {
				// attribute it to the call's entry of the observable
				for i, c := range all {
					if c.method == r.method {
						out.obs[2*i+1] = 0
					}
				}
				if out.verdict == "" {
					out.verdict = late
				}
			}
		}
		srv.mu.Unlock()
	}
	return
}

// ---------------------------------------------------------------- engine

func cbGen(rng *rand.Rand, i int) *cbParams {
	p := &cbParams{side: 0}
	if i%4 == 3 {
		p.side = 1
	}
	dl := func() time.Duration { return time.Duration(pick(rng, 500, 600, 700, 800, 900)) * time.Millisecond }
	k := 1 + rng.Intn(4)
	if p.side == 0 {
		p.cut = i % 3
		if (i/4)%3 == 2 {
			p.cut += 4
		}
		hasWriter := false
		for j := 0; j < k; j++ {
			st := pick(rng, 0, 1, 3, 2, 0, 1, 3)
			if st != 2 {
				hasWriter = true
			}
			p.stages = append(p.stages, st)
			p.dls = append(p.dls, dl())
		}
		if !hasWriter {
			p.stages[0] = pick(rng, 0, 1, 3)
		}
	} else {
		p.cut = 3
		// the first call in flight is the trigger (handler stage 1)
		p.stages = append(p.stages, 1)
		p.dls = append(p.dls, dl())
		for j := 0; j < k; j++ {
			p.stages = append(p.stages, pick(rng, 0, 1, 2))
			p.dls = append(p.dls, dl())
		}
	}
	p.dSent = dl()
	p.dAfter = dl()
	nnew := 1 + rng.Intn(2)
	for j := 0; j < nnew; j++ {
		p.dNew = append(p.dNew, dl())
	}
	return p
}

func engineCutBegin(rng *rand.Rand, n int, tier string, o *Out) {
	total := 12 * n
	verdicts := 0
	for i := 0; i < total; i++ {
		p := cbGen(rng, i)
		// per-case generator so that re-runs do not shift the stream of the following cases
		seed := rng.Int63()
		id := fmt.Sprintf("cb%d-side%d-%s-k%d-new%d", i, p.side, cbCutNames[p.cut], len(p.stages), len(p.dNew))
		in := p.input()
		if verdicts >= 2 {
			o.Hist("skipped-after-verdicts")
			continue
		}
		var out cbOutcome
		for attempt := 0; attempt < 3; attempt++ {
			out = cbRun(p, rand.New(rand.NewSource(seed)))
			if out.infeasible == "" {
				break
			}
		}
		if out.infeasible != "" {
			o.Hist("infeasible: " + out.infeasible)
			o.Oracle("c05cutbegin", id, false, id, "")
			continue
		}
		verdict := ""
		if out.verdict != "" {
			// alarm only when it reproduces 3 out of 3 times
			repro := 0
			details := out.detail
			for k := 0; k < 3; k++ {
				o2 := cbRun(p, rand.New(rand.NewSource(seed)))
				if o2.infeasible == "" && o2.verdict != "" {
					repro++
					details = o2.detail
				} else {
					out = o2
					break
				}
			}
			if repro == 3 {
				verdict = fmt.Sprintf("%s [side=%d failure=%s, %d call(s) in flight (stages %v) + sentinel, %d new call(s) parked at the state check while the connection failed; reproduced 4 of 4 runs; %s]",
					out.verdict, p.side, cbCutNames[p.cut], len(p.stages), p.stages, len(p.dNew), details)
				verdicts++
			} else if out.infeasible != "" {
				o.Hist("infeasible: " + out.infeasible)
				o.Oracle("c05cutbegin", id, false, id, "")
				continue
			}
		}
		o.Hist(fmt.Sprintf("cutbegin:side=%d failure=%s", p.side, cbCutNames[p.cut]))
		o.Hist(fmt.Sprintf("cutbegin:inflight=%d new=%d", len(p.stages), len(p.dNew)))
		for _, st := range p.stages {
			o.Hist(fmt.Sprintf("cutbegin:side=%d stage=%d", p.side, st))
		}
		o.Sample(map[string]interface{}{"sub": "c05cutbegin", "id": id, "side": p.side, "failure": cbCutNames[p.cut], "stages": p.stages,
			"deadlines_ms": in[4:], "follow_up_ms": in[5], "new_calls": len(p.dNew), "observed": out.detail})
		o.Case("c05cutbegin", id, in, out.obs, true, verdict)
	}

	// ---- the reader stalled by a slow consumer while another call begins
	for i := 0; i < n; i++ {
		dA := time.Duration(pick(rng, 1800, 2000, 2200)) * time.Millisecond
		dB := time.Duration(pick(rng, 200, 250, 300)) * time.Millisecond
		seed := rng.Int63()
		id := fmt.Sprintf("slow%d-A%dms-B%dms", i, dA/time.Millisecond, dB/time.Millisecond)
		in := []int64{2, 0, 0, 0, int64(dA / time.Millisecond), int64(dB / time.Millisecond)}
		if verdicts >= 2 {
			o.Hist("skipped-after-verdicts")
			continue
		}
		out := cbRunSlow(dA, dB, rand.New(rand.NewSource(seed)))
		if out.infeasible != "" {
			o.Hist("infeasible: " + out.infeasible)
			o.Oracle("c05cutbegin", id, false, id, "")
			continue
		}
		verdict := ""
		if out.verdict != "" {
			repro := 0
			for k := 0; k < 3; k++ {
				if o2 := cbRunSlow(dA, dB, rand.New(rand.NewSource(seed))); o2.infeasible == "" && o2.verdict != "" {
					repro++
				} else {
					out = o2
					break
				}
			}
			if repro == 3 {
				verdict = fmt.Sprintf("%s [a slow consumer A (deadline %v) has stalled the connection's reader; reproduced 4 of 4 runs; %s]", out.verdict, dA, out.detail)
				verdicts++
			} else if out.infeasible != "" {
				o.Hist("infeasible: " + out.infeasible)
				o.Oracle("c05cutbegin", id, false, id, "")
				continue
			}
		}
		o.Hist("cutbegin:slow-consumer")
		o.Case("c05cutbegin", id, in, out.obs, true, verdict)
	}

	// ---- lock waits on failure paths the caller runs itself (engine_cutbegin_c05v.go, sub c05vlock):
	// giving up on a stalled connection; a connection that dies while it is being registered
	c05vFamilies(rng, n, tier, o, &verdicts)
}
