package main

// C07 engine "connclose": one real Connection of a real listening Channel, its remote end a raw
// peer.  Operations (Close, call req frames from the peer, beginCall, handler completion,
// responses from the peer, connectionError, relay admission/decrement, checkExchanges) are run one
// at a time; the schedule points park an operation between its atomic steps so that the others
// can be interleaved with it.  The same operation list is replayed on the extracted model
// (Model/ConnClose.v, run_connclose); after every operation both print
//   stop-class state #inbound #outbound pending stopCh-closed stoppedExchanges
// and at the end the error frames seen by the peer and the outcome of every operation.

import (
	"fmt"
	"math/rand"
	"os"
	"sort"
	"sync/atomic"
	"time"

	tchannel "github.com/uber/tchannel-go"
	"golang.org/x/net/context"
)

func init() { engines["connclose"] = engineConnClose }

type ccThread struct {
	tid  int
	kind int // model thread kind
	id   uint32
	park *c07Park
	done chan struct{}
	mask int64
	// results
	closeErr      error
	callErr       error
	callID        uint32
	admitted      bool
	logFrom       int
	finished      bool
	handler       *c07Handler
	outcome       [2]int64
	silent        bool
	oc            *ccOutCall
	errBase       int
	regID         uint32
	inBase        int
	isParked      int32
	startedClosed bool
	outBefore     int
	// state of the connection when a call req parked at inbound.afterNewExchange (exchange
	// registered, re-check pending) was released; 0 = never parked there
	stateAtRecheck int
	ponged         bool
}

type ccOutCall struct {
	id       uint32
	call     *tchannel.OutboundCall
	finished chan struct{}
	resOK    bool
	resErr   error
}

type ccWorld struct {
	ch      *tchannel.Channel
	conn    *tchannel.Connection
	connID  uint32
	peer    *c07Peer
	ctl     *c07Ctl
	hs      *c07Handlers
	relay   bool
	threads []*ccThread
	ops     []int64 // model op list
	obs     []int64 // implementation observations
	nops    int64

	inflightIn  map[uint32]*c07Handler // dispatched, handler not released
	expiredIn   map[uint32]bool
	usedIn      []uint32
	outCalls    map[uint32]*ccOutCall // begun, not finished
	flushed     bool
	failure     bool // a connection failure or protocol error happened
	readerBusy  *ccThread
	pingSeq     uint32
	nextInID    uint32
	states      []int
	verdicts    []string
	infeasible  bool
	liveRelay   []*ccThread
	refusedSeen map[uint32]int
}

func classOf(name string) int64 {
	switch name {
	case ptCE:
		return 1
	case ptInCheck:
		return 2
	case ptInNewEx:
		return 3
	case ptOutCheck:
		return 4
	case ptOutNewEx:
		return 5
	}
	return 64
}

func namesOf(mask int64) []string {
	var out []string
	for _, n := range []string{ptCE, ptInCheck, ptInNewEx, ptOutCheck, ptOutNewEx} {
		if mask&(1<<uint(classOf(n))) != 0 {
			out = append(out, n)
		}
	}
	return out
}

func (w *ccWorld) observe(code int64) {
	o := tchannel.VerifC07Observe(w.conn)
	w.obs = append(w.obs, code, int64(o.State), int64(o.Inbound), int64(o.Outbound), int64(o.Pending), b2i(o.StopClosed), b2i(o.Stopped))
	w.states = append(w.states, o.State)
	// statement-level checks that can be made at every quiescent point
	if n := len(w.states); n > 1 && w.states[n-1] < w.states[n-2] {
		w.fail(fmt.Sprintf("connection state moved backwards: %d -> %d", w.states[n-2], w.states[n-1]))
	}
	if o.StopClosed != (o.State == 4) {
		w.fail(fmt.Sprintf("stopCh closed=%v while the connection state is %d", o.StopClosed, o.State))
	}
	if !w.failure && !o.Stopped {
		if len(w.inflightIn) > 0 && o.State > 2 {
			w.fail(fmt.Sprintf("connection state %d while %d dispatched inbound call(s) are still running (no connection failure)", o.State, len(w.inflightIn)))
		}
		if len(w.outCalls) > 0 && o.State > 3 {
			w.fail(fmt.Sprintf("connection closed (state %d) while %d begun outbound call(s) are in flight (no connection failure)", o.State, len(w.outCalls)))
		}
		if len(w.liveRelay) > 0 && o.State > 2 {
			w.fail(fmt.Sprintf("connection state %d while %d relayed call(s) are pending", o.State, len(w.liveRelay)))
		}
	}
	if o.HasRelay && o.Pending != len(w.liveRelay) {
		w.fail(fmt.Sprintf("relay pending = %d but %d admitted relayed calls are unfinished", o.Pending, len(w.liveRelay)))
	}
}

func (w *ccWorld) fail(v string) { w.verdicts = append(w.verdicts, v) }

func (w *ccWorld) state() int { return tchannel.VerifC07State(w.conn) }

func (w *ccWorld) modelOp(a, b, c, d int64) {
	w.ops = append(w.ops, a, b, c, d)
	w.nops++
}

// spawn registers a new model thread (ops 0 / 2) and returns it.
func (w *ccWorld) spawn(kind int, id uint32, flag int64, silent bool) *ccThread {
	t := &ccThread{tid: len(w.threads), kind: kind, id: id, done: make(chan struct{}), logFrom: w.ctl.logLen(), silent: silent}
	w.threads = append(w.threads, t)
	op := int64(0)
	if silent {
		op = 2
	}
	w.modelOp(op, int64(kind), int64(id), flag)
	if !silent {
		w.observe(0)
	}
	return t
}

// run lets thread t go (start() for a new operation, or releasing its park) until it parks at a
// point of mask or finishes.
func (w *ccWorld) run(t *ccThread, mask int64, start func()) bool {
	runFrom := w.ctl.logLen()
	defer func() {
		if t.kind == 4 && t.regID == 0 {
			for _, e := range w.ctl.events(runFrom) {
				if e.Name == ptOutNewEx {
					t.regID = e.ID
					break
				}
			}
		}
	}()
	w.ctl.arm(namesOf(mask)...)
	if t.park != nil {
		p := t.park
		t.park = nil
		atomic.StoreInt32(&t.isParked, 0)
		close(p.resume)
	} else if start != nil {
		start()
	}
	p, ok := w.ctl.await(t.done, 3*time.Second)
	w.ctl.disarm()
	if !ok {
		w.infeasible = true
		return false
	}
	code := int64(0)
	if p != nil {
		t.park = p
		atomic.StoreInt32(&t.isParked, 1)
		code = classOf(p.Name)
	} else {
		t.finished = true
	}
	if t.silent {
		w.modelOp(3, int64(t.tid), mask, 0)
	} else if t.finished && !w.flushed && tchannel.VerifC07Observe(w.conn).Stopped {
		// this operation set stoppedExchanges: every registered exchange is being notified in the
		// background; observe once that has settled
		w.modelOp(3, int64(t.tid), mask, 0)
		w.failure = true
		return w.flush()
	} else {
		w.modelOp(1, int64(t.tid), mask, 0)
		w.observe(code)
	}
	return true
}

func hitsSince(evs []c07Event, name string, id uint32) bool {
	for _, e := range evs {
		if e.Name == name && e.ID == id {
			return true
		}
	}
	return false
}

// ---- operations ----------------------------------------------------------------------

func (w *ccWorld) opCloser(mask int64) bool {
	t := w.spawn(1, 0, 0, false)
	ok := w.run(t, mask, func() {
		go func() { t.closeErr = w.conn.Close(); close(t.done) }()
	})
	return ok
}

func (w *ccWorld) opChecker(mask int64) bool {
	t := w.spawn(9, 0, 0, false)
	return w.run(t, mask, func() {
		go func() { tchannel.VerifC07CheckExchanges(w.conn); close(t.done) }()
	})
}

func (w *ccWorld) opFailer(mask int64) bool {
	t := w.spawn(2, 0, 0, false)
	w.failure = true
	ok := w.run(t, mask, func() {
		go func() { tchannel.VerifC07ConnectionError(w.conn); close(t.done) }()
	})
	if ok && t.finished {
		return w.flush()
	}
	return ok
}

func (w *ccWorld) opReader(id uint32, mask int64) bool {
	before := w.state()
	t := w.spawn(3, id, 0, false)
	t.handler = w.hs.expect(id)
	t.errBase = w.errCount(id)
	t.inBase = tchannel.VerifC07Observe(w.conn).Inbound
	ok := w.run(t, mask, func() {
		if err := w.peer.sendCallReq(id, 60000); err != nil {
			w.infeasible = true
		}
		go w.readerDone(t)
	})
	if !ok {
		return false
	}
	w.usedIn = append(w.usedIn, id)
	t.startedClosed = before != 1 // started after the state left Active: must not be served
	if t.park != nil {
		w.readerBusy = t
		return true
	}
	return w.finishReader(t)
}

// readerDone signals the completion of the frame reader's work on one call req.  Pings cannot
// be used as a barrier: a ping on a connection that is not Active is answered with a protocol
// error that tears the connection down.  The end is recognised from what the reader leaves
// behind (schedule-point log, exchange count, error frames, handler entry).
func (w *ccWorld) errCount(id uint32) int {
	n := 0
	for _, e := range w.peer.errFrames() {
		if uint32(e[0]) == id {
			n++
		}
	}
	return n
}

func ceAfter(evs []c07Event, name string, id uint32, connID uint32) bool {
	seen := false
	for _, e := range evs {
		if e.Name == name && e.ID == id {
			seen = true
		} else if seen && e.Name == ptCE && e.ID == connID {
			return true
		}
	}
	return false
}

func (w *ccWorld) readerDone(t *ccThread) {
	var since time.Time
	settle := func(d time.Duration) bool {
		if since.IsZero() {
			since = time.Now()
		}
		return time.Since(since) > d
	}
	deadline := time.Now().Add(10 * time.Second)
	for time.Now().Before(deadline) {
		time.Sleep(150 * time.Microsecond)
		if atomic.LoadInt32(&t.isParked) == 1 {
			since = time.Time{}
			continue
		}
		select {
		case <-t.handler.entered: // dispatched
			close(t.done)
			return
		default:
		}
		evs := w.ctl.events(t.logFrom)
		passed := hitsSince(evs, ptInCheck, t.id)
		registered := hitsSince(evs, ptInNewEx, t.id)
		gotErr := w.errCount(t.id) > t.errBase
		o := tchannel.VerifC07Observe(w.conn)
		switch {
		case gotErr && !passed: // refused at the first check: the reader returns after the send
			if settle(300 * time.Microsecond) {
				close(t.done)
				return
			}
		case registered && ceAfter(evs, ptInNewEx, t.id, w.connID) && o.Inbound <= t.inBase:
			// re-check branch: exchange removed again, checkExchanges entered (answered or not)
			wait := 1500 * time.Microsecond
			if !gotErr && o.State != 4 {
				wait = 300 * time.Millisecond // no answer yet: give a late error frame or handler entry time
			}
			if settle(wait) {
				close(t.done)
				return
			}
		case passed && !registered && gotErr && o.Stopped: // protocol error path finished its CAS
			if settle(2 * time.Millisecond) {
				close(t.done)
				return
			}
		case o.State == 4 && !registered: // closed connection: nothing is sent, nothing registered
			if settle(40 * time.Millisecond) {
				close(t.done)
				return
			}
		default:
			since = time.Time{}
		}
	}
}

// finishReader classifies a completed call req: served, refused (first check / re-check),
// protocol error; and applies the refuse oracle.
func (w *ccWorld) finishReader(t *ccThread) bool {
	w.readerBusy = nil
	startedClosed := t.startedClosed
	evs := w.ctl.events(t.logFrom)
	passedCheck := hitsSince(evs, ptInCheck, t.id)
	registered := hitsSince(evs, ptInNewEx, t.id)
	nerr, code := 0, int64(-1)
	for _, e := range w.peer.errFrames() {
		if uint32(e[0]) == t.id {
			nerr++
			code = e[1]
		}
	}
	nerr -= t.errBase
	served := false
	closed := w.state() == 4
	if nerr == 0 && passedCheck && registered {
		wait := 200 * time.Millisecond
		if closed {
			wait = 20 * time.Millisecond
		}
		select {
		case <-t.handler.entered:
			served = true
		case <-time.After(wait):
		}
	}
	switch {
	case served:
		t.outcome = [2]int64{10, int64(t.id)}
		w.inflightIn[t.id] = t.handler
		if startedClosed {
			w.fail(fmt.Sprintf("call req %d arrived after the connection left Active and was served", t.id))
		}
	case !passedCheck:
		t.outcome = [2]int64{11, int64(t.id)}
	case !registered:
		t.outcome = [2]int64{13, int64(t.id)}
		w.failure = true
	default:
		t.outcome = [2]int64{12, int64(t.id)}
	}
	if !served {
		want := int64(4)
		if t.outcome[0] == 13 {
			want = 255
		}
		switch {
		case nerr == 1 && code == want:
		case nerr == 0 && closed && t.outcome[0] == 12 && t.stateAtRecheck != 0 && t.stateAtRecheck != 4 && !w.failure:
			// the operations run one at a time: between the release of this request (exchange
			// registered, connection still open) and its end nothing else moved, so it was this
			// request's own exchange removal that closed the connection -- before it was answered
			w.fail(fmt.Sprintf("call req %d raced with Close: when it reached its re-check the connection was still open (state %d), yet no declined frame was sent for it and the connection is now Closed -- its own exchange was removed (closing the connection) before the answer", t.id, t.stateAtRecheck))
		case nerr == 0 && closed:
		case nerr == 0:
			tag := ""
			if t.outcome[0] == 12 {
				tag = "[c07:recheck-silent-drop] "
			}
			w.fail(fmt.Sprintf(tag+"call req %d was neither served nor answered: no error frame for it although the connection is still open (state %d); outcome class %d", t.id, w.state(), t.outcome[0]))
		default:
			w.fail(fmt.Sprintf("call req %d refused with %d error frame(s), last code %d (want exactly one with code %d)", t.id, nerr, code, want))
		}
	}
	if t.outcome[0] == 13 {
		return w.flush()
	}
	return true
}

func (w *ccWorld) opCaller(mask int64) bool {
	before := w.state()
	outBefore := tchannel.VerifC07Observe(w.conn).Outbound
	t := w.spawn(4, 0, 0, false)
	ok := w.run(t, mask, func() {
		go func() {
			ctx, _ := context.WithTimeout(context.Background(), 60*time.Second)
			call, id, err := tchannel.VerifC07BeginCall(ctx, w.conn, "peer", "m")
			t.callErr, t.callID = err, id
			if err == nil {
				oc := &ccOutCall{id: id, call: call, finished: make(chan struct{})}
				t.oc = oc
				e := tchannel.NewArgWriter(call.Arg2Writer()).Write([]byte("a2"))
				if e == nil {
					e = tchannel.NewArgWriter(call.Arg3Writer()).Write([]byte("a3"))
				}
				go func(oc *ccOutCall) {
					var r2, r3 []byte
					e := tchannel.NewArgReader(oc.call.Response().Arg2Reader()).Read(&r2)
					if e == nil {
						e = tchannel.NewArgReader(oc.call.Response().Arg3Reader()).Read(&r3)
					}
					oc.resErr = e
					oc.resOK = e == nil && string(r3) == fmt.Sprintf("r3-%d", oc.id)
					close(oc.finished)
				}(oc)
			}
			close(t.done)
		}()
	})
	if !ok {
		return false
	}
	t.startedClosed = before != 1
	t.outBefore = outBefore
	if t.park != nil {
		return true
	}
	return w.finishCaller(t)
}

func (w *ccWorld) finishCaller(t *ccThread) bool {
	startedClosed := t.startedClosed
	outBefore := t.outBefore
	oc := t.oc
	evs := w.ctl.events(t.logFrom)
	kind := tchannel.VerifC07ErrKind(t.callErr)
	o := tchannel.VerifC07Observe(w.conn)
	switch {
	case kind == 0:
		t.outcome = [2]int64{20, int64(t.callID)}
		w.outCalls[t.callID] = oc
		if startedClosed {
			w.fail("beginCall on a connection that had left Active returned a call")
		}
	case kind == 1 && !hitsSince(evs, ptOutCheck, 0):
		t.outcome = [2]int64{21, 0}
		if o.Outbound != outBefore {
			w.fail(fmt.Sprintf("beginCall failed locally at the state check but the outbound exchange count changed %d -> %d", outBefore, o.Outbound))
		}
	case kind == 1:
		t.outcome = [2]int64{22, int64(t.regID)}
	case kind == 2:
		t.outcome = [2]int64{23, int64(o.NextID)}
	case kind == 3:
		t.outcome = [2]int64{24, int64(o.NextID)}
	default:
		t.outcome = [2]int64{-3, 0}
		w.fail(fmt.Sprintf("beginCall returned an unexpected error: %v", t.callErr))
	}
	if startedClosed && kind != 1 {
		w.fail(fmt.Sprintf("beginCall on a closing connection did not fail with ErrConnectionClosed (error kind %d)", kind))
	}
	return true
}

// opFinIn lets the handler of a dispatched call return.  In the implementation TWO goroutines
// then remove the exchange and run checkExchanges concurrently: the handler's goroutine
// (doneSending -> mex.shutdown -> removeExchange) and the watcher goroutine started by
// dispatchInbound (the response cancels the call context -> inboundExpired -> expireExchange).
// Their order cannot be controlled from outside, so the operation is run as a whole: the model
// replays both threads (silently) and the observation is taken when both have finished.
func (w *ccWorld) opFinIn(id uint32, mask int64) bool { return w.opFinInCode(id, 0) }

// opFinInCode: code != 0 -- the handler answers with a system error (model thread TFinInErr).
func (w *ccWorld) opFinInCode(id uint32, code int) bool {
	h := w.inflightIn[id]
	delete(w.inflightIn, id)
	h.code = code
	errBase := w.errCount(id)
	from := w.ctl.logLen()
	wantCE := 2
	if w.expiredIn[id] { // the watcher already ran when the exchanges were stopped
		wantCE = 1
	}
	close(h.release)
	select {
	case <-h.done:
	case <-time.After(3 * time.Second):
		w.infeasible = true
		return false
	}
	deadline := time.Now().Add(2 * time.Second)
	for {
		n := 0
		for _, e := range w.ctl.events(from) {
			if e.Name == ptCE && e.ID == w.connID {
				n++
			}
		}
		if n >= wantCE {
			break
		}
		if time.Now().After(deadline) {
			w.infeasible = true
			return false
		}
		time.Sleep(100 * time.Microsecond)
	}
	time.Sleep(500 * time.Microsecond) // the rest of checkExchanges after its schedule point
	var t *ccThread
	if code != 0 {
		t = w.spawn(10, id, int64(code), true)
	} else {
		t = w.spawn(5, id, 0, true)
	}
	t.errBase = errBase
	t.finished = true
	t.handler = h
	w.modelOp(3, int64(t.tid), 0, 0)
	if wantCE == 2 {
		t2 := w.spawn(7, id, 0, true)
		t2.finished = true
		t2.outcome = [2]int64{40, int64(id)}
		w.modelOp(3, int64(t2.tid), 0, 0)
	}
	w.modelOp(4, 0, 0, 0)
	w.observe(0)
	w.finishFinIn(t)
	return true
}

func (w *ccWorld) finishFinIn(t *ccThread) {
	t.outcome = [2]int64{40, int64(t.id)}
	if code := t.handler.code; code != 0 {
		// (a) for error results: the handler's system error must reach the peer, exactly once
		t.outcome = [2]int64{100 + int64(code), int64(t.id)}
		check := !w.failure && !w.expiredIn[t.id] && !tchannel.VerifC07Observe(w.conn).Stopped
		deadline := time.Now().Add(2 * time.Millisecond)
		if check {
			deadline = time.Now().Add(2 * time.Second)
		}
		for w.errCount(t.id) == t.errBase && time.Now().Before(deadline) {
			select {
			case <-w.peer.eof:
				deadline = time.Now()
			default:
				time.Sleep(200 * time.Microsecond)
			}
		}
		n, last := 0, int64(-1)
		for _, e := range w.peer.errFrames() {
			if uint32(e[0]) == t.id {
				n++
				last = e[1]
			}
		}
		// a call req with the same id that is parked inside handleCallReq (duplicate / reused id)
		// must not take this frame for its own answer
		for _, t2 := range w.threads {
			if t2 != t && t2.kind == 3 && t2.id == t.id && !t2.finished {
				t2.errBase += n - t.errBase
			}
		}
		if check && (n-t.errBase != 1 || last != int64(code)) {
			w.fail(fmt.Sprintf("[c07:handler-error-lost-on-drain] inbound call %d was accepted before Close and its handler answered with system error %d, but the peer got %d error frame(s) for it (last code %d; SendSystemError returned %v)", t.id, code, n-t.errBase, last, t.handler.werr))
		}
		return
	}
	if !w.failure && !w.expiredIn[t.id] && !tchannel.VerifC07Observe(w.conn).Stopped {
		// (a) results are delivered: the peer must receive the complete call res
		deadline := time.Now().Add(2 * time.Second)
		for !w.peer.gotRes(t.id) && time.Now().Before(deadline) {
			time.Sleep(200 * time.Microsecond)
		}
		if !w.peer.gotRes(t.id) {
			w.fail(fmt.Sprintf("inbound call %d was accepted before Close and completed by its handler, but no complete call res reached the peer (handler write error: %v)", t.id, t.handler.werr))
		}
	}
}

func (w *ccWorld) opFinOut(id uint32, mask int64) bool {
	oc := w.outCalls[id]
	t := w.spawn(6, id, 0, false)
	delete(w.outCalls, id)
	t.done = oc.finished
	ok := w.run(t, mask, func() {
		if err := w.peer.sendCallRes(id); err != nil {
			w.infeasible = true
		}
	})
	if !ok {
		return false
	}
	t.outcome = [2]int64{40, int64(id)}
	if t.park == nil && !w.failure && !oc.resOK {
		w.fail(fmt.Sprintf("outbound call %d begun before Close: the response sent by the peer was not delivered to the caller (%v)", id, oc.resErr))
	}
	if t.park != nil {
		// checked when it is resumed
		t.handler = nil
	}
	return true
}

// opPing: the peer sends a ping req (model thread TPing).  Only while the frame reader is free
// and the connection is open (a closed connection's socket is gone: nothing can be observed).
func (w *ccWorld) opPing() bool {
	w.pingSeq++
	id := 0x7e000000 + w.pingSeq
	st := w.state()
	t := w.spawn(11, id, 0, false)
	ok := w.run(t, 0, func() {
		ch := w.peer.ping(id)
		go func() {
			select {
			case <-ch:
				t.ponged = true
			case <-w.peer.eof:
			case <-time.After(2500 * time.Millisecond):
			}
			close(t.done)
		}()
	})
	if !ok {
		return false
	}
	if t.ponged {
		t.outcome = [2]int64{80, int64(id)}
	} else {
		t.outcome = [2]int64{13, int64(id)}
		w.failure = true
		w.fail(fmt.Sprintf("[c07:ping-on-draining-connection] a ping req on a connection in state %d (%d inbound / %d outbound calls in flight) was not answered with a ping res", st, len(w.inflightIn), len(w.outCalls)))
		return w.flush()
	}
	return true
}

func (w *ccWorld) readerFree() bool {
	if w.readerBusy != nil {
		return false
	}
	for _, t := range w.parked() {
		if t.kind == 3 || t.kind == 6 {
			return false
		}
	}
	return true
}

func (w *ccWorld) opRelayAdmit(id uint32) bool {
	before := w.state()
	t := w.spawn(8, id, 1, false)
	_, adm := tchannel.VerifC07RelayAdmit(w.conn)
	t.admitted = adm
	if adm && before != 1 {
		w.fail(fmt.Sprintf("a relayed call was admitted (pending incremented) on a connection that had left Active (state %d)", before))
	}
	code := int64(0)
	if adm {
		code = 6
		w.liveRelay = append(w.liveRelay, t)
		t.outcome = [2]int64{-1, 6}
	} else {
		t.finished = true
		t.outcome = [2]int64{32, int64(id)}
		close(t.done)
	}
	w.modelOp(1, int64(t.tid), 1<<6, 0)
	w.observe(code)
	return true
}

func (w *ccWorld) opRelayDone(t *ccThread, mask int64) bool {
	for i, x := range w.liveRelay {
		if x == t {
			w.liveRelay = append(w.liveRelay[:i], w.liveRelay[i+1:]...)
		}
	}
	ok := w.run(t, mask, func() {
		go func() { tchannel.VerifC07RelayDone(w.conn); close(t.done) }()
	})
	t.outcome = [2]int64{30, int64(t.id)}
	return ok
}

// resume continues a parked operation.
func (w *ccWorld) resume(t *ccThread, mask int64) bool {
	if t.kind == 3 && t.park != nil && t.park.Name == ptInNewEx && !w.failure {
		t.stateAtRecheck = w.state()
	}
	if !w.run(t, mask, nil) {
		return false
	}
	if t.park != nil {
		return true
	}
	switch t.kind {
	case 3:
		return w.finishReader(t)
	case 4:
		return w.finishCaller(t)
	case 2:
		return w.flush()
	}
	return true
}

// flush: after stoppedExchanges was set every registered exchange is notified: the watcher of a
// dispatched inbound call expires its exchange, the reader of a begun outbound call fails and
// shuts its exchange down.  These run concurrently in the implementation; the model replays them
// one after the other (silently) and the observation is taken when all are done.
func (w *ccWorld) flush() bool {
	if !tchannel.VerifC07Observe(w.conn).Stopped || w.flushed {
		return true
	}
	w.flushed = true
	outIDs := make([]int, 0)
	for id := range w.outCalls {
		outIDs = append(outIDs, int(id))
	}
	sort.Ints(outIDs)
	for _, i := range outIDs {
		id := uint32(i)
		oc := w.outCalls[id]
		select {
		case <-oc.finished:
		case <-time.After(3 * time.Second):
			w.infeasible = true
			return false
		}
		t := w.spawn(6, id, 0, true)
		t.finished = true
		t.outcome = [2]int64{40, int64(id)}
		w.modelOp(3, int64(t.tid), 0, 0)
		delete(w.outCalls, id)
	}
	wantIn := 0
	if w.readerBusy != nil && w.readerBusy.park != nil && w.readerBusy.park.Name == ptInNewEx {
		wantIn = 1
	}
	deadline := time.Now().Add(3 * time.Second)
	for tchannel.VerifC07Observe(w.conn).Inbound != wantIn {
		if time.Now().After(deadline) {
			w.infeasible = true
			return false
		}
		time.Sleep(200 * time.Microsecond)
	}
	time.Sleep(2 * time.Millisecond) // let the expiring goroutines leave checkExchanges
	inIDs := make([]int, 0)
	for id := range w.inflightIn {
		inIDs = append(inIDs, int(id))
	}
	sort.Ints(inIDs)
	for _, i := range inIDs {
		id := uint32(i)
		t := w.spawn(7, id, 0, true)
		t.finished = true
		t.outcome = [2]int64{40, int64(id)}
		w.modelOp(3, int64(t.tid), 0, 0)
		w.expiredIn[id] = true
	}
	w.modelOp(4, 0, 0, 0)
	w.observe(0)
	return true
}

// ---- one case ---------------------------------------------------------------------------

func newCCWorld(relay bool) (*ccWorld, error) {
	w := &ccWorld{relay: relay, inflightIn: map[uint32]*c07Handler{}, expiredIn: map[uint32]bool{}, outCalls: map[uint32]*ccOutCall{},
		refusedSeen: map[uint32]int{}, nextInID: 100}
	w.hs = &c07Handlers{m: map[uint32][]*c07Handler{}}
	ch, err := c07NewChannel("svc", relay, w.hs)
	if err != nil {
		return nil, err
	}
	if err := ch.ListenAndServe("127.0.0.1:0"); err != nil {
		return nil, err
	}
	w.ch = ch
	w.ctl = newC07Ctl()
	peer, conn, err := c07Dial(ch, map[uint32]bool{})
	if err != nil {
		w.ctl.close()
		ch.Close()
		return nil, err
	}
	w.peer, w.conn, w.connID = peer, conn, tchannel.VerifC07ConnID(conn)
	return w, nil
}

func (w *ccWorld) cleanup() {
	w.ctl.disarm()
	for _, t := range w.threads {
		if t.park != nil {
			close(t.park.resume)
			t.park = nil
		}
	}
	w.ctl.drain()
	w.hs.mu.Lock()
	for _, l := range w.hs.m {
		for _, h := range l {
			select {
			case <-h.release:
			default:
				close(h.release)
			}
		}
	}
	w.hs.mu.Unlock()
	w.peer.conn.Close()
	w.ch.Close()
	select {
	case <-w.ch.ClosedChan():
	case <-time.After(300 * time.Millisecond):
	}
	w.ctl.close()
}

func (w *ccWorld) parked() []*ccThread {
	var out []*ccThread
	for _, t := range w.threads {
		if t.park != nil {
			out = append(out, t)
		}
	}
	return out
}

// randMask picks which of the given point classes to arm.
func randMask(rng *rand.Rand, p float64, classes ...int64) int64 {
	m := int64(0)
	for _, c := range classes {
		if rng.Float64() < p {
			m |= 1 << uint(c)
		}
	}
	return m
}

// step performs one randomly chosen enabled operation; returns its label for the histogram.
func (w *ccWorld) step(rng *rand.Rand, nclosers, ncallers, nfail *int, pPark float64) (string, bool) {
	st := w.state()
	type cand struct {
		name string
		wt   int
		f    func() bool
	}
	var cs []cand
	if *nclosers < 3 {
		cs = append(cs, cand{"close", 5, func() bool { *nclosers++; return w.opCloser(randMask(rng, pPark, 1)) }})
	}
	if w.readerBusy == nil && st != 4 {
		cs = append(cs, cand{"callreq", 8, func() bool {
			id := w.nextInID
			r := rng.Intn(10)
			switch {
			case r == 0 && len(w.inflightIn) > 0: // duplicate of a call in flight: protocol error path
				for k := range w.inflightIn {
					if k < id {
						id = k
					}
				}
			case r == 1 && len(w.usedIn) > 0: // reuse of an id (finished or in flight)
				id = w.usedIn[rng.Intn(len(w.usedIn))]
			default:
				w.nextInID++
			}
			return w.opReader(id, randMask(rng, pPark, 2, 3))
		}})
	}
	if *ncallers < 3 {
		cs = append(cs, cand{"begincall", 5, func() bool { *ncallers++; return w.opCaller(randMask(rng, pPark, 4, 5)) }})
	}
	if len(w.inflightIn) > 0 {
		cs = append(cs, cand{"handler-done", 5, func() bool {
			ids := make([]int, 0)
			for k := range w.inflightIn {
				ids = append(ids, int(k))
			}
			sort.Ints(ids)
			id := uint32(ids[rng.Intn(len(ids))])
			randMask(rng, pPark, 1)
			if rng.Intn(4) == 0 && !w.failure && !w.expiredIn[id] {
				return w.opFinInCode(id, []int{3, 5, 6, 8}[rng.Intn(4)])
			}
			return w.opFinIn(id, 0)
		}})
	}
	if st != 4 && !w.failure && w.readerFree() {
		cs = append(cs, cand{"ping", 2, func() bool { return w.opPing() }})
	}
	if len(w.outCalls) > 0 && st != 4 && w.readerBusy == nil { // responses go through the (single) frame reader
		cs = append(cs, cand{"response", 5, func() bool {
			ids := make([]int, 0)
			for k := range w.outCalls {
				ids = append(ids, int(k))
			}
			sort.Ints(ids)
			return w.opFinOut(uint32(ids[rng.Intn(len(ids))]), randMask(rng, pPark, 1))
		}})
	}
	if *nfail < 1 {
		cs = append(cs, cand{"conn-error", 1, func() bool {
			*nfail++
			m := int64(0)
			if st == 1 { // parks deterministically in the checkExchanges of its own close()
				m = randMask(rng, pPark, 1)
			}
			return w.opFailer(m)
		}})
	}
	if w.relay {
		cs = append(cs, cand{"relay-admit", 3, func() bool { id := w.nextInID; w.nextInID++; return w.opRelayAdmit(id) }})
		if len(w.liveRelay) > 0 {
			cs = append(cs, cand{"relay-done", 4, func() bool {
				return w.opRelayDone(w.liveRelay[rng.Intn(len(w.liveRelay))], randMask(rng, pPark, 1))
			}})
		}
	}
	cs = append(cs, cand{"check", 1, func() bool { return w.opChecker(randMask(rng, pPark, 1)) }})
	if ps := w.parked(); len(ps) > 0 {
		cs = append(cs, cand{"resume", 6 + 3*len(ps), func() bool {
			t := ps[rng.Intn(len(ps))]
			var m int64
			switch t.kind {
			case 3:
				if t.park.Name == ptInCheck {
					m = randMask(rng, pPark, 3)
				}
			case 4:
				if t.park.Name == ptOutCheck {
					m = randMask(rng, pPark, 5)
				}
			}
			return w.resume(t, m)
		}})
	}
	tot := 0
	for _, c := range cs {
		tot += c.wt
	}
	r := rng.Intn(tot)
	for _, c := range cs {
		if r < c.wt {
			return c.name, c.f()
		}
		r -= c.wt
	}
	return "", true
}

// finish resumes every parked operation, completes every call and collects the final observables.
func (w *ccWorld) finish(rng *rand.Rand, complete bool) bool {
	for {
		ps := w.parked()
		if len(ps) == 0 {
			break
		}
		if !w.resume(ps[rng.Intn(len(ps))], 0) {
			return false
		}
	}
	if complete {
		for len(w.inflightIn) > 0 {
			ids := make([]int, 0)
			for k := range w.inflightIn {
				ids = append(ids, int(k))
			}
			sort.Ints(ids)
			if !w.opFinIn(uint32(ids[0]), 0) {
				return false
			}
		}
		for len(w.outCalls) > 0 && w.state() != 4 {
			ids := make([]int, 0)
			for k := range w.outCalls {
				ids = append(ids, int(k))
			}
			sort.Ints(ids)
			if !w.opFinOut(uint32(ids[0]), 0) {
				return false
			}
		}
		for len(w.liveRelay) > 0 {
			if !w.opRelayDone(w.liveRelay[0], 0) {
				return false
			}
		}
	}
	// all error frames must have reached the peer: a ping round trip while the connection is open,
	// the end of the stream once it is closed
	if w.state() == 1 {
		w.pingSeq++
		select {
		case <-w.peer.ping(0x7f000000 + w.pingSeq):
		case <-time.After(2 * time.Second):
			w.infeasible = true
			return false
		}
	} else if w.state() != 4 {
		// closing, calls still in flight: wait until the stream of error frames is quiet
		last, quiet := len(w.peer.errFrames()), time.Now()
		for time.Since(quiet) < 4*time.Millisecond {
			time.Sleep(300 * time.Microsecond)
			if n := len(w.peer.errFrames()); n != last {
				last, quiet = n, time.Now()
			}
		}
	}
	if w.state() == 4 {
		select {
		case <-w.peer.eof:
		case <-time.After(2 * time.Second):
			w.fail("the connection reached Closed but the peer did not see the end of the stream within 2s")
		}
	}
	// reaches closed: nothing in flight, Close issued => Closed
	o := tchannel.VerifC07Observe(w.conn)
	if o.State != 1 && o.Inbound == 0 && o.Outbound == 0 && o.Pending == 0 && o.State != 4 {
		w.fail(fmt.Sprintf("nothing is in flight (no exchange, nothing pending, every operation finished) after Close, but the connection stays in state %d", o.State))
	}
	// final observables: error frames in arrival order, outcome per operation
	errs := w.peer.errFrames()
	w.obs = append(w.obs, int64(len(errs)))
	for _, e := range errs {
		w.obs = append(w.obs, e[0], e[1])
	}
	w.obs = append(w.obs, int64(len(w.threads)))
	for _, t := range w.threads {
		switch t.kind {
		case 1:
			if t.closeErr == nil {
				t.outcome = [2]int64{50, 0}
			} else {
				t.outcome = [2]int64{51, 0}
			}
		case 2:
			t.outcome = [2]int64{60, 0}
		case 9:
			t.outcome = [2]int64{70, 0}
		}
		w.obs = append(w.obs, t.outcome[0], t.outcome[1])
	}
	return true
}

func engineConnClose(rng *rand.Rand, n int, tier string, o *Out) {
	infeasible := 0
	for c := 0; c < n; c++ {
		if o.fails >= 8 || infeasible >= 12 { // a broken implementation is established: do not wait for hundreds of timeouts
			break
		}
		relay := rng.Intn(4) == 0
		steps := 3 + rng.Intn(8)
		pPark := []float64{0.0, 0.5, 0.8}[rng.Intn(3)]
		complete := rng.Intn(4) != 0
		if tier == "thorough" {
			steps += rng.Intn(10)
		}
		w, err := newCCWorld(relay)
		if err != nil {
			o.Oracle("connclose", fmt.Sprintf("c%d", c), false, "setup", "harness: "+err.Error())
			continue
		}
		var labels []string
		nclosers, ncallers, nfail := 0, 0, 0
		ok := true
		// a directed prefix in part of the cases: the admission race (a call req between the state
		// check and the re-check while Close lands)
		switch rng.Intn(7) {
		case 5, 6:
			// V07: the OUTBOUND admission race with no inbound call in flight -- beginCall has passed its
			// state check (parked at outbound.afterStateCheck), Close runs to its end: the connection walks
			// on to Closed (nothing in flight) or InboundClosed (an earlier outbound call in flight) inside
			// that Close; then the call start resumes: it must fail at the re-check (outcome 22)
			if rng.Intn(2) == 0 {
				labels = append(labels, "D:begincall@checked|close|resume")
				ok = w.opCaller(1<<4) && w.opCloser(0)
				ncallers++
			} else {
				labels = append(labels, "D:outflight,begincall@checked|close|resume")
				ok = w.opCaller(0) && w.opCaller(1<<4) && w.opCloser(0)
				ncallers += 2
			}
			nclosers++
			if ok {
				for _, t := range w.parked() {
					if t.kind == 4 {
						ok = w.resume(t, 0)
						break
					}
				}
			}
		case 0:
			labels = append(labels, "D:callreq|close|resume")
			ok = w.opReader(w.nextInID, 1<<2) && w.opCloser(0)
			w.nextInID++
			nclosers++
		case 1:
			labels = append(labels, "D:inflight,callreq|close|resume")
			ok = w.opReader(w.nextInID, 0) && w.opReader(w.nextInID+1, 1<<uint(2+rng.Intn(2))) && w.opCloser(0)
			w.nextInID += 2
			nclosers++
		case 2:
			// the raced request is the ONLY exchange in flight: its own removal closes the connection
			labels = append(labels, "D:callreq@registered|close|resume")
			ok = w.opReader(w.nextInID, 1<<3) && w.opCloser(0)
			w.nextInID++
			nclosers++
			if ok && w.readerBusy != nil {
				ok = w.resume(w.readerBusy, 0)
			}
		}
		for i := 0; ok && i < steps && !w.infeasible; i++ {
			var l string
			l, ok = w.step(rng, &nclosers, &ncallers, &nfail, pPark)
			labels = append(labels, l)
		}
		if ok && !w.infeasible {
			ok = w.finish(rng, complete)
		}
		id := fmt.Sprintf("c%d", c)
		if !ok || w.infeasible {
			infeasible++
			last := "setup"
			if len(labels) > 0 {
				last = labels[len(labels)-1]
			}
			o.Hist("infeasible after " + last + fmt.Sprintf(" state=%d", w.state()))
			if os.Getenv("C07_TRACE") != "" {
				fmt.Fprintln(os.Stderr, "infeasible", id, labels, w.ops, "peer callreqs", w.peer.callReqs, "errs", w.peer.errFrames())
			}
			w.cleanup()
			continue
		}
		in := append([]int64{b2i(relay), w.nops}, w.ops...)
		verdict := ""
		if len(w.verdicts) > 0 {
			verdict = w.verdicts[0]
		}
		for _, l := range labels {
			o.Hist("op=" + l)
		}
		o.Hist(fmt.Sprintf("final-state=%d", w.states[len(w.states)-1]))
		o.Hist(fmt.Sprintf("relay=%v", relay))
		if c < 3 {
			o.Sample(map[string]interface{}{"sub": "connclose", "ops": labels, "relay": relay, "final_state": w.states[len(w.states)-1], "error_frames": w.peer.errFrames()})
		}
		o.Case("connclose", id, in, w.obs, len(labels) > 2, verdict)
		w.cleanup()
	}
	if (infeasible*5 > n && n >= 10) || infeasible >= 12 {
		o.Oracle("connclose", "infeasible", false, "infeasible", fmt.Sprintf("harness: %d of %d schedules could not be followed by the implementation", infeasible, n))
	}
}
