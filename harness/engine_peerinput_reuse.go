package main

import (
	"bytes"
	"fmt"
	"math/rand"
	"net"
	"strings"
	"sync"
	"time"
)

// peerinput, id re-use part (C03): "frames for unknown or DUPLICATE ids" over TIME.  A relay
// keeps an item per call id and, after a timeout or a failure, a tombstone that is collected
// by a timer (_relayTombTTL = 3s, a constant of relay.go) which deletes BY ID.  The grammar
// below re-uses the id of a call on the same connection
//
//	after the relay timed the call out / after an error frame / after a cancel /
//	while the first call is still in flight / after it completed / after it was declined,
//
// one to three times, with calls that complete, time out themselves, are never finished, or
// stay in flight; then it WAITS until every tombstone collection that the sequence can have
// scheduled has fired (legitimate traffic on another connection meanwhile), and probes:
// process alive, the attacked connection closed or answering a ping and serving a call with a
// fresh id, a fresh connection served.  Every sequence runs against its own child process
// (a crash is attributed to exactly one sequence) and all of them run concurrently with the
// other peerinput cases, so the 3s constant costs wall time only once.

const (
	c03rTombTTL  = 3 * time.Second        // _relayTombTTL
	c03rGCSlack  = 700 * time.Millisecond // waited beyond the collection time
	c03rLongTTL  = 9000                   // ms: in flight until after every collection of the sequence
	c03rParallel = 32
)

// first call: how the id gets "used"
const (
	c03rTimeout     = iota // hang, short ttl: the relay times it out (error frame), tombstone
	c03rTimeoutFrag        // first fragment only (more-fragments flag), short ttl: times out half-sent
	c03rPeerError          // hang; the peer sends an ERROR frame for the id
	c03rCancel             // hang; the peer sends a CANCEL frame for the id
	c03rInFlight           // hang with a ttl that expires during the sequence; re-use while in flight
	c03rCompleted          // echo, response awaited: the id is free again (control)
	c03rDeclined           // unknown service: the relay answers with an error frame, no item
	c03rManyTombs          // three short calls on a relay with RelayMaxTombs=1, all ids re-used
	c03rFirstKinds
)

var c03rFirstName = []string{"timed-out", "timed-out-half-sent", "error-frame-by-peer", "cancelled", "in-flight", "completed", "declined", "many-tombs"}

// re-using call
const (
	c03rHangLong  = iota // stays in flight beyond every collection
	c03rEcho             // completes at once (if accepted)
	c03rFragLong         // first fragment only, long ttl: in flight, never completed
	c03rHangShort        // times out itself (a second tombstone / collection)
	c03rSecondKinds
)

var c03rSecondName = []string{"hang-long", "echo", "half-sent-long", "hang-short"}

type c03rSeq struct {
	role   string // child role: relay | relayc (PropagateCancel) | relayt (RelayMaxTombs=1)
	id     uint32
	first  int
	ttl1   uint32 // ttl of the first call (ms)
	gap    time.Duration
	second []int
	ttl2   uint32 // ttl of a hang-short re-use
	csum   byte
	desc   string
}

// c03rGen: sequence k of a run.  The first c03rFirstKinds*2 sequences enumerate every first
// kind with the two re-uses that keep a call in flight across the collection; beyond that
// everything is drawn from rng.
func c03rGen(rng *rand.Rand, k int) *c03rSeq {
	s := &c03rSeq{role: "relay", id: uint32(10 + rng.Intn(100000)), csum: byte(pick(rng, 0, 1, 3))}
	directed := k < 2*c03rFirstKinds
	if directed {
		s.first = k % c03rFirstKinds
		s.second = []int{[]int{c03rHangLong, c03rFragLong}[k/c03rFirstKinds]}
		s.gap = time.Duration(pick(rng, 0, 20, 300)) * time.Millisecond
	} else if k == 2*c03rFirstKinds {
		// a duplicate of an in-flight id that would be answered at once if it were admitted
		s.first, s.second, s.gap = c03rInFlight, []int{c03rEcho}, time.Duration(pick(rng, 0, 20))*time.Millisecond
	} else {
		s.first = rng.Intn(c03rFirstKinds)
		for i, n := 0, 1+rng.Intn(3); i < n; i++ {
			s.second = append(s.second, rng.Intn(c03rSecondKinds))
		}
		s.gap = time.Duration(pick(rng, 0, 20, 300, 1500, 2400)) * time.Millisecond
	}
	s.ttl1 = uint32(pick(rng, 60, 100, 150))
	s.ttl2 = uint32(pick(rng, 100, 300))
	switch s.first {
	case c03rPeerError, c03rCancel:
		s.ttl1 = 1500
		if s.first == c03rCancel && (directed || rng.Intn(2) == 0) {
			s.role = "relayc"
		}
	case c03rInFlight:
		s.ttl1 = 900
		if s.gap > 300*time.Millisecond {
			s.gap = 300 * time.Millisecond
		}
	case c03rManyTombs:
		s.role = "relayt"
	}
	names := []string{}
	for _, x := range s.second {
		names = append(names, c03rSecondName[x])
	}
	s.desc = fmt.Sprintf("id re-use on a %s: connection sends call req id=%d (checksum type %d) that ends up %s (ttl %dms), after %v call req(s) with the SAME id: %s (hang-long/half-sent-long ttl %dms, hang-short ttl %dms), then waits %v past the last timeout",
		s.role, s.id, s.csum, c03rFirstName[s.first], s.ttl1, s.gap, strings.Join(names, "+"), c03rLongTTL, s.ttl2, c03rTombTTL+c03rGCSlack)
	return s
}

func c03rCallFrames(id uint32, service, method string, ttl uint32, csum byte, halfSent bool) [][]byte {
	hdr := rawCallReqHeader(ttl, zeroTracing, service, [][2]string{{"as", "raw"}, {"cn", "rawpeer"}})
	if halfSent {
		// two fragments, only the first (more-fragments flag set) is ever sent
		fr := buildRawCallFrames(true, id, hdr, csum, [3][]byte{[]byte(method), []byte("a2"), bytes.Repeat([]byte("z"), 300)}, 200)
		return fr[:1]
	}
	return buildRawCallFrames(true, id, hdr, csum, [3][]byte{[]byte(method), []byte("a2"), []byte("reuse")}, 65519)
}

// c03rConn: the raw connection with a reader goroutine that timestamps what the relay sends.
type c03rConn struct {
	conn   net.Conn
	mu     sync.Mutex
	errAt  map[uint32]time.Time // last error frame per id
	resAt  map[uint32]time.Time // last final call res per id
	pongAt map[uint32]time.Time
	closed bool
	wake   chan struct{}
}

func c03rDial(hp string) (*c03rConn, error) {
	conn, err := net.DialTimeout("tcp", hp, 2*time.Second)
	if err != nil {
		return nil, err
	}
	if _, err := rawClientHandshake(conn); err != nil {
		conn.Close()
		return nil, err
	}
	c := &c03rConn{conn: conn, errAt: map[uint32]time.Time{}, resAt: map[uint32]time.Time{}, pongAt: map[uint32]time.Time{}, wake: make(chan struct{}, 1)}
	go func() {
		for {
			f, err := readRawFrame(conn, time.Hour)
			c.mu.Lock()
			if err != nil {
				c.closed = true
			} else {
				switch {
				case f.Type == 0xff:
					c.errAt[f.ID] = time.Now()
				case (f.Type == 0x04 || f.Type == 0x14) && len(f.Payload) > 0 && f.Payload[0]&1 == 0:
					c.resAt[f.ID] = time.Now()
				case f.Type == 0xd1:
					c.pongAt[f.ID] = time.Now()
				}
			}
			c.mu.Unlock()
			select {
			case c.wake <- struct{}{}:
			default:
			}
			if err != nil {
				return
			}
		}
	}()
	return c, nil
}

// wait until cond (evaluated under the lock) holds, the connection is closed, or d elapsed
func (c *c03rConn) wait(d time.Duration, cond func() bool) bool {
	deadline := time.Now().Add(d)
	for {
		c.mu.Lock()
		ok, closed := cond(), c.closed
		c.mu.Unlock()
		if ok {
			return true
		}
		if closed || time.Now().After(deadline) {
			return false
		}
		select {
		case <-c.wake:
		case <-time.After(20 * time.Millisecond):
		}
	}
}

func (c *c03rConn) send(frames [][]byte) {
	for _, f := range frames {
		c.conn.SetWriteDeadline(time.Now().Add(2 * time.Second))
		if _, err := c.conn.Write(f); err != nil {
			return // closed by the relay: allowed
		}
	}
}

func (c *c03rConn) isClosed() bool {
	c.mu.Lock()
	defer c.mu.Unlock()
	return c.closed
}

// a legitimate call on a fresh connection; a failure is reported only if it reproduces 3/3
// (the host may be busy: many child processes run at the same time)
func c03rProbe(ch *child) string {
	v := ""
	for i := 0; i < 3; i++ {
		if v = probeFresh(ch.hp); v == "" || !ch.alive() {
			return v
		}
		time.Sleep(300 * time.Millisecond)
	}
	return v
}

func c03rDied(ch *child, s *c03rSeq, when string) string {
	time.Sleep(30 * time.Millisecond)
	return "[c03:process-died] the process hosting the relay exited " + when + " (" + s.desc + "): " + lastLines(ch.stderr.String())
}

// c03rRun executes one sequence against its own child; "" = the property held.
// The second result says what happened to the re-using call (histogram only).
func c03rRun(s *c03rSeq) (verdict string, outcome string) {
	ch, err := startChild(s.role)
	if err != nil {
		return "harness: " + err.Error(), "no-child"
	}
	defer ch.stop()
	c, err := c03rDial(ch.hp)
	if err != nil {
		return "valid handshake refused: " + err.Error(), "no-conn"
	}
	defer c.conn.Close()
	ids := []uint32{s.id}
	// ---- first use of the id(s)
	lastEnd := time.Now() // latest moment at which the relay can have entombed something
	bump := func(t time.Time) {
		if t.After(lastEnd) {
			lastEnd = t
		}
	}
	awaitErr := func(id uint32, d time.Duration) {
		if c.wait(d, func() bool { _, ok := c.errAt[id]; return ok }) {
			c.mu.Lock()
			bump(c.errAt[id])
			c.mu.Unlock()
		} else {
			bump(time.Now())
		}
	}
	firstPending := false // the first call has not ended yet when the re-use is sent
	firstSent := time.Now()
	switch s.first {
	case c03rTimeout:
		c.send(c03rCallFrames(s.id, "victim", "hang", s.ttl1, s.csum, false))
		awaitErr(s.id, time.Duration(s.ttl1)*time.Millisecond+2*time.Second)
	case c03rTimeoutFrag:
		c.send(c03rCallFrames(s.id, "victim", "echo", s.ttl1, s.csum, true))
		awaitErr(s.id, time.Duration(s.ttl1)*time.Millisecond+2*time.Second)
	case c03rPeerError:
		c.send(c03rCallFrames(s.id, "victim", "hang", s.ttl1, s.csum, false))
		c.send([][]byte{rawFrameBytes(0xff, s.id, rawErrorPayload(byte([]int{1, 2, 5, 0xff}[int(s.id)%4]), zeroTracing, "peer says no"))})
		firstPending = true
	case c03rCancel:
		c.send(c03rCallFrames(s.id, "victim", "hang", s.ttl1, s.csum, false))
		time.Sleep(30 * time.Millisecond)
		c.send([][]byte{rawFrameBytes(0xc0, s.id, append(append([]byte{0, 0, 0, 0}, zeroTracing...), str2("changed my mind")...))})
		time.Sleep(30 * time.Millisecond)
		bump(time.Now())
		firstPending = true
	case c03rInFlight:
		c.send(c03rCallFrames(s.id, "victim", "hang", s.ttl1, s.csum, false))
		firstPending = true
	case c03rCompleted:
		c.send(c03rCallFrames(s.id, "victim", "echo", 2000, s.csum, false))
		c.wait(2*time.Second, func() bool { _, ok := c.resAt[s.id]; return ok })
		c.mu.Lock()
		delete(c.resAt, s.id)
		c.mu.Unlock()
		bump(time.Now())
	case c03rDeclined:
		c.send(c03rCallFrames(s.id, "nosuchservice", "echo", 1000, s.csum, false))
		awaitErr(s.id, 2*time.Second)
	case c03rManyTombs:
		ids = []uint32{s.id, s.id + 1, s.id + 2}
		for _, id := range ids {
			c.send(c03rCallFrames(id, "victim", "hang", s.ttl1, s.csum, false))
		}
		for _, id := range ids {
			awaitErr(id, time.Duration(s.ttl1)*time.Millisecond+2*time.Second)
		}
	}
	if !ch.alive() {
		return c03rDied(ch, s, "during the first call"), "died"
	}
	c.mu.Lock()
	for _, id := range ids {
		delete(c.errAt, id)
	}
	c.mu.Unlock()
	// ---- the id is re-used
	time.Sleep(s.gap)
	for _, id := range ids {
		for _, kind := range s.second {
			switch kind {
			case c03rHangLong:
				c.send(c03rCallFrames(id, "victim", "hang", c03rLongTTL, s.csum, false))
			case c03rEcho:
				c.send(c03rCallFrames(id, "victim", "echo", 2000, s.csum, false))
			case c03rFragLong:
				c.send(c03rCallFrames(id, "victim", "echo", c03rLongTTL, s.csum, true))
			case c03rHangShort:
				c.send(c03rCallFrames(id, "victim", "hang", s.ttl2, s.csum, false))
				bump(time.Now().Add(time.Duration(s.ttl2) * time.Millisecond))
			}
			time.Sleep(15 * time.Millisecond)
		}
	}
	bump(time.Now())
	if firstPending {
		// the first call ends by its own timeout (unless the cancel / the re-use ended it)
		awaitErr(s.id, time.Duration(s.ttl1)*time.Millisecond+time.Second)
	}
	// ---- wait until every collection that may have been scheduled has fired; other
	// connections are served meanwhile
	for time.Now().Before(lastEnd.Add(c03rTombTTL + c03rGCSlack)) {
		if !ch.alive() {
			return c03rDied(ch, s, "while the tombstone of the first call was being collected"), "died"
		}
		c.mu.Lock()
		for _, id := range ids {
			if t, ok := c.errAt[id]; ok {
				bump(t) // a re-using call was answered by an error frame (e.g. its own timeout): its tombstone is collected later
			}
		}
		c.mu.Unlock()
		if v := c03rProbe(ch); v != "" {
			if !ch.alive() {
				return c03rDied(ch, s, "while the tombstone of the first call was being collected"), "died"
			}
			return "during '" + s.desc + "': " + v, "probe-failed"
		}
		time.Sleep(250 * time.Millisecond)
	}
	if !ch.alive() {
		return c03rDied(ch, s, "after the re-use"), "died"
	}
	c.mu.Lock()
	_, answered := c.resAt[s.id]
	_, refused := c.errAt[s.id]
	c.mu.Unlock()
	outcome = "dropped-or-pending"
	if answered {
		outcome = "served"
	} else if refused {
		outcome = "error-frame"
	}
	// a call req that duplicates the id of a call IN FLIGHT is not a new call: dropped, error
	// frame or connection closed -- never served.  Judged on the peer's own clock: a call res
	// for the id (the first call never answers) that arrived before the first call's ttl had
	// elapsed and before any error frame for the id.
	if firstPending && !(s.first == c03rCancel && s.role == "relayc") {
		c.mu.Lock()
		rt, rok := c.resAt[s.id]
		et, eok := c.errAt[s.id]
		c.mu.Unlock()
		if rok && rt.Before(firstSent.Add(time.Duration(s.ttl1)*time.Millisecond)) && !(eok && et.Before(rt)) {
			return "[c03:duplicate-id-served] a call req that re-uses the id of a call still in flight on the connection was relayed and answered with a call res instead of being dropped, refused or closing the connection (" + s.desc + ")", "served"
		}
	}
	// ---- probes: the attacked connection is closed, or answers a ping and serves a fresh id
	if !c.isClosed() {
		c.send([][]byte{rawFrameBytes(0xd0, 0xfffffff1, nil)})
		if !c.wait(4*time.Second, func() bool { _, ok := c.pongAt[0xfffffff1]; return ok }) && !c.isClosed() {
			if !ch.alive() {
				return c03rDied(ch, s, "after the re-use"), "died"
			}
			return "[c03:connection-wedged] after '" + s.desc + "' the connection is neither closed nor answering a ping within 4s", outcome
		}
	}
	if !c.isClosed() {
		fresh := s.id + 1000
		c.send(c03rCallFrames(fresh, "victim", "echo", 2000, s.csum, false))
		if !c.wait(5*time.Second, func() bool { _, ok := c.resAt[fresh]; return ok }) && !c.isClosed() {
			if !ch.alive() {
				return c03rDied(ch, s, "after the re-use"), "died"
			}
			return "[c03:connection-wedged] after '" + s.desc + "' the connection answers pings but a call with a fresh id is not served within 5s", outcome
		}
	} else {
		outcome += "+closed"
	}
	if v := c03rProbe(ch); v != "" {
		if !ch.alive() {
			return c03rDied(ch, s, "after the re-use"), "died"
		}
		return "after '" + s.desc + "': " + v, outcome
	}
	if !ch.alive() {
		return c03rDied(ch, s, "after the re-use"), "died"
	}
	return "", outcome
}

type c03rResult struct {
	s                *c03rSeq
	verdict, outcome string
}

// c03rStart generates the sequences of this run from rng (deterministic), runs them in the
// background, and returns a function that waits for them and reports the results in order.
func c03rStart(rng *rand.Rand, n int, tier string, o *Out) func() {
	count := 2*c03rFirstKinds + 4 + n/10
	if tier != "quick" {
		count = 2*c03rFirstKinds + n/15
	}
	sub := rand.New(rand.NewSource(rng.Int63()))
	seqs := make([]*c03rSeq, count)
	for k := range seqs {
		seqs[k] = c03rGen(sub, k)
	}
	results := make([]c03rResult, count)
	var wg sync.WaitGroup
	sem := make(chan struct{}, c03rParallel)
	for k := range seqs {
		wg.Add(1)
		go func(k int) {
			defer wg.Done()
			sem <- struct{}{}
			defer func() { <-sem }()
			v, out := c03rRun(seqs[k])
			if strings.HasPrefix(v, "harness:") || strings.HasPrefix(v, "valid handshake refused") {
				time.Sleep(200 * time.Millisecond) // an environment hiccup (fork / port) is retried once
				v, out = c03rRun(seqs[k])
			}
			results[k] = c03rResult{seqs[k], v, out}
		}(k)
	}
	// the forced two-reader schedule (engine_peerinput_race.go), once per run
	var raceVerdict, raceOutcome string
	wg.Add(1)
	go func() {
		defer wg.Done()
		raceVerdict, raceOutcome = c03xRun()
	}()
	return func() {
		wg.Wait()
		o.Hist("relay-reuse: forced race -> " + strings.SplitN(raceOutcome, ":", 2)[0])
		o.Oracle("peerinput-reuse", "race0", !strings.HasPrefix(raceOutcome, "infeasible"), "race "+raceOutcome, raceVerdict)
		for k, r := range results {
			o.Hist("relay-reuse: " + c03rFirstName[r.s.first] + " -> " + r.outcome)
			if k < 2 {
				o.Sample(map[string]interface{}{"sub": "peerinput-reuse", "sequence": r.s.desc, "outcome": r.outcome})
			}
			o.Oracle("peerinput-reuse", fmt.Sprintf("reuse%d", k), true, fmt.Sprint(k, r.s.desc, r.s.id, r.s.csum, r.s.ttl1, r.s.ttl2), r.verdict)
		}
	}
}
