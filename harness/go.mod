module verifharness

go 1.21

require (
	github.com/opentracing/opentracing-go v1.1.0
	github.com/uber/tchannel-go v0.0.0
	golang.org/x/net v0.14.0
)

require (
	github.com/davecgh/go-spew v1.1.1 // indirect
	github.com/pmezard/go-difflib v1.0.0 // indirect
	github.com/stretchr/testify v1.5.1 // indirect
	go.uber.org/atomic v1.6.0 // indirect
	go.uber.org/multierr v1.2.0 // indirect
	golang.org/x/sys v0.11.0 // indirect
	gopkg.in/yaml.v2 v2.4.0 // indirect
)

replace github.com/uber/tchannel-go => /repo
