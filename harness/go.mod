module verifharness

go 1.21

require (
	github.com/uber/tchannel-go v0.0.0
	golang.org/x/net v0.14.0
)

require (
	github.com/opentracing/opentracing-go v1.1.0 // indirect
	go.uber.org/atomic v1.6.0 // indirect
	go.uber.org/multierr v1.2.0 // indirect
	golang.org/x/sys v0.11.0 // indirect
)

replace github.com/uber/tchannel-go => /repo
