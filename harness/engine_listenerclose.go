package main

// Engine "listenerclose" (property C07): correspondence of Model/ListenerClose.v with the real
// tnet listener wrapper (tnet/listener.go).
//
// The wrapper is put around a scripted underlying net.Listener that behaves as the model
// assumes of the net package: an Accept that begins after Close fails at once; one that began
// before parks until the script lets it return -- a connection or an error, possibly after the
// underlying Close (the late accept the wrapper exists for).  Every Accept and Close call of the
// script runs in its own goroutine; the script decides the order in which they make progress.
// After every operation the engine waits for quiescence and observes the wrapper's refs field
// (overlay tnet.VerifC07ListenerRefs), the underlying closed flag and the status of every call;
// the extracted model (run_listenerclose) must predict the same numbers.
//
// Oracle (from the statement, not from the model): once a Close call has returned nil, no
// Accept call returns a connection; a Close call never returns nil while an Accept is inside
// the underlying listener; every Close call returns once refs is 0.

import (
	"errors"
	"fmt"
	"math/rand"
	"net"
	"sync"
	"time"

	"github.com/uber/tchannel-go/tnet"
)

type c07lRelease struct{ conn bool }

type c07lParked struct {
	release chan c07lRelease
	open    bool // the underlying listener was open when this Accept began
}

type c07lFake struct {
	mu      sync.Mutex
	closed  bool
	arrived chan *c07lParked
	closes  chan bool // one value per underlying Close call: true = it closed the listener
	peers   []net.Conn
}

var errC07lClosed = errors.New("use of closed network connection")

func (f *c07lFake) Accept() (net.Conn, error) {
	f.mu.Lock()
	closed := f.closed
	f.mu.Unlock()
	p := &c07lParked{release: make(chan c07lRelease, 1), open: !closed}
	f.arrived <- p
	if closed {
		return nil, errC07lClosed
	}
	r := <-p.release
	if !r.conn {
		return nil, errors.New("accept: scripted failure")
	}
	a, b := net.Pipe()
	f.mu.Lock()
	f.peers = append(f.peers, b)
	f.mu.Unlock()
	return a, nil
}

func (f *c07lFake) Close() error {
	f.mu.Lock()
	was := f.closed
	f.closed = true
	f.mu.Unlock()
	f.closes <- !was
	if was {
		return errC07lClosed
	}
	return nil
}

func (f *c07lFake) Addr() net.Addr { return &net.TCPAddr{IP: net.IPv4(127, 0, 0, 1), Port: 1} }

type c07lCall struct {
	isClose bool
	parked  *c07lParked // Accept: inside the underlying Accept
	underOK bool        // Close: its underlying Close call closed the listener
	done    chan struct{}
	conn    net.Conn
	err     error
	ret     bool // the call has been seen to return
}

// c07lWait waits for ch to be closed.
func c07lWait(ch chan struct{}, d time.Duration) bool {
	select {
	case <-ch:
		return true
	default:
	}
	t := time.NewTimer(d)
	defer t.Stop()
	select {
	case <-ch:
		return true
	case <-t.C:
		return false
	}
}

const c07lLong = 2 * time.Second

// listenerCloseCase runs one script; ops are (op, a) pairs as documented in Model/ListenerClose.v.
func listenerCloseCase(ops [][2]int64) (obs []int64, verdict string) {
	fake := &c07lFake{arrived: make(chan *c07lParked, 64), closes: make(chan bool, 64)}
	l := tnet.Wrap(fake)
	var calls []*c07lCall
	closeReturnedNil := false
	stuck := false
	bad := func(s string) {
		if verdict == "" {
			verdict = s
		}
	}
	// settle: every call that can return has returned; updates the ret flags.  Accepts first
	// (their deferred decRef runs before they return), then refs is stable and decides which
	// Close calls must return.
	settle := func() {
		for i, c := range calls {
			if !c.ret && !c.isClose && c.parked == nil {
				if c07lWait(c.done, c07lLong) {
					c.ret = true
				} else {
					stuck = true
					bad(fmt.Sprintf("Accept call %d has not returned 2s after the underlying Accept returned", i))
				}
			}
		}
		refs := tnet.VerifC07ListenerRefs(l)
		for i, c := range calls {
			if c.ret || !c.isClose {
				continue
			}
			switch {
			case !c.underOK || refs == 0:
				// the underlying Close failed (returned at once), or nothing is referenced
				if c07lWait(c.done, c07lLong) {
					c.ret = true
				} else {
					stuck = true
					bad(fmt.Sprintf("Close call %d has not returned within 2s (refs = %d, underlying Close ok = %v)", i, refs, c.underOK))
				}
			case c07lWait(c.done, time.Millisecond):
				c.ret = true // returned although refs > 0: the observation shows it
			}
		}
	}
	observe := func(code int64) {
		var parked, accConn, accErr, clBlocked, clNil, clErr int64
		for _, c := range calls {
			switch {
			case c.isClose && !c.ret:
				clBlocked++
			case c.isClose && c.err == nil:
				clNil++
			case c.isClose:
				clErr++
			case !c.ret:
				parked++
			case c.conn != nil:
				accConn++
			default:
				accErr++
			}
		}
		fake.mu.Lock()
		closed := fake.closed
		fake.mu.Unlock()
		obs = append(obs, code, int64(tnet.VerifC07ListenerRefs(l)), b2i(closed), parked, accConn, accErr, clBlocked, clNil, clErr)
	}
	for _, op := range ops {
		if stuck {
			break
		}
		code := int64(0)
		switch op[0] {
		case 0: // Accept in a new goroutine, until parked in (or failed by) the underlying listener
			c := &c07lCall{done: make(chan struct{})}
			calls = append(calls, c)
			go func() {
				c.conn, c.err = l.Accept()
				close(c.done)
			}()
			select {
			case p := <-fake.arrived:
				if p.open {
					c.parked = p
				}
			case <-time.After(c07lLong):
				stuck = true
				bad("Accept did not reach the underlying listener within 2s")
			}
		case 1, 2: // the parked Accept a returns (1: a connection, 2: an error)
			a := int(op[1])
			if a < 0 || a >= len(calls) || calls[a].isClose || calls[a].parked == nil {
				code = -1
				break
			}
			c := calls[a]
			if op[0] == 1 && closeReturnedNil {
				// the script hands out a connection although a Close already returned: only a
				// broken wrapper lets us get here (Close returned with an Accept in flight)
				bad(fmt.Sprintf("Accept call %d returns a connection after a Close call had returned nil", a))
			}
			c.parked.release <- c07lRelease{conn: op[0] == 1}
			c.parked = nil
		case 3: // Close in a new goroutine
			c := &c07lCall{isClose: true, done: make(chan struct{})}
			calls = append(calls, c)
			go func() {
				c.err = l.Close()
				close(c.done)
			}()
			select {
			case ok := <-fake.closes:
				c.underOK = ok
			case <-time.After(c07lLong):
				stuck = true
				bad("Close did not reach the underlying listener within 2s")
			}
		case 4: // close an accepted connection
			a := int(op[1])
			if a >= 0 && a < len(calls) && calls[a].ret && calls[a].conn != nil {
				calls[a].conn.Close()
			}
		}
		settle()
		// statement oracle on what has returned so far
		inFlight := 0
		for _, c := range calls {
			if !c.isClose && !c.ret {
				inFlight++
			}
		}
		for i, c := range calls {
			if c.isClose && c.ret && c.err == nil {
				if !closeReturnedNil && inFlight > 0 {
					bad(fmt.Sprintf("Close call %d returned nil while %d Accept call(s) were still inside the underlying listener", i, inFlight))
				}
				closeReturnedNil = true
			}
		}
		observe(code)
	}
	// clean up: fail whatever is still parked, close the listener, close the pipes
	for _, c := range calls {
		if !c.isClose && c.parked != nil {
			c.parked.release <- c07lRelease{}
			c.parked = nil
		}
	}
	go l.Close()
	wait := c07lLong
	if stuck {
		wait = 20 * time.Millisecond // a call that is stuck stays stuck (its goroutine is abandoned)
	}
	for _, c := range calls {
		c07lWait(c.done, wait)
		if c.conn != nil {
			c.conn.Close()
		}
	}
	fake.mu.Lock()
	for _, p := range fake.peers {
		p.Close()
	}
	fake.mu.Unlock()
	return obs, verdict
}

func engineListenerClose(rng *rand.Rand, n int, tier string, o *Out) {
	for cs := 0; cs < n; cs++ {
		if o.fails >= 8 {
			break
		}
		nops := 3 + rng.Intn(10)
		if tier == "thorough" {
			nops = 3 + rng.Intn(24)
		}
		var ops [][2]int64
		ncalls := 0
		var parked []int // script-side guess of the parked accepts (only to bias the generator)
		closedGuess := false
		naccept, nclose, late := 0, 0, 0
		for len(ops) < nops {
			r := rng.Intn(100)
			if len(ops) < 2 && r >= 60 {
				r = rng.Intn(60) // start with Accept calls (and their returns) more often than with Close
			}
			switch {
			case r < 35:
				ops = append(ops, [2]int64{0, 0})
				if !closedGuess {
					parked = append(parked, ncalls)
				}
				ncalls++
				naccept++
			case r < 60 && len(parked) > 0:
				i := rng.Intn(len(parked))
				kind := int64(1 + rng.Intn(2))
				if closedGuess && kind == 1 {
					late++
				}
				ops = append(ops, [2]int64{kind, int64(parked[i])})
				parked = append(parked[:i], parked[i+1:]...)
			case r >= 70 && r < 85:
				ops = append(ops, [2]int64{3, 0})
				ncalls++
				nclose++
				closedGuess = true
			case r < 92 && ncalls > 0:
				// any thread id, also ones that are not parked accepts (the model answers -1)
				ops = append(ops, [2]int64{int64(1 + rng.Intn(2)), int64(rng.Intn(ncalls + 1))})
				// keep the guess consistent
				a := int(ops[len(ops)-1][1])
				for i, p := range parked {
					if p == a {
						parked = append(parked[:i], parked[i+1:]...)
						break
					}
				}
			case ncalls > 0:
				ops = append(ops, [2]int64{4, int64(rng.Intn(ncalls))})
			}
		}
		in := []int64{int64(len(ops))}
		for _, op := range ops {
			in = append(in, op[0], op[1])
		}
		obs, verdict := listenerCloseCase(ops)
		o.Hist(fmt.Sprintf("accepts=%d", naccept))
		o.Hist(fmt.Sprintf("closes=%d", nclose))
		if late > 0 {
			o.Hist("connection-after-underlying-close")
		}
		if cs < 2 {
			o.Sample(map[string]interface{}{"sub": "listenerclose", "ops": ops, "obs": obs})
		}
		o.Case("listenerclose", fmt.Sprintf("l%d", cs), in, obs, naccept > 0 && nclose > 0, verdict)
	}
}

func init() { engines["listenerclose"] = engineListenerClose }
