package main

import (
	"bytes"
	"fmt"
	"math/rand"
	"net"
	"strings"
	"sync"
	"sync/atomic"
	"time"

	tchannel "github.com/uber/tchannel-go"
	"github.com/uber/tchannel-go/raw"
	"github.com/uber/tchannel-go/relay"
	"golang.org/x/net/context"
)

// relayslow (C08, clauses b and c: "the caller receives exactly the response or error content the
// destination / relay produced", "ids are remapped so that calls never collide"): WHICH ID the
// relay uses when a call cannot be forwarded because the DESTINATION connection is stalled.
//
//   client --(one connection)--> relay --> "healthy"  (answers; can hold a call until released)
//                                      \-> "slow"     (the relay's connection to it goes through a
//                                                      Dialer-wrapped net.Conn whose Write parks)
//
// Per case: the relay's writer to "slow" parks in Write and the send queue (SendBufferSize 2-6)
// is filled with pings up to `free` free slots.  The id counters of the caller's connection and
// of the stalled connection are SHIFTED APART (Connection.NextMessageID on either side) and lined
// up so that, depending on the kind of the case,
//   collide   the id of a second, healthy in-flight call V of the same caller equals the id the
//             relay allocates for call M on the stalled connection,
//   apart     the destination id of M is neither V's nor M's caller-side id,
//   lockstep  M's destination id equals M's own id (the only situation the older engines produced).
// V (to "healthy", held by its handler) is started, then M (to "slow"):
//   - forwarded as is, or re-fragmented because the relay host appends 1-3 pairs of 60000 bytes
//     to arg2 (fragmentingSend / relayFragmentSender, 1-4 frames), and/or followed by 1-2 further
//     request frames of the client (arg3 of 70000 / 140000 bytes);
//   - frame number free+1 of M does not fit the queue (the first frame, re-fragmented frame n, or
//     a continuation frame).
// Oracle (from the statement): M ends promptly with the RELAY's error relay-dest-conn-slow (not
// with a timeout, not with a response), V is still in flight when M has ended and then gets
// exactly the response its destination produced; exactly the free frames of M were queued.
// Correspondence (sub relayslow, Model/RelayErrId.v run_relayslow over the relay bookkeeping
// model): error code per caller-side id, frames queued on the stalled connection, Failed / End
// callbacks of both calls.
// A failing case is re-run twice in a fresh world; only 3 out of 3 count (timing).

func init() { engines["relayslow"] = engineRelaySlow }

// ---------------------------------------------------------------- relay host (spy, appending)

type sloCall struct {
	service string
	peer    *tchannel.Peer
	mu      sync.Mutex
	failed  []string
	ended   int
}

func (c *sloCall) Destination() (*tchannel.Peer, bool) { return c.peer, c.peer != nil }
func (c *sloCall) SentBytes(uint16)                    {}
func (c *sloCall) ReceivedBytes(uint16)                {}
func (c *sloCall) CallResponse(relay.RespFrame)        {}
func (c *sloCall) Succeeded()                          {}
func (c *sloCall) Failed(r string)                     { c.mu.Lock(); c.failed = append(c.failed, r); c.mu.Unlock() }
func (c *sloCall) End()                                { c.mu.Lock(); c.ended++; c.mu.Unlock() }

type sloHost struct {
	mu      sync.Mutex
	ch      *tchannel.Channel
	dests   map[string]string
	appends [][2][]byte // appended to arg2 of calls for service "slow"
	calls   []*sloCall
}

func (h *sloHost) SetChannel(ch *tchannel.Channel) { h.ch = ch }
func (h *sloHost) Start(cf relay.CallFrame, _ *relay.Conn) (tchannel.RelayCall, error) {
	h.mu.Lock()
	defer h.mu.Unlock()
	svc := string(cf.Service())
	c := &sloCall{service: svc}
	if hp, ok := h.dests[svc]; ok {
		c.peer = h.ch.RootPeers().GetOrAdd(hp)
	}
	if svc == "slow" {
		for _, kv := range h.appends {
			cf.Arg2Append(kv[0], kv[1])
		}
	}
	h.calls = append(h.calls, c)
	return c, nil
}

func (h *sloHost) setAppends(a [][2][]byte) { h.mu.Lock(); h.appends = a; h.mu.Unlock() }
func (h *sloHost) mark() int                { h.mu.Lock(); defer h.mu.Unlock(); return len(h.calls) }

// callbacks of the calls started after mark, per service: reason code of the first Failed, number of End
func (h *sloHost) since(mark int, svc string) (failed int64, ended int64, n int) {
	h.mu.Lock()
	defer h.mu.Unlock()
	for _, c := range h.calls[mark:] {
		if c.service != svc {
			continue
		}
		n++
		c.mu.Lock()
		if len(c.failed) > 0 && failed == 0 {
			failed = sloReason(c.failed[0])
		}
		ended += int64(c.ended)
		c.mu.Unlock()
	}
	return
}

// the reason codes of Model/RelayItems.v
func sloReason(s string) int64 {
	switch s {
	case "relay-dest-conn-slow":
		return 9
	case "relay-source-conn-slow":
		return 10
	case "relay-not-found":
		return 11
	case "relay-arg2-modify-failed":
		return 12
	case "timeout":
		return 102
	}
	return 99
}

// ---------------------------------------------------------------- world

type sloWorld struct {
	healthy, slow, rly, client *tchannel.Channel
	host                       *sloHost
	gate                       *gapGate
	arrived                    chan string
	release                    chan struct{}
	slowConn, clientConn       *tchannel.Connection
	slowHP, relayHP            string
	pings                      sync.WaitGroup
	pingCancel                 []context.CancelFunc
	released                   int32
}

func sloEcho(w *sloWorld, hold bool) tchannel.Handler {
	return raw.Wrap(sloHandler{w, hold})
}

type sloHandler struct {
	w    *sloWorld
	hold bool
}

func (h sloHandler) Handle(ctx context.Context, args *raw.Args) (*raw.Res, error) {
	if h.hold && bytes.HasPrefix(args.Arg3, []byte("hold")) {
		h.w.arrived <- string(args.Arg3)
		select {
		case <-h.w.release:
		case <-time.After(20 * time.Second):
		}
	}
	return &raw.Res{Arg2: args.Arg2, Arg3: append([]byte("resp:"), args.Arg3...)}, nil
}
func (h sloHandler) OnError(ctx context.Context, err error) {}

func newSloWorld(sendBuf int) (*sloWorld, error) {
	w := &sloWorld{host: &sloHost{dests: map[string]string{}}, gate: &gapGate{}, arrived: make(chan string, 8), release: make(chan struct{})}
	mk := func(name string, opts *tchannel.ChannelOptions, listen bool) (*tchannel.Channel, error) {
		ch, err := tchannel.NewChannel(name, opts)
		if err != nil {
			return nil, err
		}
		if listen {
			if err := ch.ListenAndServe("127.0.0.1:0"); err != nil {
				return ch, err
			}
		}
		return ch, nil
	}
	var err error
	if w.healthy, err = mk("healthy", nil, true); err != nil {
		return w, err
	}
	w.healthy.Register(sloEcho(w, true), "echo")
	if w.slow, err = mk("slow", nil, true); err != nil {
		return w, err
	}
	w.slow.Register(sloEcho(w, false), "echo")
	w.slowHP = w.slow.PeerInfo().HostPort
	w.host.dests["healthy"] = w.healthy.PeerInfo().HostPort
	w.host.dests["slow"] = w.slowHP
	if w.rly, err = mk("slo-relay", &tchannel.ChannelOptions{
		RelayHost:                w.host,
		DefaultConnectionOptions: tchannel.ConnectionOptions{SendBufferSize: sendBuf},
		Dialer: func(ctx context.Context, network, hostPort string) (net.Conn, error) {
			var d net.Dialer
			c, err := d.DialContext(ctx, network, hostPort)
			if err != nil || hostPort != w.slowHP {
				return c, err
			}
			return &gapConn{Conn: c, g: w.gate}, nil
		},
	}, true); err != nil {
		return w, err
	}
	w.relayHP = w.rly.PeerInfo().HostPort
	if w.client, err = mk("slo-client", nil, false); err != nil {
		return w, err
	}
	ctx, cancel := tchannel.NewContext(3 * time.Second)
	defer cancel()
	if w.slowConn, err = w.rly.RootPeers().GetOrAdd(w.slowHP).GetConnection(ctx); err != nil {
		return w, err
	}
	if _, err = w.rly.RootPeers().GetOrAdd(w.host.dests["healthy"]).GetConnection(ctx); err != nil {
		return w, err
	}
	if w.clientConn, err = w.client.Peers().GetOrAdd(w.relayHP).GetConnection(ctx); err != nil {
		return w, err
	}
	return w, nil
}

func (w *sloWorld) releaseHeld() {
	if atomic.CompareAndSwapInt32(&w.released, 0, 1) {
		close(w.release)
	}
}

func (w *sloWorld) close() {
	w.releaseHeld()
	w.gate.release()
	for _, c := range w.pingCancel {
		c()
	}
	w.pings.Wait()
	for _, ch := range []*tchannel.Channel{w.client, w.rly, w.healthy, w.slow} {
		if ch != nil {
			ch.Close()
		}
	}
}

// the relay's connection to "slow": frames waiting in its send queue, capacity
func (w *sloWorld) slowQueue() (queued, capacity int, ok bool) {
	st := w.rly.IntrospectState(&tchannel.IntrospectionOptions{})
	p, found := st.RootPeers[w.slowHP]
	if !found || len(p.OutboundConnections) != 1 {
		return 0, 0, false
	}
	c := p.OutboundConnections[0]
	return c.SendChQueued, c.SendChCapacity, true
}

// relay items of the caller's connection (outbound table of its relayer): id -> (remapID, tomb)
func (w *sloWorld) callerItems() map[uint32][2]int64 {
	st := w.rly.IntrospectState(&tchannel.IntrospectionOptions{IncludeTombstones: true})
	res := map[uint32][2]int64{}
	for _, p := range st.RootPeers {
		for _, c := range p.InboundConnections {
			for _, it := range c.Relayer.OutboundItems.Items {
				res[it.ID] = [2]int64{int64(it.RemapID), b2i(it.Tomb)}
			}
		}
	}
	return res
}

func (w *sloWorld) call(timeout time.Duration, svc string, arg2, arg3 []byte) ([]byte, []byte, error) {
	ctx, cancel := tchannel.NewContextBuilder(timeout).SetFormat(tchannel.Thrift).Build()
	defer cancel()
	r2, r3, _, err := raw.Call(ctx, w.client, w.relayHP, svc, "echo", arg2, arg3)
	return r2, r3, err
}

// one more ping frame into the stalled connection's queue
func (w *sloWorld) pingIntoQueue() {
	ctx, cancel := tchannel.NewContext(15 * time.Second)
	w.pingCancel = append(w.pingCancel, cancel)
	w.pings.Add(1)
	go func() {
		defer w.pings.Done()
		w.rly.Ping(ctx, w.slowHP) // the peer has exactly one connection: the stalled one
	}()
}

// ---------------------------------------------------------------- one case

type sloPlan struct {
	sendBuf  int
	kind     int // 0 collide, 1 apart, 2 lockstep
	appended int // pairs of 60000 bytes appended by the relay host
	conts    int // 0-2: arg3 of the request spans this many further frames
	free     int // free slots of the stalled queue when M starts
	shiftC   int // pre-shifts of the two id counters
	shiftD   int
	extra    int // ids skipped between V and M on the caller's connection
	warm     int // warm-up calls through the append path
}

func (p *sloPlan) String() string {
	return fmt.Sprintf("send queue %d with %d free slot(s), ids %s (caller counter +%d, destination counter +%d, %d id(s) between V and M), relay host appends %d x 60000 bytes, request has %d continuation frame(s)",
		p.sendBuf, p.free, []string{"COLLIDE (V's id = M's destination id)", "apart", "lock-step (M's id = its destination id)"}[p.kind],
		p.shiftC, p.shiftD, p.extra, p.appended, p.conts)
}

func genSloPlan(rng *rand.Rand, c int) *sloPlan {
	p := &sloPlan{sendBuf: 2 + rng.Intn(5)}
	p.kind = []int{0, 0, 0, 1, 1, 2}[c%6]
	switch rng.Intn(4) {
	case 0: // plain forward
	case 1, 2:
		p.appended = 1 + rng.Intn(3)
	case 3:
		p.appended = rng.Intn(3)
		p.conts = 1 + rng.Intn(2)
	}
	if c%7 == 3 {
		p.conts = 1 + rng.Intn(2)
	}
	// lower bound of the number of frames M puts on the destination connection
	nre := 1
	if p.appended > 0 {
		nre = (p.appended*60000 + 65534) / 65535
	}
	total := nre + p.conts
	p.free = rng.Intn(imin(p.sendBuf, total-1) + 1)
	if rng.Intn(3) == 0 {
		p.free = imin(p.sendBuf, total-1) // the LAST frame of the lower bound does not fit
	}
	p.shiftC, p.shiftD = rng.Intn(40), rng.Intn(40)
	if p.kind != 0 {
		p.extra = rng.Intn(3)
	}
	p.warm = rng.Intn(2)
	return p
}

type sloResult struct {
	infeasible string
	verdict    string
	in, obs    []int64
}

func sloErrCode(err error) int64 {
	if err == nil {
		return 0
	}
	return int64(tchannel.GetSystemErrorCode(err))
}

func runSloCase(p *sloPlan, seed int64) (res sloResult) {
	rng := rand.New(rand.NewSource(seed))
	w, err := newSloWorld(p.sendBuf)
	if w != nil {
		defer w.close()
	}
	if err != nil {
		res.infeasible = "setup failed: " + err.Error()
		return
	}
	arg2 := kvBuffer([][2]string{{"k", randBytes(rng, 1+rng.Intn(20))}})
	var app [][2][]byte
	var appStr [][2]string
	for i := 0; i < p.appended; i++ {
		k, v := fmt.Sprintf("relay-key-%d", i), randBytes(rng, 60000)
		app = append(app, [2][]byte{[]byte(k), []byte(v)})
		appStr = append(appStr, [2]string{k, v})
	}
	// warm-up through both destinations (the append path is live: the destination sees the pairs)
	for i := 0; i < 1+p.warm; i++ {
		if _, r3, err := w.call(3*time.Second, "healthy", arg2, []byte("warm")); err != nil || string(r3) != "resp:warm" {
			res.infeasible = fmt.Sprintf("warm-up call to healthy failed: %v", err)
			return
		}
	}
	w.host.setAppends([][2][]byte{{[]byte("wk"), []byte("wv")}})
	if r2, _, err := w.call(3*time.Second, "slow", arg2, []byte("warm")); err != nil {
		res.infeasible = fmt.Sprintf("warm-up call to slow failed: %v", err)
		return
	} else if pairs, ok := parseKVBuffer(r2); !ok || len(pairs) != 2 || pairs[1] != [2]string{"wk", "wv"} {
		res.verdict = fmt.Sprintf("warm-up call through the appending relay: the destination saw %d arg2 pairs (well-formed %v), want the original pair followed by the appended one", len(pairs), ok)
		return
	}
	w.host.setAppends(app)

	// stall the relay's writer to "slow": one frame parks in Write, then the queue is filled
	q0, capc, ok := w.slowQueue()
	if !ok || capc != p.sendBuf || q0 != 0 {
		res.infeasible = fmt.Sprintf("stalled connection not found / queue not empty (%d of %d)", q0, capc)
		return
	}
	w.gate.stall()
	w.pingIntoQueue()
	if !gapWaitFor(3*time.Second, func() bool { return atomic.LoadInt32(&w.gate.parked) == 1 }) {
		res.infeasible = "the writer did not park"
		return
	}
	for i := 0; i < p.sendBuf-p.free; i++ {
		w.pingIntoQueue()
		want := i + 1
		if !gapWaitFor(3*time.Second, func() bool { q, _, _ := w.slowQueue(); return q == want }) {
			res.infeasible = "the stalled queue did not fill"
			return
		}
	}

	// shift the two id spaces apart, then line them up as the kind of the case wants
	for i := 0; i < p.shiftC; i++ {
		w.clientConn.NextMessageID()
	}
	for i := 0; i < p.shiftD; i++ {
		w.slowConn.NextMessageID()
	}
	curC, curD := w.clientConn.NextMessageID(), w.slowConn.NextMessageID()
	// V gets curC+1, M gets curC+2+extra, M's destination id is curD+1
	switch p.kind {
	case 0: // V's id = M's destination id
		for curC < curD {
			curC = w.clientConn.NextMessageID()
		}
		for curD < curC {
			curD = w.slowConn.NextMessageID()
		}
	case 1: // M's destination id is neither V's nor M's id
		for curD+1 == curC+1 || curD+1 == curC+2+uint32(p.extra) {
			curD = w.slowConn.NextMessageID()
		}
	case 2: // M's id = M's destination id
		for curC+2+uint32(p.extra) < curD+1 {
			curC = w.clientConn.NextMessageID()
		}
		for curD+1 < curC+2+uint32(p.extra) {
			curD = w.slowConn.NextMessageID()
		}
	}
	vid, mid, did := curC+1, curC+2+uint32(p.extra), curD+1
	nre := 0
	if p.appended > 0 {
		nre = (p.appended*60000 + 65534) / 65535
	}
	res.in = []int64{30000, int64(vid), int64(mid), int64(did), int64(nre), int64(p.conts), int64(p.free)}

	mark := w.host.mark()
	type outcome struct {
		arg3 []byte
		err  error
	}
	vDone := make(chan outcome, 1)
	vArg3 := []byte("hold-" + randBytes(rng, 12))
	go func() {
		_, r3, err := w.call(15*time.Second, "healthy", arg2, vArg3)
		vDone <- outcome{r3, err}
	}()
	select {
	case <-w.arrived:
	case <-time.After(5 * time.Second):
		res.infeasible = "healthy never received call V"
		return
	}
	for i := 0; i < p.extra; i++ {
		w.clientConn.NextMessageID()
	}
	qBefore, _, _ := w.slowQueue()

	// M: frame number free+1 does not fit the stalled queue
	mArg3 := []byte("M-" + randBytes(rng, 8+p.conts*70000))
	const mDeadline = 2500 * time.Millisecond
	t0 := time.Now()
	_, mR3, mErr := w.call(mDeadline, "slow", arg2, mArg3)
	mTook := time.Since(t0)

	// the relay has handled M's failing frame: its callbacks and tables are final
	gapWaitFor(time.Second, func() bool { _, e, _ := w.host.since(mark, "slow"); return e > 0 })
	qAfter, _, _ := w.slowQueue()
	fM, eM, nM := w.host.since(mark, "slow")
	fV, eV, _ := w.host.since(mark, "healthy")
	items := w.callerItems()

	var vEarly *outcome
	select {
	case v := <-vDone:
		vEarly = &v
	default:
	}
	w.releaseHeld()
	var v outcome
	if vEarly != nil {
		v = *vEarly
	} else {
		select {
		case v = <-vDone:
		case <-time.After(10 * time.Second):
			v = outcome{nil, fmt.Errorf("call V did not complete within 10 s after its handler was released")}
		}
	}
	errV := int64(0)
	if vEarly != nil {
		errV = sloErrCode(vEarly.err)
	}
	res.obs = []int64{errV, sloErrCode(mErr), int64(qAfter - qBefore), fM, eM, fV, eV}

	// ---- oracle (from the statement)
	var bad []string
	if itM, ok := items[mid]; nM != 1 {
		bad = append(bad, fmt.Sprintf("the relay host saw %d calls for slow", nM))
	} else if ok && uint32(itM[0]) != did {
		res.infeasible = fmt.Sprintf("ids not lined up: M (id %d) was given destination id %d, planned %d", mid, itM[0], did)
		return
	}
	switch {
	case mErr == nil:
		bad = append(bad, fmt.Sprintf("call M (id %d, destination id %d) to the STALLED destination returned a response (%d bytes of arg3)", mid, did, len(mR3)))
	case !strings.Contains(mErr.Error(), "relay-dest-conn-slow") || tchannel.GetSystemErrorCode(mErr) != tchannel.ErrCodeUnexpected:
		bad = append(bad, fmt.Sprintf("call M (id %d on the caller's connection, destination id %d) must be failed by the relay with relay-dest-conn-slow as soon as its frame %d does not fit the stalled destination's send queue; it ended after %v with: %v",
			mid, did, p.free+1, mTook.Round(time.Millisecond), mErr))
	case mTook > mDeadline*3/4:
		bad = append(bad, fmt.Sprintf("call M got the relay's error only after %v (deadline %v)", mTook.Round(time.Millisecond), mDeadline))
	}
	if vEarly != nil {
		bad = append(bad, fmt.Sprintf("the caller's OTHER call V (id %d, healthy destination, handler still holding it) ended when M (destination id %d) could not be queued: arg3=%q err=%v",
			vid, did, string(vEarly.arg3), vEarly.err))
	} else if v.err != nil || !bytes.Equal(v.arg3, append([]byte("resp:"), vArg3...)) {
		bad = append(bad, fmt.Sprintf("call V (id %d) did not get the response its destination produced: %d bytes, err=%v", vid, len(v.arg3), v.err))
	}
	if qAfter-qBefore != p.free {
		bad = append(bad, fmt.Sprintf("%d frames of M were queued on the stalled connection, %d slots were free", qAfter-qBefore, p.free))
	}
	if len(bad) > 0 {
		res.verdict = strings.Join(bad, "; ") + " [" + p.String() + "]"
	}
	return
}

func engineRelaySlow(rng *rand.Rand, n int, tier string, o *Out) {
	confirmed := 0
	for c := 0; c < n; c++ {
		p := genSloPlan(rng, c)
		seed := rng.Int63()
		id := fmt.Sprintf("rs%d", c)
		if confirmed >= 3 {
			// three failing inputs, each reproduced 3 out of 3: enough evidence, the rest of the run
			// would only wait for more deadlines (the plan and seed are still drawn: same stream)
			o.Hist("skipped after 3 confirmed failures")
			continue
		}
		var res sloResult
		for attempt := 0; attempt < 3; attempt++ {
			res = runSloCase(p, seed)
			if res.infeasible != "" {
				continue
			}
			if res.verdict == "" {
				break
			}
		}
		if res.infeasible != "" {
			o.Hist("infeasible: " + strings.SplitN(res.infeasible, ":", 2)[0])
			o.Oracle("relayslow", id, false, id, "")
			continue
		}
		o.Hist(fmt.Sprintf("ids=%s appended=%d conts=%d fail-at-frame=%d", []string{"collide", "apart", "lockstep"}[p.kind], p.appended, p.conts, imin(p.free+1, 4)))
		if c < 2 {
			o.Sample(map[string]interface{}{"sub": "relayslow", "plan": p.String(), "model_input": res.in, "observed": res.obs})
		}
		if res.verdict != "" {
			confirmed++
		}
		o.Case("relayslow", id, res.in, res.obs, true, res.verdict)
	}
}
