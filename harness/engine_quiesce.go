package main

// Property C11 -- after any history a channel returns to a clean quiescent state.
// Engine "quiesce": generated workloads and fault histories on real channels (client, server,
// optional relay, raw peers speaking valid and malformed protocol, sockets that fail, stall or
// are cut) followed by quiescence; the oracle is written from the property statement:
//   while the channels are still open:  no message exchanges (exchanges and expiredExchanges of
//     both sets of every connection), no relay items, no pending relay calls, and -- after the
//     tombstone period -- no tombstones; no fully closed connection in the channel's map or in
//     any peer list;
//   after closing every channel: every channel reports ChannelClosed and no goroutine with a
//     library frame remains.
// Timing: every condition is polled for up to 2 s before it is reported.

import (
	"fmt"
	"math/rand"
	"net"
	"sort"
	"strings"
	"sync"
	"time"

	tchannel "github.com/uber/tchannel-go"
	"github.com/uber/tchannel-go/relay/relaytest"
	"golang.org/x/net/context"
)

func init() { engines["quiesce"] = engineQuiesce }

type c11World struct {
	name     string
	socks    *c11Sockets
	chans    []*tchannel.Channel
	client   *tchannel.Channel
	server   *tchannel.Channel
	relay    *tchannel.Channel
	target   string
	conns    map[*tchannel.Connection]*tchannel.Channel
	connsMu  sync.Mutex
	raws     []net.Conn
	rawLns   []net.Listener
	rawMu    sync.Mutex
	wg       sync.WaitGroup
	ops      []string
	baseline map[int]bool
	tombs    bool // relay tombstones are expected: the tombstone period must pass first
	lastOp   time.Time
	health   bool
	sites    *c11Sites
	// keepStall: a stalled socket stays stalled while the client channel closes (the peer is
	// alive but never reads again)
	keepStall bool
}

func (w *c11World) sampleConns() {
	w.connsMu.Lock()
	defer w.connsMu.Unlock()
	for _, ch := range w.chans {
		for _, c := range tchannel.VerifC11Conns(ch) {
			w.conns[c] = ch
		}
	}
}

func (w *c11World) addRaw(c net.Conn) { w.rawMu.Lock(); w.raws = append(w.raws, c); w.rawMu.Unlock() }

func c11ReadAll(call *tchannel.InboundCall) ([]byte, []byte, error) {
	var a2, a3 []byte
	if err := tchannel.NewArgReader(call.Arg2Reader()).Read(&a2); err != nil {
		return nil, nil, err
	}
	if err := tchannel.NewArgReader(call.Arg3Reader()).Read(&a3); err != nil {
		return nil, nil, err
	}
	return a2, a3, nil
}

func c11Respond(call *tchannel.InboundCall, a2, a3 []byte) {
	resp := call.Response()
	if err := tchannel.NewArgWriter(resp.Arg2Writer()).Write(a2); err != nil {
		return
	}
	tchannel.NewArgWriter(resp.Arg3Writer()).Write(a3)
}

func (w *c11World) registerHandlers(ch *tchannel.Channel) {
	reg := func(name string, f func(ctx context.Context, call *tchannel.InboundCall)) {
		ch.Register(tchannel.HandlerFunc(func(ctx context.Context, call *tchannel.InboundCall) {
			w.connsMu.Lock()
			w.conns[tchannel.VerifC11ConnOfInbound(call)] = ch
			w.connsMu.Unlock()
			f(ctx, call)
		}), name)
	}
	reg("echo", func(ctx context.Context, call *tchannel.InboundCall) {
		a2, a3, err := c11ReadAll(call)
		if err != nil {
			return
		}
		c11Respond(call, a2, a3)
	})
	reg("slow", func(ctx context.Context, call *tchannel.InboundCall) {
		a2, a3, err := c11ReadAll(call)
		if err != nil {
			return
		}
		select {
		case <-ctx.Done():
		case <-time.After(150 * time.Millisecond):
		}
		c11Respond(call, a2, a3)
	})
	reg("hole", func(ctx context.Context, call *tchannel.InboundCall) {
		if _, _, err := c11ReadAll(call); err != nil {
			return
		}
		call.Response().Blackhole()
	})
	reg("syserr", func(ctx context.Context, call *tchannel.InboundCall) {
		if _, _, err := c11ReadAll(call); err != nil {
			return
		}
		call.Response().SendSystemError(tchannel.ErrServerBusy)
	})
	reg("apperr", func(ctx context.Context, call *tchannel.InboundCall) {
		a2, a3, err := c11ReadAll(call)
		if err != nil {
			return
		}
		call.Response().SetApplicationError()
		c11Respond(call, a2, a3)
	})
	reg("big", func(ctx context.Context, call *tchannel.InboundCall) {
		a2, _, err := c11ReadAll(call)
		if err != nil {
			return
		}
		c11Respond(call, a2, make([]byte, 150000))
	})
	reg("earlyerr", func(ctx context.Context, call *tchannel.InboundCall) {
		// answers before reading the arguments
		call.Response().SendSystemError(tchannel.ErrServerBusy)
	})
}

func c11NewWorld(rng *rand.Rand, name string, withRelay bool, sites *c11Sites) *c11World {
	w := &c11World{name: name, socks: &c11Sockets{}, conns: map[*tchannel.Connection]*tchannel.Channel{}, sites: sites}
	w.baseline = c11Baseline()
	mk := func(svc string, opts *tchannel.ChannelOptions) *tchannel.Channel {
		ch, err := tchannel.NewChannel(svc, opts)
		if err != nil {
			panic(err)
		}
		w.chans = append(w.chans, ch)
		return ch
	}
	listen := func(ch *tchannel.Channel, role string) {
		ln, err := net.Listen("tcp", "127.0.0.1:0")
		if err != nil {
			panic(err)
		}
		if err := ch.Serve(&c11Listener{Listener: ln, socks: w.socks, role: role}); err != nil {
			panic(err)
		}
	}
	sopts := &tchannel.ChannelOptions{}
	if rng.Intn(2) == 0 {
		sopts.DefaultConnectionOptions.PropagateCancel = true
	}
	if rng.Intn(4) == 0 {
		sopts.IdleCheckInterval, sopts.MaxIdleTime = 20*time.Millisecond, 60*time.Millisecond
		w.ops = append(w.ops, "server-idle-sweep")
	}
	w.server = mk("svc", sopts)
	w.registerHandlers(w.server)
	listen(w.server, "server")
	w.target = w.server.PeerInfo().HostPort
	if withRelay {
		rh := relaytest.NewStubRelayHost()
		ropts := &tchannel.ChannelOptions{RelayHost: rh, Dialer: w.socks.dialer("relay-out")}
		ropts.DefaultConnectionOptions.PropagateCancel = rng.Intn(2) == 0
		// relayed calls time out at the relay after at most this long, whatever TTL the caller sent
		ropts.RelayMaxTimeout = time.Duration(pick(rng, 80, 200)) * time.Millisecond
		w.relay = mk("relay", ropts)
		listen(w.relay, "relay-in")
		rh.Add("svc", w.server.PeerInfo().HostPort)
		w.target = w.relay.PeerInfo().HostPort
		w.ops = append(w.ops, "relay")
	}
	copts := &tchannel.ChannelOptions{Dialer: w.socks.dialer("client")}
	if rng.Intn(2) == 0 {
		copts.DefaultConnectionOptions.SendCancelOnContextCanceled = true
	}
	if rng.Intn(5) == 0 {
		copts.DefaultConnectionOptions.HealthChecks = tchannel.HealthCheckOptions{Interval: 15 * time.Millisecond, Timeout: 40 * time.Millisecond, FailuresToClose: 2}
		w.health = true
		w.ops = append(w.ops, "client-health-checks")
	}
	if rng.Intn(5) == 0 {
		copts.IdleCheckInterval, copts.MaxIdleTime = 20*time.Millisecond, 50*time.Millisecond
		w.ops = append(w.ops, "client-idle-sweep")
	}
	w.client = mk("client", copts)
	w.registerHandlers(w.client)
	return w
}

// one outbound call from the client, driven to completion (result or error) by the caller
func (w *c11World) call(method string, timeout time.Duration, size int, cancelAfter time.Duration, hostPort string) {
	w.wg.Add(1)
	go func() {
		defer w.wg.Done()
		ctx, cancel := tchannel.NewContext(timeout)
		defer cancel()
		if cancelAfter > 0 {
			go func() { time.Sleep(cancelAfter); cancel() }()
		}
		call, err := w.client.BeginCall(ctx, hostPort, "svc", method, nil)
		if err != nil {
			return
		}
		if err := tchannel.NewArgWriter(call.Arg2Writer()).Write(make([]byte, 10)); err != nil {
			return
		}
		if err := tchannel.NewArgWriter(call.Arg3Writer()).Write(make([]byte, size)); err != nil {
			return
		}
		var b []byte
		if err := tchannel.NewArgReader(call.Response().Arg2Reader()).Read(&b); err != nil {
			return
		}
		tchannel.NewArgReader(call.Response().Arg3Reader()).Read(&b)
	}()
}

func (w *c11World) clientSockets() []*c11Conn {
	var out []*c11Conn
	for _, s := range w.socks.all() {
		if s.role == "client" && !s.closedByLib.Load() && !s.aborted.Load() {
			out = append(out, s)
		}
	}
	return out
}

// a raw peer connecting to the target (server or relay) and misbehaving
func (w *c11World) rawClient(rng *rand.Rand, kind int) string {
	c, err := net.DialTimeout("tcp", w.target, time.Second)
	if err != nil {
		return "raw-client dial failed"
	}
	w.addRaw(c)
	names := []string{"valid-call", "half-call-then-silence", "bad-checksum-continuation", "duplicate-id", "garbage-bytes",
		"old-init-version", "connect-and-stall", "protocol-error-frame", "unknown-frame-type", "cancel-unknown-id",
		"callres-unknown-id", "truncated-frame-then-close", "half-call-then-close", "call-then-abrupt-close", "huge-ttl-half-call-then-close"}
	kind = kind % len(names)
	hdr := func(ttl uint32) []byte {
		return rawCallReqHeader(ttl, c11Tracing, "svc", [][2]string{{"as", "raw"}, {"cn", "rawpeer"}})
	}
	send := func(frames [][]byte) {
		for _, f := range frames {
			c.SetWriteDeadline(time.Now().Add(time.Second))
			c.Write(f)
		}
	}
	readSome := func(d time.Duration) {
		for i := 0; i < 4; i++ {
			if _, err := readRawFrame(c, d); err != nil {
				return
			}
		}
	}
	if kind != 5 && kind != 6 && kind != 4 {
		if _, err := rawClientHandshake(c); err != nil {
			return "raw-client handshake failed"
		}
	}
	switch kind {
	case 0:
		send(buildRawCallFrames(true, 2, hdr(500), 1, [3][]byte{[]byte("echo"), []byte("a"), make([]byte, 3000)}, 1000))
		readSome(300 * time.Millisecond)
	case 1:
		fr := buildRawCallFrames(true, 2, hdr(60), 1, [3][]byte{[]byte("echo"), []byte("a"), make([]byte, 3000)}, 1000)
		send(fr[:1])
		readSome(150 * time.Millisecond)
	case 2:
		fr := buildRawCallFrames(true, 2, hdr(200), 1, [3][]byte{[]byte("echo"), []byte("a"), make([]byte, 3000)}, 1000)
		fr[1][16+2] ^= 0xff // checksum byte of the continuation
		send(fr)
		readSome(100 * time.Millisecond)
	case 3:
		send(buildRawCallFrames(true, 7, hdr(300), 1, [3][]byte{[]byte("slow"), []byte("a"), []byte("b")}, 1000))
		send(buildRawCallFrames(true, 7, hdr(300), 1, [3][]byte{[]byte("slow"), []byte("a"), []byte("b")}, 1000))
		readSome(100 * time.Millisecond)
	case 4:
		g := make([]byte, 200)
		rng.Read(g)
		c.Write(g)
		readSome(50 * time.Millisecond)
	case 5:
		writeRawFrame(c, 0x01, 1, rawInitPayload(1, defaultInitParams))
		readSome(50 * time.Millisecond)
	case 6:
		// says nothing: the inbound handshake goroutine waits for its init deadline or our close
		w.sites.sample()
	case 7:
		writeRawFrame(c, 0xff, 0xffffffff, rawErrorPayload(0xff, c11Tracing, "peer says protocol error"))
		readSome(50 * time.Millisecond)
	case 8:
		writeRawFrame(c, 0x77, 9, []byte{1, 2, 3})
		send(buildRawCallFrames(true, 2, hdr(300), 1, [3][]byte{[]byte("echo"), []byte("a"), []byte("b")}, 1000))
		readSome(200 * time.Millisecond)
	case 9:
		writeRawFrame(c, 0xc0, 55, append([]byte{0, 0, 0, 10}, append(append([]byte{}, c11Tracing...), 0, 2, 'h', 'i')...))
		readSome(50 * time.Millisecond)
	case 10:
		send(buildRawCallFrames(false, 99, rawCallResHeader(0, c11Tracing, nil), 1, [3][]byte{{}, []byte("x"), []byte("y")}, 1000))
		readSome(50 * time.Millisecond)
	case 11:
		fr := buildRawCallFrames(true, 2, hdr(100), 1, [3][]byte{[]byte("echo"), []byte("a"), make([]byte, 500)}, 1000)
		c.Write(fr[0][:len(fr[0])/2])
		time.Sleep(5 * time.Millisecond)
		c.Close()
	case 12:
		fr := buildRawCallFrames(true, 2, hdr(1000), 1, [3][]byte{[]byte("echo"), []byte("a"), make([]byte, 3000)}, 1000)
		send(fr[:2])
		time.Sleep(5 * time.Millisecond)
		c.Close()
	case 13:
		send(buildRawCallFrames(true, 2, hdr(1000), 1, [3][]byte{[]byte("slow"), []byte("a"), []byte("b")}, 1000))
		time.Sleep(5 * time.Millisecond)
		if tc, ok := c.(*net.TCPConn); ok {
			tc.SetLinger(0)
		}
		c.Close()
	case 14:
		fr := buildRawCallFrames(true, 2, hdr(0xffffffff), 1, [3][]byte{[]byte("echo"), []byte("a"), make([]byte, 3000)}, 1000)
		send(fr[:1])
		time.Sleep(5 * time.Millisecond)
		c.Close()
	}
	return "raw-client:" + names[kind]
}

// the client calls a raw listener that misbehaves
func (w *c11World) rawServer(rng *rand.Rand, kind int) string {
	names := []string{"answers", "never-answers", "truncated-callres", "wrong-id", "closes-mid-response", "error-frame",
		"bad-checksum-response", "endless-more-fragments", "bad-init-res", "abrupt-reset-after-request"}
	kind = kind % len(names)
	ln, err := net.Listen("tcp", "127.0.0.1:0")
	if err != nil {
		return "raw-server listen failed"
	}
	w.rawMu.Lock()
	w.rawLns = append(w.rawLns, ln)
	w.rawMu.Unlock()
	go func() {
		c, err := ln.Accept()
		if err != nil {
			return
		}
		w.addRaw(c)
		if kind == 8 {
			f, _ := readRawFrame(c, time.Second)
			if f != nil {
				writeRawFrame(c, 0x02, f.ID, []byte{0, 2, 0, 9})
			}
			return
		}
		if _, _, err := rawServerHandshake(c); err != nil {
			return
		}
		for {
			f, err := readRawFrame(c, 2*time.Second)
			if err != nil {
				return
			}
			if f.Type == 0xd0 {
				writeRawFrame(c, 0xd1, f.ID, nil)
				continue
			}
			if f.Type != 0x03 {
				continue
			}
			res := buildRawCallFrames(false, f.ID, rawCallResHeader(0, c11Tracing, [][2]string{{"as", "raw"}}), 1, [3][]byte{{}, []byte("r2"), make([]byte, 3000)}, 1000)
			switch kind {
			case 0:
				for _, fr := range res {
					c.Write(fr)
				}
			case 1:
			case 2:
				c.Write(rawFrameBytes(0x04, f.ID, []byte{0, 0}))
			case 3:
				for _, fr := range buildRawCallFrames(false, f.ID+1000, rawCallResHeader(0, c11Tracing, nil), 1, [3][]byte{{}, []byte("r2"), []byte("r3")}, 1000) {
					c.Write(fr)
				}
			case 4:
				c.Write(res[0])
				c.Write(res[1][:20])
				c.Close()
				return
			case 5:
				writeRawFrame(c, 0xff, f.ID, rawErrorPayload(0x03, c11Tracing, "busy"))
			case 6:
				res[1][16+2] ^= 0x55
				for _, fr := range res {
					c.Write(fr)
				}
			case 7:
				c.Write(res[0])
			case 9:
				if tc, ok := c.(*net.TCPConn); ok {
					tc.SetLinger(0)
				}
				c.Close()
				return
			}
		}
	}()
	w.call("m", time.Duration(60+rng.Intn(100))*time.Millisecond, pick(rng, 10, 10, 4000), 0, ln.Addr().String())
	return "raw-server:" + names[kind]
}

func (w *c11World) runOps(rng *rand.Rand, nops int) {
	methods := []string{"echo", "echo", "echo", "slow", "hole", "syserr", "apperr", "big", "earlyerr", "nosuchmethod"}
	for i := 0; i < nops; i++ {
		op := ""
		switch k := rng.Intn(20); {
		case k <= 6:
			m := methods[rng.Intn(len(methods))]
			timeout := time.Duration(pick(rng, 30, 60, 120, 300)) * time.Millisecond
			size := pick(rng, 0, 10, 10, 1000, 70000, 200000)
			cancelAfter := time.Duration(0)
			if rng.Intn(5) == 0 {
				cancelAfter = time.Duration(1+rng.Intn(30)) * time.Millisecond
			}
			burst := 1 + rng.Intn(3)
			for b := 0; b < burst; b++ {
				w.call(m, timeout, size, cancelAfter, w.target)
			}
			op = fmt.Sprintf("call:%s timeout=%v size=%d cancel=%v x%d", m, timeout, size, cancelAfter, burst)
			if w.relay != nil && (m == "slow" || m == "hole" || cancelAfter > 0) {
				w.tombs = true
			}
		case k <= 9:
			op = w.rawClient(rng, rng.Intn(15))
			if w.relay != nil {
				w.tombs = true
			}
		case k <= 11:
			op = w.rawServer(rng, rng.Intn(10))
		case k == 12:
			if ss := w.clientSockets(); len(ss) > 0 {
				ss[rng.Intn(len(ss))].Abort()
				op = "fault:abort-client-socket"
				if w.relay != nil {
					w.tombs = true
				}
			}
		case k == 13:
			if ss := w.clientSockets(); len(ss) > 0 {
				ss[rng.Intn(len(ss))].FailWrites()
				w.call("echo", 80*time.Millisecond, 10, 0, w.target)
				op = "fault:writes-fail-then-call"
			}
		case k == 14:
			if ss := w.clientSockets(); len(ss) > 0 {
				ss[rng.Intn(len(ss))].FailReads()
				op = "fault:reads-fail"
				if w.relay != nil {
					w.tombs = true
				}
			}
		case k == 15:
			if ss := w.clientSockets(); len(ss) > 0 && !w.health {
				ss[rng.Intn(len(ss))].Stall()
				for j := 0; j < 3; j++ {
					w.call("echo", 60*time.Millisecond, 70000, 0, w.target)
				}
				op = "fault:writes-stall-then-calls"
				if w.relay != nil {
					w.tombs = true
				}
			}
		case k == 16:
			w.connsMu.Lock()
			var cs []*tchannel.Connection
			for c, ch := range w.conns {
				if ch == w.client {
					cs = append(cs, c)
				}
			}
			w.connsMu.Unlock()
			if len(cs) > 0 {
				sort.Slice(cs, func(i, j int) bool { return tchannel.VerifC11ConnID(cs[i]) < tchannel.VerifC11ConnID(cs[j]) })
				cs[rng.Intn(len(cs))].Close()
				op = "close-client-connection"
			}
		case k == 17:
			w.wg.Add(1)
			go func() {
				defer w.wg.Done()
				ctx, cancel := tchannel.NewContext(80 * time.Millisecond)
				defer cancel()
				w.client.Ping(ctx, w.target)
			}()
			op = "ping"
		case k == 18:
			// a call from the server side back to the client over an existing connection is not
			// possible without a listening client; instead: server channel closes one of its connections
			cs := tchannel.VerifC11Conns(w.server)
			if len(cs) > 0 {
				sort.Slice(cs, func(i, j int) bool { return tchannel.VerifC11ConnID(cs[i]) < tchannel.VerifC11ConnID(cs[j]) })
				cs[rng.Intn(len(cs))].Close()
				op = "close-server-connection"
			}
		default:
			time.Sleep(time.Duration(rng.Intn(40)) * time.Millisecond)
			op = "pause"
		}
		if op == "" {
			continue
		}
		w.ops = append(w.ops, op)
		if rng.Intn(2) == 0 {
			time.Sleep(time.Duration(rng.Intn(8)) * time.Millisecond)
		}
		w.sampleConns()
		if i%3 == 0 {
			w.sites.sample()
		}
	}
	w.lastOp = time.Now()
}

// what the channels still hold, in the words of the property statement; "" when clean
func (w *c11World) leftovers(includeTombs bool) string {
	w.sampleConns()
	var msgs []string
	onlyInboundExpired := true
	w.connsMu.Lock()
	type ent struct {
		c  *tchannel.Connection
		ch *tchannel.Channel
	}
	var ents []ent
	for c, ch := range w.conns {
		ents = append(ents, ent{c, ch})
	}
	w.connsMu.Unlock()
	sort.Slice(ents, func(i, j int) bool { return tchannel.VerifC11ConnID(ents[i].c) < tchannel.VerifC11ConnID(ents[j].c) })
	for _, e := range ents {
		info := tchannel.VerifC11Info(e.ch, e.c)
		who := fmt.Sprintf("%s connection (%s)", e.ch.ServiceName(), info.ConnectionState)
		if info.InExchanges+info.OutExchanges > 0 {
			msgs = append(msgs, fmt.Sprintf("%s holds %d inbound and %d outbound message exchanges", who, info.InExchanges, info.OutExchanges))
		}
		if info.OutExpired > 0 {
			msgs = append(msgs, fmt.Sprintf("%s holds %d outbound expired-exchange records", who, info.OutExpired))
		}
		if info.InExpired > 0 {
			msgs = append(msgs, fmt.Sprintf("%s holds %d inbound expired-exchange records (ids of inbound calls that timed out or were cancelled and whose exchange was never shut down)", who, info.InExpired))
		}
		if info.HasRelay {
			if info.RelayItems-info.RelayTombs > 0 {
				msgs = append(msgs, fmt.Sprintf("%s holds %d live relay items", who, info.RelayItems-info.RelayTombs))
			}
			if info.RelayPending > 0 {
				msgs = append(msgs, fmt.Sprintf("%s counts %d pending relayed calls", who, info.RelayPending))
			}
			if includeTombs && info.RelayTombs > 0 {
				msgs = append(msgs, fmt.Sprintf("%s holds %d relay tombstones after the tombstone period", who, info.RelayTombs))
			}
		}
		if info.State == 4 && info.InChannelConns {
			msgs = append(msgs, who+" is fully closed but still in the channel's connection map")
		}
		if info.State == 4 && info.InPeerLists > 0 {
			msgs = append(msgs, fmt.Sprintf("%s is fully closed but still in %d peer connection list(s)", who, info.InPeerLists))
		}
	}
	// the same through the public introspection API
	for _, ch := range w.chans {
		st := ch.IntrospectState(&tchannel.IntrospectionOptions{IncludeExchanges: true, IncludeTombstones: true, IncludeEmptyPeers: true})
		check := func(cs tchannel.ConnectionRuntimeState, where string) {
			if cs.InboundExchange.Count+cs.OutboundExchange.Count > 0 {
				msgs = append(msgs, fmt.Sprintf("IntrospectState: %s connection in %s reports %d+%d exchanges", ch.ServiceName(), where, cs.InboundExchange.Count, cs.OutboundExchange.Count))
			}
			if cs.ConnectionState == "connectionClosed" {
				msgs = append(msgs, fmt.Sprintf("IntrospectState: %s lists a fully closed connection in %s", ch.ServiceName(), where))
			}
			live := cs.Relayer.Count
			tombs := len(cs.Relayer.InboundItems.Items) + len(cs.Relayer.OutboundItems.Items) - live
			if live > 0 {
				msgs = append(msgs, fmt.Sprintf("IntrospectState: %s connection in %s reports %d relay items", ch.ServiceName(), where, live))
			}
			if includeTombs && tombs > 0 {
				msgs = append(msgs, fmt.Sprintf("IntrospectState: %s connection in %s reports %d tombstones", ch.ServiceName(), where, tombs))
			}
		}
		for _, p := range st.RootPeers {
			for _, cs := range p.InboundConnections {
				check(cs, "a peer list")
			}
			for _, cs := range p.OutboundConnections {
				check(cs, "a peer list")
			}
		}
		for _, cs := range st.InactiveConnections {
			check(cs, "the channel's connection map")
		}
	}
	if len(msgs) == 0 {
		return ""
	}
	for _, m := range msgs {
		if !strings.Contains(m, "inbound expired-exchange records") {
			onlyInboundExpired = false
		}
	}
	sort.Strings(msgs)
	if len(msgs) > 6 {
		msgs = append(msgs[:6], fmt.Sprintf("... and %d more", len(msgs)-6))
	}
	pre := ""
	if onlyInboundExpired {
		pre = "[c11:inbound-expired-record-kept] "
	} else if t := c11DeadlockTag(c11NewSince(w.baseline)); t != "" {
		pre = t // a ping stuck in the health-check self-deadlock keeps its exchange and its connection
	}
	return pre + strings.Join(msgs, "; ")
}

func c11Poll(max time.Duration, f func() string) string {
	start := time.Now()
	deadline := start.Add(max)
	for {
		msg := f()
		if msg == "" || time.Now().After(deadline) {
			return msg
		}
		// records of the known finding c11:inbound-expired-record-kept never go away while the
		// connection lives: no need to wait the full period once nothing else is left
		if strings.HasPrefix(msg, "[c11:inbound-expired-record-kept]") && time.Since(start) > 500*time.Millisecond {
			return msg
		}
		time.Sleep(5 * time.Millisecond)
	}
}

func (w *c11World) closeRaws() {
	w.rawMu.Lock()
	for _, c := range w.raws {
		c.Close()
	}
	for _, l := range w.rawLns {
		l.Close()
	}
	w.rawMu.Unlock()
}

func c11DeadlockTag(stacks []c11Stack) string {
	for _, s := range stacks {
		if strings.Contains(s.full, "healthCheck") && strings.Contains(s.full, "stopHealthCheck") {
			return "[c19:health-self-deadlock] "
		}
	}
	return ""
}

func c11Describe(stacks []c11Stack) string {
	kinds := map[string]int{}
	for _, s := range stacks {
		kinds[strings.TrimPrefix(s.first, c11Lib+".")+" blocked in "+strings.TrimPrefix(s.top, c11Lib+".")]++
	}
	var ks []string
	for k, v := range kinds {
		ks = append(ks, fmt.Sprintf("%dx %s", v, k))
	}
	sort.Strings(ks)
	return strings.Join(ks, ", ")
}

// the second half of the statement, in two stages.
// Stage 1: only the client channel is closed while its peers (server, relay, raw peers) stay
// alive: the channel must reach ChannelClosed, the library must have closed every socket of
// that channel, and the reader/writer goroutines that remain must all belong to connections
// that the channels still open hold.  Stage 2: everything else is closed, nothing remains.
func (w *c11World) closeAndCheck() string {
	if !w.keepStall {
		// a peer that did not read gives up: the stalled writes fail
		for _, s := range w.socks.all() {
			s.mu.Lock()
			stalled := s.stall != nil
			s.mu.Unlock()
			if stalled {
				s.FailWrites()
				s.unstall()
			}
		}
	}
	w.client.Close()
	msg1 := c11Poll(2*time.Second, func() string {
		var m []string
		if !w.client.Closed() {
			m = append(m, fmt.Sprintf("the client channel is still %v after Close and quiescence", w.client.State()))
		}
		unclosed := 0
		for _, s := range w.socks.all() {
			if s.role == "client" && !s.closedByLib.Load() {
				unclosed++
			}
		}
		if unclosed > 0 {
			m = append(m, fmt.Sprintf("%d socket(s) of the closed client channel were never closed by the library", unclosed))
		}
		live := 0
		for _, ch := range w.chans {
			if ch == w.client {
				continue
			}
			for _, c := range tchannel.VerifC11Conns(ch) {
				if tchannel.VerifC11Info(ch, c).State != 4 {
					live++
				}
			}
		}
		readers, writers := 0, 0
		left := c11NewSince(w.baseline)
		for _, s := range left {
			if strings.Contains(s.first, "readFrames") {
				readers++
			}
			if strings.Contains(s.first, "writeFrames") {
				writers++
			}
		}
		if readers > live || writers > live {
			m = append(m, fmt.Sprintf("%d reader and %d writer goroutines remain although the channels still open hold only %d connections", readers, writers, live))
		}
		if len(m) == 0 {
			return ""
		}
		tag := c11DeadlockTag(left)
		if tag == "" && w.keepStall {
			tag = "[c11:stalled-writer-outlives-close] "
		}
		return tag + "after closing the client channel only: " + strings.Join(m, "; ")
	})

	w.closeRaws()
	for _, ch := range w.chans {
		ch.Close()
	}
	if w.keepStall {
		// now the peer itself goes away: the kernel fails the writes it had been holding
		time.Sleep(20 * time.Millisecond)
		for _, s := range w.socks.all() {
			s.mu.Lock()
			stalled := s.stall != nil
			s.mu.Unlock()
			if stalled {
				s.FailWrites()
				s.unstall()
			}
		}
	}
	msg := c11Poll(2*time.Second, func() string {
		var m []string
		for _, ch := range w.chans {
			if !ch.Closed() {
				m = append(m, fmt.Sprintf("channel %s is still %v after Close and quiescence", ch.ServiceName(), ch.State()))
			}
		}
		left := c11NewSince(w.baseline)
		if len(left) > 0 {
			m = append([]string{c11DeadlockTag(left) + fmt.Sprintf("%d goroutine(s) with library frames remain after every channel was closed: %s", len(left), c11Describe(left))}, m...)
		}
		return strings.Join(m, "; ")
	})
	if msg != "" {
		unclosed := 0
		for _, s := range w.socks.all() {
			if !s.closedByLib.Load() {
				unclosed++
			}
		}
		msg += fmt.Sprintf(" (%d of %d sockets were never closed by the library)", unclosed, len(w.socks.all()))
	}
	// release whatever is still stuck so that later cases are not disturbed
	for _, s := range w.socks.all() {
		s.unstall()
		if msg != "" || msg1 != "" {
			s.Conn.Close()
		}
	}
	switch {
	case msg1 != "" && msg != "":
		t1, a := c11Untag(msg1)
		t2, b := c11Untag(msg)
		tag := ""
		if t1 != "" && t2 != "" {
			tag = t1
		}
		return tag + a + " || " + b
	case msg1 != "":
		return msg1
	}
	return msg
}

// scripted histories: 0 = the peer stops reading for good (writes stall) and the client channel
// is closed while the peer stays alive; 1 = the same with health checks and a send buffer of one
// frame (the situation of C19's health-check self-deadlock).
func c11ScriptedWorld(kind int, sites *c11Sites) *c11World {
	w := &c11World{name: fmt.Sprintf("scripted%d", kind), socks: &c11Sockets{}, conns: map[*tchannel.Connection]*tchannel.Channel{}, sites: sites}
	w.baseline = c11Baseline()
	server, err := tchannel.NewChannel("svc", nil)
	if err != nil {
		panic(err)
	}
	w.server = server
	w.chans = append(w.chans, server)
	w.registerHandlers(server)
	ln, err := net.Listen("tcp", "127.0.0.1:0")
	if err != nil {
		panic(err)
	}
	server.Serve(&c11Listener{Listener: ln, socks: w.socks, role: "server"})
	w.target = server.PeerInfo().HostPort
	copts := &tchannel.ChannelOptions{Dialer: w.socks.dialer("client")}
	if kind == 1 {
		copts.DefaultConnectionOptions.SendBufferSize = 1
		copts.DefaultConnectionOptions.HealthChecks = tchannel.HealthCheckOptions{Interval: 10 * time.Millisecond, Timeout: 30 * time.Millisecond, FailuresToClose: 3}
		w.health = true
	}
	client, err := tchannel.NewChannel("client", copts)
	if err != nil {
		panic(err)
	}
	w.client = client
	w.chans = append(w.chans, client)
	w.call("echo", 300*time.Millisecond, 10, 0, w.target)
	c11WaitTimeout(&w.wg, 2*time.Second)
	w.sampleConns()
	for _, s := range w.clientSockets() {
		s.Stall()
	}
	for i := 0; i < 3; i++ {
		w.call("echo", 60*time.Millisecond, 70000, 0, w.target)
	}
	time.Sleep(150 * time.Millisecond)
	w.keepStall = true
	w.ops = []string{"call:echo", "fault:writes-stall-for-good", "call:echo timeout=60ms size=70000 x3", fmt.Sprintf("health-checks-and-send-buffer-1=%v", kind == 1), "close client channel while the peer stays alive"}
	w.lastOp = time.Now()
	return w
}

// a plain world without random options
func c11BasicWorld(name string, relayTimeout time.Duration, sites *c11Sites) *c11World {
	w := &c11World{name: name, socks: &c11Sockets{}, conns: map[*tchannel.Connection]*tchannel.Channel{}, sites: sites}
	w.baseline = c11Baseline()
	mk := func(svc string, opts *tchannel.ChannelOptions, listen bool, role string) *tchannel.Channel {
		ch, err := tchannel.NewChannel(svc, opts)
		if err != nil {
			panic(err)
		}
		w.chans = append(w.chans, ch)
		if listen {
			ln, err := net.Listen("tcp", "127.0.0.1:0")
			if err != nil {
				panic(err)
			}
			ch.Serve(&c11Listener{Listener: ln, socks: w.socks, role: role})
		}
		return ch
	}
	w.server = mk("svc", nil, true, "server")
	w.registerHandlers(w.server)
	w.target = w.server.PeerInfo().HostPort
	if relayTimeout > 0 {
		rh := relaytest.NewStubRelayHost()
		w.relay = mk("relay", &tchannel.ChannelOptions{RelayHost: rh, RelayMaxTimeout: relayTimeout, Dialer: w.socks.dialer("relay-out")}, true, "relay-in")
		rh.Add("svc", w.server.PeerInfo().HostPort)
		w.target = w.relay.PeerInfo().HostPort
	}
	w.client = mk("client", &tchannel.ChannelOptions{Dialer: w.socks.dialer("client")}, false, "")
	return w
}

// Forced schedules (schedule points of the library, harness/sched.go) for the rare paths the
// property names: an error between registration and dispatch (the connection starts closing
// after the exchange was registered, inbound and outbound), and a relay timeout racing the
// completion of the call.  A schedule the implementation does not follow is infeasible, not a failure.
func c11Forced(kind int, sites *c11Sites, o *Out) *c11World {
	names := []string{"inbound-close-between-registration-and-dispatch", "outbound-close-between-registration-and-dispatch", "relay-timeout-racing-completion"}
	relayTimeout := time.Duration(0)
	if kind == 2 {
		relayTimeout = 100 * time.Millisecond
	}
	w := c11BasicWorld("forced-"+names[kind], relayTimeout, sites)
	w.call("echo", 500*time.Millisecond, 10, 0, w.target) // establishes the connections
	c11WaitTimeout(&w.wg, 2*time.Second)
	w.sampleConns()
	sched := NewSched()
	defer sched.Close()
	point := []string{"inbound.afterNewExchange", "outbound.afterNewExchange", "relayTimer.OnTimer"}[kind]
	sched.ParkAt(point)
	method := "echo"
	if kind == 2 {
		method = "slow" // answers after 150 ms, the relay times the call out after 100 ms
	}
	w.call(method, 400*time.Millisecond, 10, 0, w.target)
	feasible := sched.WaitArrived(point, 1, 2*time.Second)
	if feasible {
		switch kind {
		case 0, 1:
			ch := w.server
			if kind == 1 {
				ch = w.client
			}
			for _, c := range tchannel.VerifC11Conns(ch) {
				go c.Close()
			}
			deadline := time.Now().Add(2 * time.Second)
			for time.Now().Before(deadline) {
				all := true
				for _, c := range tchannel.VerifC11Conns(ch) {
					if tchannel.VerifC11Info(ch, c).State == 1 {
						all = false
					}
				}
				if all {
					break
				}
				time.Sleep(time.Millisecond)
			}
		case 2:
			time.Sleep(120 * time.Millisecond) // the response passes through while the timer callback is starting
			w.tombs = true
		}
	}
	sched.ReleaseAll()
	o.Hist(fmt.Sprintf("quiesce forced %s feasible=%v", names[kind], feasible))
	w.ops = []string{"forced-schedule:" + names[kind], fmt.Sprintf("feasible=%v", feasible)}
	w.lastOp = time.Now()
	return w
}

// splits a leading [key] tag off a message
func c11Untag(m string) (tag, rest string) {
	if strings.HasPrefix(m, "[") {
		if i := strings.Index(m, "] "); i > 0 {
			return m[:i+2], m[i+2:]
		}
	}
	return "", m
}

// a verdict keeps a known-finding tag only when every part of it carries one
func c11Verdict(prefix, left, closeMsg string, ops []string) string {
	if left == "" && closeMsg == "" {
		return ""
	}
	t1, l := c11Untag(left)
	t2, c := c11Untag(closeMsg)
	tag := ""
	switch {
	case l != "" && c != "":
		if t1 != "" && t2 != "" {
			tag = t1
		}
	case l != "":
		tag = t1
	default:
		tag = t2
	}
	v := tag
	if l != "" {
		v += prefix + l
	}
	if c != "" {
		if l != "" {
			v += " || "
		}
		v += c
	}
	return v + " -- history: " + strings.Join(ops, " > ")
}

func engineQuiesce(rng *rand.Rand, n int, tier string, o *Out) {
	sites := &c11Sites{seen: map[string]int{}}

	// component-level correspondence
	c11MexDrain(rng, 8*n, o)
	c11ConnBook(rng, 3*n, o)
	c11RelayDrain(rng, 2*n, o)
	c11Teardown(rng, n, o)

	// every history draws from its own generator, seeded up front: what one history does with its
	// random numbers (which depends on timing) does not shift the others
	ndef := 2 + n/20
	seeds := make([]int64, ndef+n)
	for i := range seeds {
		seeds[i] = rng.Int63()
	}
	worldRng := func(i int) *rand.Rand { return rand.New(rand.NewSource(seeds[i])) }

	// histories whose relays hold tombstones: run first, checked after the tombstone period
	groupBaseline := c11Baseline()
	var deferred []*c11World
	for i := 0; i < ndef; i++ {
		rng := worldRng(i)
		w := c11NewWorld(rng, fmt.Sprintf("d%d", i), true, sites)
		// a blackholed call through the relay always times out there and leaves tombstones
		w.call("hole", 100*time.Millisecond, 10, 0, w.target)
		w.ops = append(w.ops, "call:hole timeout=100ms size=10 (always)")
		w.runOps(rng, 4+rng.Intn(6))
		w.tombs = true
		deferred = append(deferred, w)
	}
	for _, w := range deferred {
		c11WaitTimeout(&w.wg, 10*time.Second)
	}
	time.Sleep(250 * time.Millisecond) // handlers of the deferred histories are done before baselines are taken

	// two further history families (engine_quiesce_fam.go): responses damaged between relay and
	// callee; writers held by a full send buffer until the deadline.  Their relay worlds are
	// judged again after the tombstone period and closed with the deferred ones.
	deferred = append(deferred, c11Families(rng, n, sites, o)...)

	// two scripted histories that every run covers
	for sc := 0; sc < 2; sc++ {
		w := c11ScriptedWorld(sc, sites)
		returned := c11WaitTimeout(&w.wg, 10*time.Second)
		left := c11Poll(2*time.Second, func() string { return w.leftovers(false) })
		if !returned {
			left = "calls have not returned 10 s after they were started; " + left
		}
		verdict := c11Verdict("with all calls completed, failed or timed out: ", left, w.closeAndCheck(), w.ops)
		o.Hist("quiesce scripted " + w.name)
		o.Oracle("quiesce", w.name, true, w.name, verdict)
	}

	for kind := 0; kind < 3; kind++ {
		w := c11Forced(kind, sites, o)
		if kind == 2 {
			deferred = append(deferred, w) // judged after the tombstone period
			continue
		}
		returned := c11WaitTimeout(&w.wg, 10*time.Second)
		left := c11Poll(2*time.Second, func() string { return w.leftovers(false) })
		if !returned {
			left = "calls have not returned 10 s after they were started; " + left
		}
		verdict := c11Verdict("with all calls completed, failed or timed out: ", left, w.closeAndCheck(), w.ops)
		o.Oracle("quiesce", w.name, true, w.name, verdict)
	}

	for c := 0; c < n; c++ {
		rng := worldRng(ndef + c)
		w := c11NewWorld(rng, fmt.Sprintf("q%d", c), rng.Intn(3) == 0, sites)
		w.runOps(rng, 3+rng.Intn(8))
		returned := c11WaitTimeout(&w.wg, 10*time.Second)
		left := c11Poll(2*time.Second, func() string { return w.leftovers(false) })
		if !returned {
			left = "calls have not returned 10 s after they were started although every deadline was at most 300 ms; " + left
		}
		verdict := c11Verdict("with all calls completed, failed or timed out: ", left, w.closeAndCheck(), w.ops)
		for _, op := range w.ops {
			o.Hist("quiesce op " + strings.SplitN(op, " ", 2)[0])
		}
		o.Hist(fmt.Sprintf("quiesce ops-per-case=%d", len(w.ops)))
		if c < 3 {
			o.Sample(map[string]interface{}{"sub": "quiesce", "ops": w.ops, "verdict": verdict})
		}
		o.Oracle("quiesce", fmt.Sprintf("q%d", c), len(w.ops) > 1, strings.Join(w.ops, "|")+fmt.Sprint(c), verdict)
	}

	for i, w := range deferred {
		if d := 3300*time.Millisecond - time.Since(w.lastOp); d > 0 {
			time.Sleep(d)
		}
		left := c11Poll(2*time.Second, func() string { return w.leftovers(true) })
		verdict := c11Verdict("with all calls over and the tombstone period passed: ", left, "", w.ops)
		for _, op := range w.ops {
			o.Hist("quiesce-tomb op " + strings.SplitN(op, " ", 2)[0])
		}
		o.Oracle("quiesce-tomb", fmt.Sprintf("d%d", i), true, strings.Join(w.ops, "|")+fmt.Sprint(i), verdict)
	}
	// the deferred histories are closed together and judged against the baseline taken before them
	var allOps []string
	closeMsg := ""
	for _, w := range deferred {
		w.baseline = groupBaseline
		allOps = append(allOps, w.ops...)
	}
	for i, w := range deferred {
		if i < len(deferred)-1 {
			for _, sk := range w.socks.all() {
				sk.mu.Lock()
				stalled := sk.stall != nil
				sk.mu.Unlock()
				if stalled {
					sk.FailWrites()
					sk.unstall()
				}
			}
			w.closeRaws()
			for _, ch := range w.chans {
				ch.Close()
			}
			continue
		}
		// the last one polls for all of them
		var chans []*tchannel.Channel
		merged := &c11Sockets{}
		for _, x := range deferred {
			chans = append(chans, x.chans...)
			merged.conns = append(merged.conns, x.socks.all()...)
		}
		w.chans = chans
		w.socks = merged
		closeMsg = w.closeAndCheck()
	}
	o.Oracle("quiesce-tomb", "dclose", true, "close-all-deferred", c11Verdict("", "", closeMsg, allOps))

	sites.emit(o)
}
