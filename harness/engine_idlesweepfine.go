package main

// Engine for property C19, third part: the idle sweep as a thread of atomic actions.
//
// fine: a REAL channel with stub clock / tickers and raw TCP peers as in engine_idlehealth.go,
//       but every sweep is driven step by step through the schedule points
//       idle.sweep.{afterNow,look,collected,check,pending,recheck,close,done}: the poller
//       goroutine is parked at each point and, while it is parked, other events are forced on the
//       implementation (clock advances, frames, calls that start and finish, application closes,
//       health-check pings).  The interleaving actually executed is the case input (the labels
//       of Model/IdleSweepFine.v: the model follows the map order the implementation chose in
//       its first loop); the observables are compared with run_fine; the oracle, written from
//       the statement, judges every close the sweep performs and every connection nobody
//       touched during the sweep.
//       Directed cases: a pending call whose response arrives between the two loops; a call
//       that comes and goes on a collected connection; both with and without clock advances.

import (
	"fmt"
	"math/rand"
	"net"
	"sort"
	"strings"
	"time"

	tchannel "github.com/uber/tchannel-go"
	"github.com/uber/tchannel-go/raw"
	"golang.org/x/net/context"
)

func init() { engines["sweepfine"] = engineSweepFine }

type c19fConnInfo struct {
	touched      bool // an event of another goroutine happened on it since the sweep began
	wasActive    bool
	shouldAtTick bool // the statement's condition at the instant the sweep read the clock
	collected    bool
	testedIdle   bool // the oracle's own "idle for MaxIdleTime" at the instant of the re-check
	testedPend   int  // pending calls + relayed calls at the instant of the pending test
	reachedClose bool
	closedBySwp  bool
	// the instant the poller arrived at idle.sweep.close (all its tests done, nothing else has
	// happened since the last of them): the oracle's own reading of the statement at that instant
	closeIdleFor time.Duration // stub clock - last call frame
	closePend    int           // pending calls + relayed calls
	points       int           // schedule points of the closing loop passed for this connection
}

type c19Fine struct {
	t      *c19TL
	s      *Sched
	logPos int
	rng    *rand.Rand
	slots  [][]int64 // observables per label; patched when known
	info   []*c19fConnInfo
	now0   time.Time
	inLock bool
	sweeps int
	closes int
	inter  int // events forced while the poller was parked
}

const c19fPrefix = "idle.sweep."

var c19fPoints = []string{"afterNow", "look", "collected", "check", "pending", "recheck", "close", "done"}

// next idle.sweep.* point the poller goroutine reached (it parks at every one of them)
func (f *c19Fine) waitPoint(timeout time.Duration) (string, uint32, bool) {
	dl := time.Now().Add(timeout)
	for {
		lg := f.s.Log()
		for f.logPos < len(lg) {
			e := lg[f.logPos]
			f.logPos++
			if strings.HasPrefix(e.Name, c19fPrefix) {
				// the hook logs before it parks: wait until the goroutine is parked
				f.s.WaitArrived(e.Name, 0, 0)
				return strings.TrimPrefix(e.Name, c19fPrefix), e.ID, true
			}
		}
		if time.Now().After(dl) {
			return "", 0, false
		}
		time.Sleep(20 * time.Microsecond)
	}
}

func (f *c19Fine) release(point string) bool {
	dl := time.Now().Add(2 * time.Second)
	for time.Now().Before(dl) {
		if f.s.Release(c19fPrefix + point) {
			return true
		}
		time.Sleep(20 * time.Microsecond)
	}
	return false
}

func (f *c19Fine) connByID(connID uint32) *c19Conn {
	for _, c := range f.t.conns {
		if c.connID == connID {
			return c
		}
	}
	return nil
}

// a label of the model with its observable slot
func (f *c19Fine) label(xs ...int64) int {
	f.t.events = append(f.t.events, xs...)
	f.t.nev++
	f.flushObs()
	f.slots = append(f.slots, nil)
	return len(f.slots) - 1
}

// the ev* functions of engine_idlehealth.go append their observables to t.obs as they go; every
// event they record is one label, in order: move them into slots
func (f *c19Fine) flushObs() {
	if len(f.t.obs) > 0 {
		f.slots = append(f.slots, f.t.obs)
		f.t.obs = nil
	}
}

func (f *c19Fine) statementCond(c *c19Conn, now time.Time) bool {
	t := f.t
	return c.oActive && t.state(c).State == 1 && c.oPending == 0 && c.oRelayPending == 0 &&
		now.Sub(c.oLastCall) >= time.Duration(t.maxIdle)
}

// events of other goroutines while the poller is parked
func (f *c19Fine) interleave(max int) {
	t := f.t
	n := f.rng.Intn(max + 1)
	for k := 0; k < n && t.anomaly == "" && t.verdict == ""; k++ {
		var live []*c19Conn
		for _, c := range t.conns {
			if !c.dead {
				live = append(live, c)
			}
		}
		if len(live) == 0 {
			return
		}
		c := live[f.rng.Intn(len(live))]
		if t.state(c).State == 4 {
			// closed by the sweep a moment ago
			c.dead = true
			continue
		}
		act := t.state(c).State == 1
		touch := func(x *c19Conn) {
			if f.info != nil {
				f.info[x.id].touched = true
			}
		}
		r := f.rng.Intn(100)
		before := t.nev
		switch {
		case r < 15:
			dt := int64(pick(f.rng, 0, 1, 1e9, 200e9))
			if f.rng.Intn(3) == 0 {
				dt = t.maxIdle
				if dt > 4000e9 {
					dt = 1e9
				}
			}
			t.evAdvance(dt)
		case r < 35:
			if act {
				touch(c)
				t.evRead(c, []byte{0x04, 0x13, 0x14, 0xff, 0xd0, 0xd1, 0xc0, 0x77}[f.rng.Intn(8)])
			}
		case r < 50:
			touch(c)
			t.evWrite(c, []byte{0x03, 0x04, 0x13, 0x14, 0xff, 0xd0, 0xd1, 0xc0}[f.rng.Intn(8)])
		case r < 68: // a call starts
			if !act {
				break
			}
			touch(c)
			if t.relayMode && t.c19lRandomCall(c) {
				// locally handled / relay-originated call on a relay connection (engine_c19local.go)
			} else if t.relayMode {
				var dsts []*c19Conn
				for _, x := range live {
					if x.outbound && t.state(x).State == 1 {
						dsts = append(dsts, x)
					}
				}
				if !c.outbound && len(dsts) > 0 {
					d := dsts[f.rng.Intn(len(dsts))]
					touch(d)
					t.evRelayStart(c, d)
				}
			} else if c.outbound && f.rng.Intn(2) == 0 {
				t.evOutCallStart(c)
			} else {
				t.evInCallStart(c)
			}
		case r < 88: // a call finishes (not while the read lock is held: the connection may reach Closed)
			if f.inLock {
				break
			}
			switch {
			case len(c.relayOut) > 0:
				touch(c)
				touch(c.relayOut[0].src)
				t.evRelayFinish(c)
			case len(c.inCalls) > 0:
				touch(c)
				t.evInCallFinish(c)
			case len(c.outCalls) > 0:
				touch(c)
				t.evOutCallFinish(c)
			}
		case r < 92:
			if act && !f.inLock {
				touch(c)
				t.evClose(c)
			}
		default: // health-check ping of the connection
			if f.inLock || c.health == nil || t.state(c).HealthDone {
				break
			}
			touch(c)
			if c.pingFlight {
				if f.rng.Intn(2) == 0 || t.relayMode {
					t.evPingEnd(c, 0, 0)
				} else {
					t.evPingEnd(c, 1, byte(pick(f.rng, 1, 3, 5)))
				}
			} else {
				t.evPingStart(c, false)
			}
		}
		f.flushObs()
		if t.nev > before {
			f.inter++
		}
	}
}

// one sweep, step by step.  script (optional) is called at named instants for directed cases.
func (f *c19Fine) sweep(script func(at string, c *c19Conn), maxInter int) {
	t := f.t
	f.info = make([]*c19fConnInfo, len(t.conns))
	for i, c := range t.conns {
		f.info[i] = &c19fConnInfo{wasActive: t.state(c).State == 1}
	}
	call := func(at string, c *c19Conn) {
		if script != nil {
			before := t.nev
			script(at, c)
			f.flushObs()
			if t.nev > before {
				f.inter++
			}
		}
	}
	// FBegin: the poller takes the tick and reads the clock
	if t.sendTick(t.idleTicker, nil, 3*time.Second) != 0 {
		t.fail("the idle sweep poller did not take a tick within 3s")
		return
	}
	p, _, ok := f.waitPoint(3 * time.Second)
	if !ok || p != "afterNow" {
		t.harnessProblem("poller did not reach idle.sweep.afterNow (got %q)", p)
		return
	}
	f.now0 = t.clock.get()
	for i, c := range t.conns {
		f.info[i].shouldAtTick = f.statementCond(c, f.now0)
	}
	f.label(9)
	f.sweeps++
	call("afterNow", nil)
	f.interleave(maxInter)
	// FLock
	f.label(10)
	f.inLock = true
	if !f.release("afterNow") {
		t.harnessProblem("release afterNow")
		return
	}
	var collectSlot, closeSlot int = -1, -1
	var closeConn *c19Conn
	var collected []int64
	var pendSlots []int // slots of the FSteps of one hasPendingCalls
	var lastStep int = -1
	setPC := func(slot int, kind int64, id int64) {
		if slot >= 0 {
			f.slots[slot] = append([]int64{kind, id}, f.slots[slot]...)
		}
	}
	for t.anomaly == "" {
		p, connID, ok := f.waitPoint(5 * time.Second)
		if !ok {
			t.fail("the idle sweep did not reach its next schedule point within 5s (wedged?)")
			return
		}
		c := f.connByID(connID)
		cid := int64(-1)
		if c != nil {
			cid = int64(c.id)
		}
		// the previous step reached this point: fill in the program counter it observes
		switch p {
		case "check":
			collected = append(collected, cid)
			setPC(lastStep, 3, cid)
		case "done":
			setPC(lastStep, 3, -1)
		case "pending":
			setPC(lastStep, 4, cid)
		case "recheck":
			setPC(lastStep, 7, cid)
		case "close":
			setPC(lastStep, 8, cid)
		}
		if closeSlot >= 0 {
			// the close has returned: state of the closed connection
			st := t.state(closeConn)
			f.slots[closeSlot] = append(f.slots[closeSlot], int64(st.State))
			if f.info[closeConn.id].wasActive && closeConn.oActive && st.State != 1 {
				f.info[closeConn.id].closedBySwp = true
				f.closes++
				// (the bookkeeping of the other events must know at once)
				t.markClosed(closeConn)
				closeConn.cleanLoop = false
			}
			t.settleClosed(closeConn)
			closeSlot = -1
		}
		lastStep = -1
		switch p {
		case "look":
			if c == nil {
				t.harnessProblem("first loop looks at an unknown connection %d", connID)
				return
			}
			call("look", c)
			f.interleave(maxInter)
			f.label(11, cid)
		case "collected":
			f.inLock = false
			collectSlot = f.label(12)
			lastStep = -1
			// (the head of the list shows at the next point; filled in below)
			call("collected", nil)
			f.interleave(maxInter)
		case "check":
			if collectSlot >= 0 && len(f.slots[collectSlot]) == 0 {
				f.slots[collectSlot] = []int64{3, cid}
			}
			f.info[c.id].collected = true
			call("check", c)
			f.interleave(maxInter)
			lastStep = f.label(12)
		case "pending":
			call("pending", c)
			f.interleave(maxInter)
			st := t.state(c)
			f.info[c.id].testedPend = c.oPending + c.oRelayPending
			n := 3
			if st.Inbound > 0 {
				n = 1
			} else if st.OutboundCalls > 0 {
				n = 2
			}
			pendSlots = pendSlots[:0]
			for k := 0; k < n; k++ {
				pendSlots = append(pendSlots, f.label(12))
			}
			for k := 0; k < n-1; k++ {
				f.slots[pendSlots[k]] = []int64{int64(5 + k), cid}
			}
			lastStep = pendSlots[n-1]
		case "recheck":
			call("recheck", c)
			f.interleave(maxInter)
			f.info[c.id].testedIdle = f.now0.Sub(c.oLastCall) >= time.Duration(t.maxIdle)
			lastStep = f.label(12)
		case "close":
			f.info[c.id].closeIdleFor = t.clock.get().Sub(c.oLastCall)
			f.info[c.id].closePend = c.oPending + c.oRelayPending
			call("close", c)
			f.interleave(maxInter)
			f.info[c.id].reachedClose = true
			lastStep = f.label(12)
			closeSlot, closeConn = lastStep, c
		case "done":
			if collectSlot >= 0 && len(f.slots[collectSlot]) == 0 {
				f.slots[collectSlot] = []int64{3, -1}
			}
			if collectSlot >= 0 {
				f.slots[collectSlot] = append(f.slots[collectSlot], int64(len(collected)))
				f.slots[collectSlot] = append(f.slots[collectSlot], collected...)
			}
			call("done", nil)
			f.interleave(maxInter)
			idle := f.label(12)
			f.slots[idle] = []int64{0, -1}
			f.release("done")
			f.judge()
			return
		default:
			t.harnessProblem("unexpected schedule point %q", p)
			return
		}
		if !f.release(p) {
			t.harnessProblem("could not release the poller at %s", p)
			return
		}
	}
}

// the oracle, from the statement
func (f *c19Fine) judge() {
	t := f.t
	for i, c := range t.conns {
		in := f.info[i]
		if in.closedBySwp && t.clockSane {
			// the close, judged at the close instant (whatever the order of the tests before it)
			if in.closeIdleFor < time.Duration(t.maxIdle) {
				t.fail("[c19:sweep-closes-recently-used-connection] the sweep that started at clock t0+%v closed connection %d although, when the poller reached the close (idle.sweep.close), the connection had sent or received a call frame %v before (MaxIdleTime %v): a call frame was processed between the sweep's last look at the activity stamps and the close",
					f.now0.Sub(time.Unix(0, t.t0)), c.id, in.closeIdleFor, time.Duration(t.maxIdle))
			} else if in.closePend != 0 {
				t.fail("the sweep closed connection %d although it had %d pending call(s) when the poller reached the close (idle.sweep.close)%s", c.id, in.closePend, t.c19lDescribe(c))
			}
		}
		if in.closedBySwp {
			if !in.testedIdle {
				t.fail("[c19:sweep-closes-recently-used-connection] the sweep that started at clock t0+%v closed connection %d although a call frame was sent or received on it %v before the sweep's clock value (MaxIdleTime %v): the connection carried a call after the first loop collected it",
					f.now0.Sub(time.Unix(0, t.t0)), c.id, f.now0.Sub(c.oLastCall), time.Duration(t.maxIdle))
			} else if in.testedPend != 0 {
				t.fail("the sweep closed connection %d although it had %d pending call(s) when the sweep tested it%s", c.id, in.testedPend, t.c19lDescribe(c))
			} else if !in.wasActive {
				t.fail("the sweep closed connection %d which was not Active", c.id)
			}
		}
		if !in.touched {
			// nobody touched it during the sweep: the atomic statement applies as it stands
			if in.shouldAtTick && !in.closedBySwp {
				t.fail("sweep at clock t0+%v left connection %d open: it was active, had no pending call and its last call frame was %v before (MaxIdleTime %v), and nothing happened on it during the sweep",
					f.now0.Sub(time.Unix(0, t.t0)), c.id, f.now0.Sub(c.oLastCall), time.Duration(t.maxIdle))
			}
			if !in.shouldAtTick && in.closedBySwp {
				t.fail("sweep at clock t0+%v closed connection %d although it should not (pending=%d relayPending=%d idleFor=%v MaxIdleTime=%v) and nothing happened on it during the sweep%s",
					f.now0.Sub(time.Unix(0, t.t0)), c.id, c.oPending, c.oRelayPending, f.now0.Sub(c.oLastCall), time.Duration(t.maxIdle), t.c19lDescribe(c))
			}
		}
		if !in.closedBySwp && in.wasActive && c.oActive && t.state(c).State != 1 {
			t.fail("connection %d left the Active state during a sweep that did not call close on it", c.id)
		}
	}
	f.info = nil
}

func c19fSetup(rng *rand.Rand, maxIdle int64, hInterval, hFail int64, relayMode bool, cfg c19Cfg) (*c19TL, string) {
	t := &c19TL{rng: rng, clockSane: true, hist: map[string]int{}}
	t.idleInterval, t.maxIdle = 30e9, maxIdle
	t.hInterval, t.hTimeout, t.hFail = hInterval, 2e9, hFail
	t.effF = t.hFail
	if t.effF == 0 {
		t.effF = 5
	}
	t.relayMode = relayMode
	t.t0 = []int64{1700000000e9, 0, 1000}[rng.Intn(3)]
	t.clock = &c19Clock{now: time.Unix(0, t.t0), hit: make(chan struct{}, 1)}
	t.tickers = &c19Tickers{}
	t.sink = &c19Sink{health: map[uint32][]c19HealthLog{}}
	t.block = &c19Block{arrived: make(chan struct{}, 16), rel: map[string]chan struct{}{}}
	copts := tchannel.ConnectionOptions{HealthChecks: tchannel.HealthCheckOptions{
		Interval: time.Duration(t.hInterval), Timeout: time.Duration(t.hTimeout), FailuresToClose: int(t.hFail)}}
	t.cfg = cfg
	opts := &tchannel.ChannelOptions{
		TimeNow: t.clock.Now, TimeTicker: t.tickers.New,
		IdleCheckInterval: time.Duration(t.idleInterval), MaxIdleTime: time.Duration(t.maxIdle),
		DefaultConnectionOptions: copts,
		Dialer: func(ctx context.Context, network, hp string) (net.Conn, error) {
			d := net.Dialer{}
			return d.DialContext(ctx, network, hp)
		},
	}
	if t.relayMode {
		opts.RelayHost = &c19RelayHost{}
		opts.RelayLocalHandlers = c19lLocalHandlers // (engine_c19local.go)
	}
	t.cfg.apply(opts, t.sink)
	ch, err := tchannel.NewChannel("verif-c19", opts)
	if err != nil {
		return nil, "NewChannel: " + err.Error()
	}
	t.ch = ch
	ch.Register(raw.Wrap(t.block), "block")
	if err := ch.ListenAndServe("127.0.0.1:0"); err != nil {
		t.cleanup()
		return nil, "listen: " + err.Error()
	}
	t.idleTicker = t.tickers.waitNew(0, 2*time.Second)
	if t.idleTicker == nil {
		t.cleanup()
		return nil, "no sweep poller"
	}
	return t, ""
}

// kind: 0 random; 1..4 directed
func c19fRunCase(rng *rand.Rand, idx int, kind int, tier string, o *Out) {
	maxIdle := []int64{180e9, 180e9, 5e9, 1000}[rng.Intn(4)]
	hInterval, hFail := int64(0), int64(pick(rng, 1, 2, 3))
	if kind == 0 && rng.Intn(3) == 0 {
		hInterval = 1e9
	}
	relayMode := kind == 0 && rng.Intn(5) == 0
	// kind 5: idx encodes (variant, k, call kind, clock advance), see below
	d5v, d5k, d5call, d5adv := idx%2, 1+(idx/2)%4, (idx/8)%3, (idx/24)%2
	if kind == 5 {
		relayMode = d5call == 2
		if maxIdle < 5e9 {
			maxIdle = 5e9
		}
	}
	cfg := c19NextCfg()
	if kind == 5 {
		// (the 48 schedules repeat with period 8 in their parameters: skew the configuration)
		cfg = c19CfgAt(idx + idx/8 + idx/48)
	}
	t, problem := c19fSetup(rng, maxIdle, hInterval, hFail, relayMode, cfg)
	id := fmt.Sprintf("f%d", idx)
	if kind != 0 {
		id = fmt.Sprintf("d%d_%d", kind, idx)
	}
	if kind == 5 {
		id = fmt.Sprintf("d5_v%dk%dc%da%d_%d", d5v, d5k, d5call, d5adv, idx/48)
	}
	if t != nil {
		id += "-" + t.cfg.String()
	}
	if t == nil {
		o.Hist("fine:harness-anomaly")
		o.Oracle("fine-anomaly", id, false, "", "")
		fmt.Fprintf(&anomalies, "%s: %s\n", id, problem)
		return
	}
	f := &c19Fine{t: t, rng: rng}
	f.s = NewSched()
	for _, p := range c19fPoints {
		f.s.ParkAt(c19fPrefix + p)
	}
	defer func() {
		f.s.Close()
		t.cleanup()
	}()
	in := []int64{1, t.idleInterval, t.maxIdle, t.hInterval, t.hTimeout, t.hFail, t.t0}

	if kind == 0 {
		nconn := 1 + rng.Intn(3)
		if relayMode {
			nconn = 2 + rng.Intn(2)
		}
		for i := 0; i < nconn && t.anomaly == ""; i++ {
			outbound := rng.Intn(2) == 0
			if relayMode {
				outbound = i%2 == 1
			}
			t.evNewConn(outbound)
			f.flushObs()
		}
		f.interleave(4)
		// make most connections idle
		if rng.Intn(5) != 0 {
			t.evAdvance(t.maxIdle + int64(pick(rng, -1, 0, 0, 1, 1e9)))
			f.flushObs()
		}
		nsweeps := 1 + rng.Intn(2)
		for k := 0; k < nsweeps && t.anomaly == "" && t.verdict == ""; k++ {
			f.sweep(nil, pick(rng, 0, 1, 1, 2))
			if t.anomaly == "" && t.verdict == "" {
				f.interleave(3)
				if rng.Intn(2) == 0 {
					t.evAdvance(t.maxIdle)
					f.flushObs()
				}
			}
		}
	} else {
		// directed: connection 0 (outbound) and 1 (inbound)
		a := t.evNewConn(true)
		f.flushObs()
		b := t.evNewConn(false)
		f.flushObs()
		if a == nil || b == nil || t.anomaly != "" {
			kind = -1
		}
		adv := int64(0)
		if kind == 2 || kind == 4 {
			adv = 1e9
		}
		switch kind {
		case 1, 2:
			// an outbound call is pending on connection 0 when the first loop collects it; its
			// response arrives between the two loops (kind 2: the clock also moves on)
			t.evOutCallStart(a)
			f.flushObs()
			t.evAdvance(t.maxIdle + 5e9)
			f.flushObs()
			f.sweep(func(at string, c *c19Conn) {
				if at == "collected" {
					f.info[a.id].touched = true
					if adv > 0 {
						t.evAdvance(adv)
					}
					t.evOutCallFinish(a)
				}
			}, 0)
		case 3, 4:
			// both idle; while the poller is about to close the first one it collected, a call
			// comes and goes on the other one
			t.evAdvance(t.maxIdle + 5e9)
			f.flushObs()
			done := false
			f.sweep(func(at string, c *c19Conn) {
				if at == "close" && !done {
					done = true
					other := b
					if c == b {
						other = a
					}
					f.info[other.id].touched = true
					if adv > 0 {
						t.evAdvance(adv)
					}
					if other == a {
						t.evOutCallStart(a)
						f.flushObs()
						t.evOutCallFinish(a)
					} else {
						t.evInCallStart(b)
						f.flushObs()
						t.evInCallFinish(b)
					}
				}
			}, 0)
			if t.anomaly == "" && t.verdict == "" {
				for _, c := range t.conns {
					if f.now0.Sub(c.oLastCall) < time.Duration(t.maxIdle) && t.state(c).State != 1 {
						t.fail("[c19:sweep-closes-recently-used-connection] connection %d carried a call while the sweep was closing another connection and was closed by that same sweep", c.id)
					}
				}
			}
		case 5:
			// A call completes exactly between two consecutive schedule points of the closing loop:
			// at the k-th point (k = 1..4, WHATEVER its name: the family does not assume an order of
			// check / pending / recheck / close) the poller passes for the target connection,
			//   variant 0: a call that was pending and silent for more than MaxIdleTime when the sweep
			//              began gets its response (the connection looked idle to the first loop);
			//   variant 1: a call comes and goes.
			// call kind 0: outbound call on connection 0, 1: inbound call on connection 1, 2: relayed
			// call from connection 1 to connection 0 (target: the first of the two in the closing loop).  The oracle judges the
			// close at the instant the poller reaches idle.sweep.close (judge()).
			target := a
			if d5call == 1 {
				target = b
			}
			if d5call == 2 {
				// a relayed call needs both connections open: the target is whichever of the two the
				// closing loop handles first (the map order the implementation chose)
				target = nil
			}
			start := func() {
				switch d5call {
				case 0:
					t.evOutCallStart(a)
				case 1:
					t.evInCallStart(b)
				default:
					t.evRelayStart(b, a)
				}
				f.flushObs()
			}
			finish := func() {
				switch {
				case d5call == 0 && len(a.outCalls) > 0:
					t.evOutCallFinish(a)
				case d5call == 1 && len(b.inCalls) > 0:
					t.evInCallFinish(b)
				case d5call == 2 && len(a.relayOut) > 0:
					t.evRelayFinish(a)
				}
				f.flushObs()
			}
			if d5v == 0 {
				start()
			}
			t.evAdvance(t.maxIdle + 5e9)
			f.flushObs()
			fired := false
			if t.anomaly == "" {
				f.sweep(func(at string, c *c19Conn) {
					switch at {
					case "check", "pending", "recheck", "close":
					default:
						return
					}
					if target == nil {
						target = c
					}
					if c != target || fired || f.info == nil {
						return
					}
					f.info[target.id].points++
					if f.info[target.id].points != d5k {
						return
					}
					fired = true
					f.info[a.id].touched = true
					if d5call != 0 {
						f.info[b.id].touched = true
					}
					if d5adv > 0 {
						t.evAdvance(1e9)
					}
					if d5v == 1 {
						start()
					}
					if t.anomaly == "" {
						finish()
					}
				}, 0)
			}
			o.Hist(fmt.Sprintf("fine:d5:variant=%d,point=%d,fired=%v", d5v, d5k, fired))
		}
	}
	f.flushObs()
	for _, c := range t.conns {
		t.finalObs(c)
	}
	final := t.obs
	t.obs = nil
	if t.anomaly != "" {
		o.Hist("fine:harness-anomaly")
		o.Oracle("fine-anomaly", id, false, "", "")
		fmt.Fprintf(&anomalies, "%s: %s (options %v, %d labels)\n", id, t.anomaly, in, t.nev)
		return
	}
	var obs []int64
	for _, s := range f.slots {
		obs = append(obs, s...)
	}
	obs = append(obs, final...)
	full := append(append([]int64{}, in...), int64(t.nev))
	full = append(full, t.events...)
	keys := make([]string, 0, len(t.hist))
	for k := range t.hist {
		keys = append(keys, k)
	}
	sort.Strings(keys)
	for _, k := range keys {
		for i := 0; i < t.hist[k]; i++ {
			o.Hist("fine:" + k)
		}
	}
	o.Hist(fmt.Sprintf("fine:kind=%d", kind))
	o.Hist("fine:cfg=" + t.cfg.String())
	o.Hist(fmt.Sprintf("fine:conns=%d", len(t.conns)))
	o.Hist(fmt.Sprintf("fine:sweeps=%d", f.sweeps))
	o.Hist(fmt.Sprintf("fine:closed-by-sweep=%d", f.closes))
	o.Hist(fmt.Sprintf("fine:events-while-parked=%d", minInt(f.inter, 10)))
	if idx < 2 && kind == 0 {
		o.Sample(map[string]interface{}{"sub": "fine", "options": in, "labels": t.nev, "conns": len(t.conns), "input_head": full[:minInt(len(full), 60)]})
	}
	o.Case("fine", id, full, obs, f.sweeps > 0, t.verdict)
}

func engineSweepFine(rng *rand.Rand, n int, tier string, o *Out) {
	for kind := 1; kind <= 4; kind++ {
		reps := 2
		if tier == "thorough" {
			reps = 6
		}
		for i := 0; i < reps; i++ {
			c19fRunCase(rng, i, kind, tier, o)
		}
	}
	// kind 5: the 48 directed schedules (2 variants x 4 points x 3 call kinds x clock advance or not)
	d5 := 48
	if tier == "thorough" {
		d5 = 4 * 48
	}
	for i := 0; i < d5; i++ {
		c19fRunCase(rng, i, 5, tier, o)
	}
	// kind 6: relayed calls that ended abnormally, then a forced sweep (engine_idlerelayend.go)
	d6 := 60
	if tier == "thorough" {
		d6 = 240
	}
	for i := 0; i < d6; i++ {
		c19xFineCase(rng, i, tier, o)
	}
	// kind 7: non-relayed calls (locally handled, relay-originated) on relay connections over a forced
	// sweep (engine_c19local.go)
	d7 := c19lFineCases
	if tier == "thorough" {
		d7 = 4 * c19lFineCases
	}
	for i := 0; i < d7; i++ {
		c19lFineCase(rng, i, tier, o)
	}
	for i := 0; i < n; i++ {
		c19fRunCase(rng, i, 0, tier, o)
	}
	if len(anomalies.b) > 0 {
		lines := strings.Count(string(anomalies.b), "\n")
		fmt.Printf("harness anomalies in %d fine-grained timelines (not judged):\n%s", lines, anomalies.b[:minInt(len(anomalies.b), 2000)])
		if lines*10 > n+10 {
			o.Oracle("fine-anomaly", "too-many", false, "", fmt.Sprintf("%d of %d fine-grained timelines could not be driven: %s", lines, n, anomalies.b[:minInt(len(anomalies.b), 300)]))
		}
	}
}
