package main

// Property C19, strengthening V19: calls on the connections of a RELAYING channel that are NOT
// relayed.
//
// The statement: "at each sweep a connection is closed if and ONLY IF it is active, has no pending
// calls or relayed calls, and has neither sent nor received a call frame for at least the maximum
// idle time".  A connection of a relaying channel (c.relay != nil) learns about its relayed calls
// from the counter Relayer.pending -- but it can carry two more kinds of calls that never touch
// that counter and live in the message exchange sets only:
//
//	local   a call to a service of ChannelOptions.RelayLocalHandlers, which the relay channel handles
//	        itself (Relayer.handleLocalCallReq -> handleFrameNoRelay -> INBOUND exchange); it may come
//	        in on a connection the relay accepted or on one it dialed;
//	orig    a call the relay channel ORIGINATES itself as a client (Channel.BeginCall) over one of its
//	        connections (OUTBOUND exchange; the response is routed Relayer.Relay -> errUnknownID ->
//	        outbound.forwardPeerFrame).
//
// A sweep that asks a relay connection only for its relay counter (or asks only some of the three
// sources of pending work, depending on the kind of connection) closes a connection with such a
// call pending.  This file makes every engine of C19 produce that situation:
//
//   - random timelines (sub tl, engine idlehealth; sub fine, engine sweepfine): on relaying channels
//     (now with RelayLocalHandlers = the channel's own service) the "a call starts" event is a relayed
//     call, a locally handled call or a relay-originated call (c19lRandomCall);
//   - relay-end timelines (engine_idlerelayend.go, sub tl): four more episode kinds
//     local / orig          the call starts, blocks (handler / callee silent) while the stub clock
//     goes to MaxIdleTime -1 / +0 / +1 / +1s past the last call frame of ANY
//     connection and the sweep ticks (once or twice), then it finishes;
//     localmix / origmix    the same with a relayed call (ending in one of nine ways) on the same
//     connection while the other call is pending: the relay counter goes
//     0 -> 1 -> 0 and canClose() holds again although the connection is busy;
//   - sweepfine kind 7 (sub fine): the sweep driven through its eight schedule points on a relaying
//     channel whose connections carry such calls: nothing else happens (the atomic iff decides), the
//     pending call ends at the k-th point of the closing loop, or a call comes and goes there.
//
// The events are those of Model/IdleHealthSys.v: EPend id 0 +-1 (inbound exchange) and
// EPend id 1 +-1 (outbound exchange) on connections with k_relay = Some n; the model is compared
// on every timeline.  The oracle is the one of evTick / judge(), written from the statement with
// the harness's own bookkeeping (oPending counts the calls the harness started and has not
// finished, whatever the kind of connection).

import (
	"fmt"
	"math/rand"
	"sort"
)

// RelayLocalHandlers of every relaying channel of the C19 engines: the channel's own service name
// (its handler "block" parks each call until the harness releases it)
var c19lLocalHandlers = []string{"verif-c19"}

// On a relaying channel: half of the "a call starts" events are not relayed.  Returns false when the
// caller should start a relayed call instead.
func (t *c19TL) c19lRandomCall(c *c19Conn) bool {
	if t.rng.Intn(2) == 0 {
		return false
	}
	if c.dead || t.state(c).State != 1 {
		return false
	}
	if c.outbound && t.rng.Intn(2) == 0 && t.t0 < 2000000000e9 {
		// (beginCall computes the TTL as real deadline - stub clock)
		t.evOutCallStart(c)
		t.hist["l:orig-start"]++
	} else {
		t.evInCallStart(c)
		if c.outbound {
			t.hist["l:local-start:on-dialed-conn"]++
		} else {
			t.hist["l:local-start:on-accepted-conn"]++
		}
	}
	return true
}

// for the verdict of a sweep that closed a busy connection of a relaying channel: which calls it carried
func (t *c19TL) c19lDescribe(c *c19Conn) string {
	if !t.relayMode || c.oPending == 0 {
		return ""
	}
	return fmt.Sprintf(" (connection of a RELAYING channel, dialed=%v, carrying %d call(s) handled by the relay channel itself (RelayLocalHandlers) and %d call(s) the relay channel originated: pending in the exchange sets, not in Relayer.pending)",
		c.outbound, len(c.inCalls), len(c.outCalls))
}

// relayed-call endings that leave both connections of the call open and are events of the model
var c19lMixKinds = []string{"ok", "errframe", "timeout", "timeout-late", "cancel", "destslow", "nodest", "unreach", "starterr"}

func (x *c19xTL) c19lStart(kind string, a, b *c19Conn) *c19Conn {
	t := x.t
	c := b
	if kind == "local" || kind == "localmix" {
		// a locally handled call arrives on a connection the relay accepted or on one it dialed
		if x.rng.Intn(3) != 0 {
			c = a
		}
		t.evInCallStart(c)
		if c.outbound {
			t.hist["l:local-start:on-dialed-conn"]++
		} else {
			t.hist["l:local-start:on-accepted-conn"]++
		}
		return c
	}
	t.evOutCallStart(c)
	t.hist["l:orig-start"]++
	return c
}

func (x *c19xTL) c19lFinish(c *c19Conn) {
	t := x.t
	if c.dead || t.anomaly != "" || t.verdict != "" {
		return
	}
	switch {
	case len(c.inCalls) > 0:
		t.evInCallFinish(c)
	case len(c.outCalls) > 0:
		t.evOutCallFinish(c)
	}
}

// one call of the relay channel that is not relayed, pending over one or two sweeps
func (x *c19xTL) c19lEpisode(kind string, a, b *c19Conn) {
	t := x.t
	c := x.c19lStart(kind, a, b)
	if t.anomaly != "" || t.verdict != "" {
		return
	}
	if kind == "localmix" || kind == "origmix" {
		// a relayed call on the same connection starts and ENDS while the other call is pending:
		// Relayer.pending is back at 0, the exchange set is not empty
		inner := c19lMixKinds[x.rng.Intn(len(c19lMixKinds))]
		x.episode(inner, a, b)
		if t.anomaly != "" || t.verdict != "" {
			return
		}
	}
	// the handler (the callee) is stuck: no call frame on any connection for MaxIdleTime
	d := int64(pick(x.rng, -1, 0, 0, 1, 1e9))
	x.finale(d)
	if d < 0 && t.anomaly == "" && t.verdict == "" {
		x.finale(0)
	}
	if t.anomaly != "" || t.verdict != "" {
		return
	}
	if x.rng.Intn(3) == 0 {
		// still stuck one more MaxIdleTime later
		x.finale(int64(pick(x.rng, 0, 1e9)))
		if t.anomaly != "" || t.verdict != "" {
			return
		}
	}
	x.c19lFinish(c)
}

// ---------------------------------------------------------------- sweepfine, kind 7

// idx = call * 10 + variant
//
//	call    0 local call on the accepted connection (1)   1 local call on the dialed connection (0)
//	        2 relay-originated call on the dialed connection (0)
//	variant 0 the call is pending and silent for MaxIdleTime; ONE sweep, nothing else happens: the
//	          connection is judged by the iff as it stands (must stay open), the other one is closed
//	        1 the same after a relayed call 1 -> 0 came and went (Relayer.pending 0 -> 1 -> 0)
//	        2..5 the pending call ends when the closing loop passes its (variant-1)-th schedule point
//	          for that connection (whatever the point's name): judged at the close instant
//	        6..9 a call of that kind comes and goes at the (variant-5)-th point
const c19lFineCases = 30

func c19lFineCase(rng *rand.Rand, idx int, tier string, o *Out) {
	call, variant := (idx/10)%3, idx%10
	maxIdle := []int64{180e9, 5e9}[rng.Intn(2)]
	x, problem := c19xSetup(rng, maxIdle, c19CfgAt(idx+idx/8))
	id := fmt.Sprintf("d7_c%dv%d_%d", call, variant, idx/c19lFineCases)
	if x == nil {
		o.Hist("fine:harness-anomaly")
		o.Oracle("fine-anomaly", id, false, "", "")
		fmt.Fprintf(&anomalies, "%s: %s\n", id, problem)
		return
	}
	t := x.t
	f := &c19Fine{t: t, rng: rng}
	f.s = NewSched()
	for _, p := range c19fPoints {
		f.s.ParkAt(c19fPrefix + p)
	}
	defer func() {
		f.s.Close()
		x.cleanup()
	}()
	in := []int64{1, t.idleInterval, t.maxIdle, t.hInterval, t.hTimeout, t.hFail, t.t0}
	// connection 0: dialed by the relay, connection 1: accepted by it
	a := x.newConn(true)
	f.flushObs()
	b := x.newConn(false)
	f.flushObs()
	target := a
	if call == 0 {
		target = b
	}
	start := func() {
		if call == 2 {
			t.evOutCallStart(target)
			t.hist["l:orig-start"]++
		} else {
			t.evInCallStart(target)
			if target.outbound {
				t.hist["l:local-start:on-dialed-conn"]++
			} else {
				t.hist["l:local-start:on-accepted-conn"]++
			}
		}
		f.flushObs()
	}
	finish := func() {
		x.c19lFinish(target)
		f.flushObs()
	}
	if a != nil && b != nil && t.anomaly == "" {
		if variant <= 5 {
			start()
		}
		if variant == 1 && t.anomaly == "" {
			x.episode("ok", b, a)
			f.flushObs()
		}
		if t.anomaly == "" {
			t.evAdvance(t.maxIdle + int64(pick(rng, 0, 1, 5e9)))
			f.flushObs()
		}
		k := 0
		switch {
		case variant >= 6:
			k = variant - 5
		case variant >= 2:
			k = variant - 1
		}
		fired := false
		if t.anomaly == "" && t.verdict == "" {
			f.sweep(func(at string, c *c19Conn) {
				switch at {
				case "check", "pending", "recheck", "close":
				default:
					return
				}
				if k == 0 || c != target || fired || f.info == nil {
					return
				}
				f.info[target.id].points++
				if f.info[target.id].points != k {
					return
				}
				fired = true
				f.info[target.id].touched = true
				if variant >= 6 {
					start()
				}
				if t.anomaly == "" {
					finish()
				}
			}, 0)
		}
		o.Hist(fmt.Sprintf("fine:d7:call=%d,variant=%d,fired=%v", call, variant, fired))
		// the call (if still pending) ends, one more MaxIdleTime passes: an ordinary sweep closes what is left
		if t.anomaly == "" && t.verdict == "" {
			finish()
		}
	}
	f.flushObs()
	for _, c := range t.conns {
		t.finalObs(c)
	}
	final := t.obs
	t.obs = nil
	id = fmt.Sprintf("%s-%v", id, t.cfg)
	if t.anomaly != "" {
		o.Hist("fine:harness-anomaly")
		o.Oracle("fine-anomaly", id, false, "", "")
		fmt.Fprintf(&anomalies, "%s: %s (options %v, %d labels)\n", id, t.anomaly, in, t.nev)
		return
	}
	var obs []int64
	for _, s := range f.slots {
		obs = append(obs, s...)
	}
	obs = append(obs, final...)
	full := append(append([]int64{}, in...), int64(t.nev))
	full = append(full, t.events...)
	keys := make([]string, 0, len(t.hist))
	for k := range t.hist {
		keys = append(keys, k)
	}
	sort.Strings(keys)
	for _, k := range keys {
		for i := 0; i < t.hist[k]; i++ {
			o.Hist("fine:" + k)
		}
	}
	o.Hist("fine:kind=7")
	o.Hist("fine:cfg=" + t.cfg.String())
	o.Hist(fmt.Sprintf("fine:conns=%d", len(t.conns)))
	o.Hist(fmt.Sprintf("fine:sweeps=%d", f.sweeps))
	o.Hist(fmt.Sprintf("fine:closed-by-sweep=%d", f.closes))
	o.Hist(fmt.Sprintf("fine:events-while-parked=%d", minInt(f.inter, 10)))
	o.Case("fine", id, full, obs, f.sweeps > 0, t.verdict)
}
