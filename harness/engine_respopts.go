package main

// respopts (C10, "a second responder for the same request id"): the raw observer of engine
// respwire in front of REAL channels created with the option cross product under which one
// inbound call could be handed to more than one responder:
//
//	server  ChannelOptions.Handler x SkipHandlerMethods (none / Handler only / Handler + skip set;
//	        alternate handler that answers everything / answers the methods it knows and rejects
//	        the rest with a system error / rejects everything), methods: natively registered,
//	        skipped + registered, skipped + not registered, known to the alternate handler only,
//	        known to nobody; native and alternate handlers that complete the response in 1..n
//	        fragments, send a system error, or send a partial response and then a system error
//	relay   ChannelOptions.RelayLocalHandlers: services the relay channel serves itself, with and
//	        without a remote peer for the same service name on the relay host, relayed services,
//	        unknown services; requests of one frame and of several frames (a fragmented call to a
//	        local service must be rejected with ONE error frame and NOT relayed)
//
// Every request id is observed on the caller-side wire until well past the (clamped) ttl.
// Oracle (from the statement, the grammar oracle wireVerdict of respwire): per id one
// well-formed response -- exactly one terminal frame, nothing after it -- and it is COMPLETE
// (these handlers never stall).  Additionally the frames carry the name of the responder that
// wrote them ("who:<name>" in arg2 of a call res / in the message of an error frame): the
// responder must be the one the options name.

import (
	"bytes"
	"fmt"
	"math/rand"
	"strings"
	"time"

	tchannel "github.com/uber/tchannel-go"
	"github.com/uber/tchannel-go/relay/relaytest"
	"golang.org/x/net/context"
)

func init() { engines["respopts"] = engineRespOpts }

// behaviour in arg2 of the request: [kind, nflush]; kind 0 complete, 1 system error, 2 partial then system error
func roAnswer(call *tchannel.InboundCall, who string) {
	var a2, a3 []byte
	if err := tchannel.NewArgReader(call.Arg2Reader()).Read(&a2); err != nil {
		return
	}
	if err := tchannel.NewArgReader(call.Arg3Reader()).Read(&a3); err != nil {
		return
	}
	kind, nflush := 0, 0
	if len(a2) >= 2 {
		kind, nflush = int(a2[0]), int(a2[1])
	}
	resp := call.Response()
	sysErr := func() {
		resp.SendSystemError(tchannel.NewSystemError(tchannel.ErrCodeBusy, "who:%s gave up", who))
	}
	if kind == 1 {
		sysErr()
		return
	}
	w, err := resp.Arg2Writer()
	if err != nil {
		return
	}
	if _, err := w.Write([]byte("who:" + who)); err != nil {
		return
	}
	if err := w.Close(); err != nil {
		return
	}
	w, err = resp.Arg3Writer()
	if err != nil {
		return
	}
	chunk := []byte(strings.Repeat("r", 64))
	for i := 0; i < nflush; i++ {
		if _, err := w.Write(chunk); err != nil {
			return
		}
		if err := w.Flush(); err != nil {
			return
		}
		if kind == 2 && i >= nflush/2 {
			sysErr()
			return
		}
	}
	if kind == 2 {
		sysErr()
		return
	}
	if _, err := w.Write(chunk); err != nil {
		return
	}
	w.Close()
}

func roNative(who string) tchannel.Handler {
	return tchannel.HandlerFunc(func(ctx context.Context, call *tchannel.InboundCall) { roAnswer(call, who) })
}

// the alternate root handler (ChannelOptions.Handler). mode 0: answers every method,
// 1: answers the methods whose name contains "altKnown", rejects the rest, 2: rejects everything
type roAlt struct{ mode int }

func (h roAlt) Handle(ctx context.Context, call *tchannel.InboundCall) {
	m := call.MethodString()
	if h.mode == 0 || (h.mode == 1 && strings.Contains(m, "altKnown")) {
		roAnswer(call, "alt")
		return
	}
	call.Response().SendSystemError(tchannel.NewSystemError(tchannel.ErrCodeBadRequest, "who:alt-reject unknown method %q", m))
}

// roTwice: TWO responders on one call, each well behaved alone (outside C10's quantifier: the
// dispatch never does this, Proofs/DispatchP.v): the first answers as asked, the second rejects
// the call with one system error, a third tries to answer again.  Shows on the real response
// object what C10_server_any_handler proves of the model: response frames never follow a
// terminal frame, but SendSystemError is not stopped by a finished response.
type roTwice struct{}

func (roTwice) Handle(ctx context.Context, call *tchannel.InboundCall) {
	roAnswer(call, "first")
	call.Response().SendSystemError(tchannel.NewSystemError(tchannel.ErrCodeBadRequest, "who:second rejects"))
	resp := call.Response()
	if w, err := resp.Arg2Writer(); err == nil {
		w.Write([]byte("who:third"))
		w.Close()
	}
	if w, err := resp.Arg3Writer(); err == nil {
		w.Write([]byte("third"))
		w.Close()
	}
}

type roReq struct {
	id      uint32
	service string
	method  string
	kind    int
	nflush  int
	nframes int
	expect  string // name of the responder the options select
}

func (q roReq) String() string {
	return fmt.Sprintf("{id %d %s %s kind %d nflush %d reqframes %d expect %s}", q.id, q.service, q.method, q.kind, q.nflush, q.nframes, q.expect)
}

// roWho: the responder name carried by a frame ("" = none found)
func roWho(f rwFrame) string {
	i := bytes.Index(f.head, []byte("who:"))
	if i < 0 {
		switch {
		case bytes.Contains(f.head, []byte("no handler for service")):
			return "no-handler"
		case bytes.Contains(f.head, []byte("cannot receive fragmented")):
			return "relay-fragmented"
		case f.typ == 0xff && f.code == 0x04: // declined: no peer for the service
			return "relay-declined"
		}
		return ""
	}
	s := f.head[i+4:]
	j := 0
	for j < len(s) && (s[j] == '-' || (s[j] >= 'a' && s[j] <= 'z')) {
		j++
	}
	return string(s[:j])
}

// roJudge: the grammar oracle, completeness and the identity of the responder
func roJudge(o *Out, sub, cid string, rw *rwConn, reqs []roReq, relayed bool) {
	requested := map[uint32]bool{}
	for _, q := range reqs {
		requested[q.id] = true
		fs := rw.snapshot(q.id)
		v := wireVerdict(q.id, fs, false)
		if v == "" && !complete(fs) {
			v = fmt.Sprintf("id %d: no complete response and no error frame on the caller-side wire: %v", q.id, fs)
		}
		if v == "" && relayed && fs[len(fs)-1].typ == 0xff && fs[len(fs)-1].code == 0x01 {
			// the relay's own timeout (clamped ttl, loaded machine): one terminal frame, no responder name
			o.Hist(sub + ":relay-timeout-under-load")
		} else if v == "" {
			whos := []string{}
			for _, f := range fs {
				if w := roWho(f); w != "" && (len(whos) == 0 || whos[len(whos)-1] != w) {
					whos = append(whos, w)
				}
			}
			if q.expect == "internal" {
				if len(whos) != 0 || fs[len(fs)-1].typ == 0xff {
					v = fmt.Sprintf("id %d: the internal handler answers this call with a complete response, got frames written by %v: %v", q.id, whos, fs)
				}
			} else if len(whos) != 1 || whos[0] != q.expect {
				v = fmt.Sprintf("id %d: frames written by %v, the options name the single responder %q: %v", q.id, whos, q.expect, fs)
			}
		}
		if v != "" {
			v = fmt.Sprintf("%s; request %v", v, q)
		}
		o.Hist(fmt.Sprintf("%s:%s/%s frames=%d reqframes>1=%v", sub, q.service, q.method, imin(len(fs), 4), q.nframes > 1))
		o.Hist(fmt.Sprintf("%s:responder=%s kind=%d", sub, q.expect, q.kind))
		o.Oracle(sub, fmt.Sprintf("%s-%d", cid, q.id), true, fmt.Sprint(cid, q.service, q.method, q.kind, q.nflush, q.nframes), v)
	}
	for _, id := range rw.ids() {
		if !requested[id] && id != 0xffffffff {
			o.Oracle(sub, fmt.Sprintf("%s-unrequested-%d", cid, id), true, "", fmt.Sprintf("frames %v for id %d which was never requested on this connection", rw.snapshot(id), id))
		}
	}
}

// roSend: all requests on one raw connection, then wait until every id is complete (at most
// wait), then a further quiet period in which a second responder's frames would arrive
func roSend(addr string, reqs []roReq, wait, quiet time.Duration) (*rwConn, string) {
	rw, err := dialRW(addr)
	if err != nil {
		return nil, "harness: dial: " + err.Error()
	}
	for _, q := range reqs {
		arg3 := []byte(strings.Repeat("q", 40+400*(q.nframes-1)))
		if err := rw.sendCall(q.id, 5000, q.service, q.method, []byte{byte(q.kind), byte(q.nflush)}, arg3, q.nframes); err != nil {
			return rw, "harness: write: " + err.Error()
		}
	}
	deadline := time.Now().Add(wait)
	for time.Now().Before(deadline) {
		all := true
		for _, q := range reqs {
			if !complete(rw.snapshot(q.id)) {
				all = false
			}
		}
		if all {
			break
		}
		time.Sleep(3 * time.Millisecond)
	}
	time.Sleep(quiet)
	rw.barrier()
	rw.settle(30 * time.Millisecond)
	return rw, ""
}

func engineRespOpts(rng *rand.Rand, n int, tier string, o *Out) {
	nServer := n / 2
	nRelay := n - nServer

	// ---------------------------------------------------------------- servers
	const svc = "svc"
	skipSet := []string{svc + "::skipReg", svc + "::skipUnreg"}
	type cfg struct {
		name    string
		handler bool
		skip    bool
		altMode int
	}
	cfgs := []cfg{
		{"skip+handler-known", true, true, 1},
		{"skip+handler-reject", true, true, 2},
		{"skip+handler-all", true, true, 0},
		{"handler-known", true, false, 1},
		{"handler-all", true, false, 0},
		{"default", false, false, 0},
		{"skip-without-handler", false, true, 0}, // SkipHandlerMethods alone does not change the root handler
	}
	methods := []string{svc + "::f", svc + "::skipReg", svc + "::skipUnreg", svc + "::altKnown", svc + "::nope"}
	registered := map[string]bool{svc + "::f": true, svc + "::skipReg": true}
	inSkip := map[string]bool{skipSet[0]: true, skipSet[1]: true}
	expectServer := func(c cfg, m string) string {
		native := func() string {
			if registered[m] {
				return "native"
			}
			return "no-handler"
		}
		if !c.handler {
			return native()
		}
		if c.skip && inSkip[m] {
			return native()
		}
		if c.altMode == 0 || (c.altMode == 1 && strings.Contains(m, "altKnown")) {
			return "alt"
		}
		return "alt-reject"
	}
	servers := make([]*tchannel.Channel, len(cfgs))
	for i, c := range cfgs {
		opts := &tchannel.ChannelOptions{}
		if c.handler {
			opts.Handler = roAlt{c.altMode}
		}
		if c.skip {
			opts.SkipHandlerMethods = skipSet
		}
		ch, err := tchannel.NewChannel(svc, opts)
		if err != nil {
			panic(err)
		}
		for m := range registered {
			ch.GetSubChannel(svc).Register(roNative("native"), m) // (Channel.Register panics under a plain alternate root handler)
		}
		if err := ch.ListenAndServe("127.0.0.1:0"); err != nil {
			panic(err)
		}
		defer ch.Close()
		servers[i] = ch
	}
	perConn := imax(5, imin(16, nServer/(2*len(cfgs)))) // every option set at least twice per run
	sampled := false
	for b := 0; nServer > 0; b++ {
		k := imin(perConn, nServer)
		nServer -= k
		ci := b % len(cfgs)
		c := cfgs[ci]
		var reqs []roReq
		ids := rng.Perm(4 * k)
		for i := 0; i < k; i++ {
			m := methods[(b/len(cfgs)+i)%len(methods)]
			if rng.Intn(4) == 0 {
				m = methods[rng.Intn(len(methods))]
			}
			q := roReq{id: uint32(10 + ids[i]), service: svc, method: m, kind: pick(rng, 0, 0, 1, 2), nflush: pick(rng, 0, 0, 1, 3), nframes: pick(rng, 1, 1, 2)}
			q.expect = expectServer(c, m)
			if i == k-1 {
				// the internal handlers of the "tchannel" service trump every root handler
				q.service, q.method, q.expect = "tchannel", "_gometa_runtime", "internal"
			}
			reqs = append(reqs, q)
		}
		rw, herr := roSend(servers[ci].PeerInfo().HostPort, reqs, 2*time.Second, 60*time.Millisecond)
		if herr != "" {
			o.Oracle("respopts-server", fmt.Sprintf("s%d", b), false, "", herr)
			if rw != nil {
				rw.c.Close()
			}
			continue
		}
		if !sampled {
			sampled = true
			o.Sample(map[string]interface{}{"sub": "respopts-server", "options": c.name, "first_requests": fmt.Sprint(reqs[:imin(3, len(reqs))])})
		}
		o.Hist("respopts-server:options=" + c.name)
		roJudge(o, "respopts-server", fmt.Sprintf("s%d-%s", b, c.name), rw, reqs, false)
		rw.c.Close()
	}

	// ---------------------------------------------------------------- two responders (robustness of the response object)
	func() {
		ch, err := tchannel.NewChannel(svc, &tchannel.ChannelOptions{Handler: roTwice{}})
		if err != nil {
			panic(err)
		}
		defer ch.Close()
		if err := ch.ListenAndServe("127.0.0.1:0"); err != nil {
			panic(err)
		}
		var reqs []roReq
		for i, kn := range [][2]int{{0, 0}, {0, 2}, {1, 0}, {2, 0}, {2, 3}, {0, 1}} {
			reqs = append(reqs, roReq{id: uint32(100 + i), service: svc, method: svc + "::f", kind: kn[0], nflush: kn[1], nframes: 1})
		}
		rw, herr := roSend(ch.PeerInfo().HostPort, reqs, 2*time.Second, 60*time.Millisecond)
		if herr != "" {
			o.Oracle("respopts-misuse", "m", false, "", herr)
			return
		}
		defer rw.c.Close()
		for _, q := range reqs {
			fs := rw.snapshot(q.id)
			// w ++ error frames: cut at the first terminal frame
			cut := len(fs)
			for i, f := range fs {
				if f.typ == 0xff || !f.more {
					cut = i + 1
					break
				}
			}
			v := wireVerdict(q.id, fs[:cut], false)
			for _, f := range fs[cut:] {
				if f.typ != 0xff && v == "" {
					v = fmt.Sprintf("id %d: response frame %v after the terminal frame (the response object must refuse it): %v", q.id, f, fs)
				}
			}
			for _, f := range fs {
				if roWho(f) == "third" && v == "" {
					v = fmt.Sprintf("id %d: a frame of the responder that came after the system error: %v", q.id, fs)
				}
			}
			o.Hist(fmt.Sprintf("respopts-misuse:first-responder-kind=%d extra-error-frames-after-terminal=%d", q.kind, len(fs)-cut))
			o.Oracle("respopts-misuse", fmt.Sprintf("m-%d", q.id), true, fmt.Sprint(q.kind, q.nflush), v)
		}
	}()

	// ---------------------------------------------------------------- relay with local handlers
	const relayMax = 150 * time.Millisecond
	backend, err := tchannel.NewChannel("backend", nil)
	if err != nil {
		panic(err)
	}
	defer backend.Close()
	for _, s := range []string{svc, "local"} {
		backend.GetSubChannel(s).Register(roNative("backend"), svc+"::f")
	}
	if err := backend.ListenAndServe("127.0.0.1:0"); err != nil {
		panic(err)
	}
	// topology 0: the relay host knows a remote peer for EVERY service name (the stub host falls
	// back to the root peer list), also for the locally handled ones; topology 1: a relay host
	// without any peer (every relayed call is declined)
	type topo struct {
		rly      *tchannel.Channel
		services []string
	}
	var topos []topo
	for t := 0; t < 2; t++ {
		rh := relaytest.NewStubRelayHost()
		rly, err := tchannel.NewChannel("relay", &tchannel.ChannelOptions{
			RelayHost:          rh,
			RelayMaxTimeout:    relayMax,
			RelayLocalHandlers: []string{"local", "localonly"},
		})
		if err != nil {
			panic(err)
		}
		defer rly.Close()
		for _, s := range []string{"local", "localonly"} {
			rly.GetSubChannel(s).Register(roNative("relay-local"), svc+"::f")
		}
		if err := rly.ListenAndServe("127.0.0.1:0"); err != nil {
			panic(err)
		}
		if t == 0 {
			rh.Add(svc, backend.PeerInfo().HostPort)
			rh.Add("local", backend.PeerInfo().HostPort)
			topos = append(topos, topo{rly, []string{"local", "localonly", svc, "elsewhere"}})
		} else {
			topos = append(topos, topo{rly, []string{"local", "nowhere", "localonly"}})
		}
	}
	expectRelay := func(t int, q roReq) string {
		switch q.service {
		case "local", "localonly":
			if q.nframes > 1 {
				return "relay-fragmented"
			}
			if q.method != svc+"::f" {
				return "no-handler"
			}
			return "relay-local"
		}
		if t == 1 {
			return "relay-declined"
		}
		if q.service == svc && q.method == svc+"::f" {
			return "backend"
		}
		return "no-handler" // the backend has no such service / method
	}
	perConn = 12
	sampled = false
	for b := 0; nRelay > 0; b++ {
		k := imin(perConn, nRelay)
		nRelay -= k
		ti := b % 2
		tp := topos[ti]
		var reqs []roReq
		ids := rng.Perm(4 * k)
		for i := 0; i < k; i++ {
			q := roReq{id: uint32(10 + ids[i]), service: tp.services[(b/2+i)%len(tp.services)], method: svc + "::f",
				kind: pick(rng, 0, 0, 1, 2), nflush: pick(rng, 0, 0, 1, 3), nframes: pick(rng, 1, 2, 3)}
			if rng.Intn(8) == 0 {
				q.method = svc + "::nope"
			}
			q.expect = expectRelay(ti, q)
			reqs = append(reqs, q)
		}
		// quiet period past the clamped ttl: a call that was answered AND relayed gets its second
		// terminal frame (response of the backend, declined, or the relay's timeout error) by then
		rw, herr := roSend(tp.rly.PeerInfo().HostPort, reqs, 2*time.Second, relayMax+200*time.Millisecond)
		if herr != "" {
			o.Oracle("respopts-relay", fmt.Sprintf("r%d", b), false, "", herr)
			if rw != nil {
				rw.c.Close()
			}
			continue
		}
		if !sampled {
			sampled = true
			o.Sample(map[string]interface{}{"sub": "respopts-relay", "relayLocalHandlers": "local, localonly", "topology": ti, "first_requests": fmt.Sprint(reqs[:imin(4, len(reqs))])})
		}
		o.Hist(fmt.Sprintf("respopts-relay:topology=%d", ti))
		roJudge(o, "respopts-relay", fmt.Sprintf("r%d-t%d", b, ti), rw, reqs, true)
		rw.c.Close()
	}
}
