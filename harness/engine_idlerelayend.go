package main

// Property C19, relay strengthening: relayed calls that END ABNORMALLY, then the sweep.
//
// The statement: "at each sweep a connection is closed IF and only if it is active, has no
// pending calls or relayed calls, and has neither sent nor received a call frame for at least the
// maximum idle time".  On a relaying channel the sweep learns about relayed calls from one
// counter per connection (Relayer.pending, through hasPendingCalls -> canClose); every way a
// relayed call can end must give the unit back on BOTH connections of the call.  The timelines
// of this file run a relay in the middle (raw callers and raw callees around a real relaying
// Channel with stub clock / ticker) and let relayed calls end by
//     ok        completion (call res)
//     errframe  an error frame of the callee
//     timeout   the relay's own per-call timers (both sides), with or without a late response
//     cancel    a cancel frame of the caller (PropagateCancel)
//     destslow  the call req cannot be queued towards the callee (send buffer full, stalled writer)
//     srcslow   the response cannot be queued towards the caller (dropped without error frame)
//     nodest    RelayCall.Destination() has no peer          (rejection after admission)
//     unreach   the destination peer cannot be connected     (rejection after admission)
//     starterr  RelayHost.Start fails                        (rejection before admission)
//     calleelost / callerlost   the other connection of the call is lost; the relay's timer ends it
// then advance the stub clock by MaxIdleTime and tick.  The oracle is evTick's (written from the
// statement, own bookkeeping): every connection that is active, carries no pending / relayed call
// and was silent for MaxIdleTime IS closed by that sweep, and no other one is.  "Carries no
// relayed call" is judged from the wire and from the relay's item tables (no live item of the
// connection: VerifC19xRelayLive), never from the counter the sweep itself reads.
//
// sub tl  (engine idlehealth): the events are those of Model/IdleHealthSys.v (run_tl): call frames
//         read / written, EPend for the relay counter of both sides; the model is compared too.
// sub tlx (engine idlehealth): timelines with a lost connection (not an event of the model):
//         oracle only.
// sub fine (engine sweepfine, kind 6): the same episodes, then the sweep driven through its eight
//         schedule points (with and without other events while the poller is parked).

import (
	"errors"
	"fmt"
	"math/rand"
	"net"
	"sort"
	"strings"
	"sync"
	"syscall"
	"time"

	tchannel "github.com/uber/tchannel-go"
	"github.com/uber/tchannel-go/raw"
	"github.com/uber/tchannel-go/relay"
	"golang.org/x/net/context"
)

// ---------------------------------------------------------------- stallable connections

// net.Conn whose Write can be held and resumed (a slow peer / a full socket buffer)
type c19xStall struct {
	net.Conn
	mu      sync.Mutex
	held    bool
	resume  chan struct{}
	entered chan struct{}
}

func (s *c19xStall) Write(b []byte) (int, error) {
	s.mu.Lock()
	if s.held {
		ch := s.resume
		s.mu.Unlock()
		select {
		case s.entered <- struct{}{}:
		default:
		}
		<-ch
	} else {
		s.mu.Unlock()
	}
	return s.Conn.Write(b)
}
func (s *c19xStall) hold() {
	s.mu.Lock()
	if !s.held {
		s.held, s.resume = true, make(chan struct{})
	}
	s.mu.Unlock()
}
func (s *c19xStall) letGo() {
	s.mu.Lock()
	if s.held {
		s.held = false
		close(s.resume)
	}
	s.mu.Unlock()
}

// every connection of the channel (dialed or accepted) is wrapped, in creation order
type c19xNet struct {
	mu   sync.Mutex
	list []*c19xStall
}

func (n *c19xNet) wrap(c net.Conn) net.Conn {
	s := &c19xStall{Conn: c, entered: make(chan struct{}, 1)}
	n.mu.Lock()
	n.list = append(n.list, s)
	n.mu.Unlock()
	return s
}
func (n *c19xNet) count() int { n.mu.Lock(); defer n.mu.Unlock(); return len(n.list) }
func (n *c19xNet) at(i int) *c19xStall {
	n.mu.Lock()
	defer n.mu.Unlock()
	if i < len(n.list) {
		return n.list[i]
	}
	return nil
}
func (n *c19xNet) letAllGo() {
	n.mu.Lock()
	l := append([]*c19xStall{}, n.list...)
	n.mu.Unlock()
	for _, s := range l {
		s.letGo()
	}
}

type c19xListener struct {
	net.Listener
	nw *c19xNet
}

func (l *c19xListener) Accept() (net.Conn, error) {
	c, err := l.Listener.Accept()
	if err != nil {
		return nil, err
	}
	return l.nw.wrap(c), nil
}

// ---------------------------------------------------------------- relay host

// service "r<hostport>": served by the peer <hostport>; "u<hostport>": the same, the test uses an
// address nobody listens on; "n...": the call has no destination; "e...": Start fails
type c19xHost struct{ ch *tchannel.Channel }
type c19xCall struct {
	peer *tchannel.Peer
	ok   bool
}

func (h *c19xHost) SetChannel(ch *tchannel.Channel) { h.ch = ch }
func (h *c19xHost) Start(f relay.CallFrame, _ *relay.Conn) (tchannel.RelayCall, error) {
	svc := string(f.Service())
	if len(svc) < 2 {
		return nil, errors.New("unknown relay service")
	}
	switch svc[0] {
	case 'r', 'u':
		return &c19xCall{peer: h.ch.RootPeers().GetOrAdd(svc[1:]), ok: true}, nil
	case 'n':
		return &c19xCall{}, nil
	}
	return nil, errors.New("relay host refuses the call")
}
func (c *c19xCall) Destination() (*tchannel.Peer, bool) { return c.peer, c.ok }
func (c *c19xCall) SentBytes(uint16)                    {}
func (c *c19xCall) ReceivedBytes(uint16)                {}
func (c *c19xCall) CallResponse(relay.RespFrame)        {}
func (c *c19xCall) Succeeded()                          {}
func (c *c19xCall) Failed(string)                       {}
func (c *c19xCall) End()                                {}

// ---------------------------------------------------------------- the relay timeline

type c19xTL struct {
	t        *c19TL
	rng      *rand.Rand
	nw       *c19xNet
	stalls   map[int]*c19xStall
	deadAddr string
	deadFd   int
	noModel  bool // a connection was lost: not an event of Model/IdleHealthSys.v
	kinds    []string
	stuck    int // relay counters that did not come down within the grace period (not judged here)
}

var c19xKinds = []string{"ok", "errframe", "timeout", "timeout-late", "cancel", "destslow", "srcslow", "nodest", "unreach", "starterr", "calleelost", "callerlost",
	// calls on a relay connection that are NOT relayed (engine_c19local.go): they live in the exchange sets only
	"local", "orig", "localmix", "origmix"}

// an address nobody listens on and nobody else can get while the timeline runs: a socket that is
// bound but never listens (connects are refused at once)
func c19xDeadAddr() (string, int) {
	fd, err := syscall.Socket(syscall.AF_INET, syscall.SOCK_STREAM, 0)
	if err != nil {
		return "127.0.0.1:1", -1
	}
	if err := syscall.Bind(fd, &syscall.SockaddrInet4{Port: 0, Addr: [4]byte{127, 0, 0, 1}}); err != nil {
		syscall.Close(fd)
		return "127.0.0.1:1", -1
	}
	sa, err := syscall.Getsockname(fd)
	if err != nil {
		syscall.Close(fd)
		return "127.0.0.1:1", -1
	}
	return fmt.Sprintf("127.0.0.1:%d", sa.(*syscall.SockaddrInet4).Port), fd
}

func c19xSetup(rng *rand.Rand, maxIdle int64, cfg c19Cfg) (*c19xTL, string) {
	t := &c19TL{rng: rng, clockSane: true, hist: map[string]int{}}
	t.idleInterval, t.maxIdle = 30e9, maxIdle
	t.hInterval, t.hTimeout, t.hFail = 0, 2e9, int64(pick(rng, 1, 2, 3))
	t.effF = t.hFail
	t.relayMode = true
	t.t0 = []int64{1700000000e9, 0, 1000}[rng.Intn(3)]
	t.clock = &c19Clock{now: time.Unix(0, t.t0), hit: make(chan struct{}, 1)}
	t.tickers = &c19Tickers{}
	t.sink = &c19Sink{health: map[uint32][]c19HealthLog{}}
	t.block = &c19Block{arrived: make(chan struct{}, 16), rel: map[string]chan struct{}{}}
	t.cfg = cfg
	x := &c19xTL{t: t, rng: rng, nw: &c19xNet{}, stalls: map[int]*c19xStall{}}
	x.deadAddr, x.deadFd = c19xDeadAddr()
	copts := tchannel.ConnectionOptions{
		SendBufferSize:  2,
		PropagateCancel: true,
		HealthChecks:    tchannel.HealthCheckOptions{Interval: 0, Timeout: time.Duration(t.hTimeout), FailuresToClose: int(t.hFail)},
	}
	opts := &tchannel.ChannelOptions{
		TimeNow: t.clock.Now, TimeTicker: t.tickers.New,
		IdleCheckInterval: time.Duration(t.idleInterval), MaxIdleTime: time.Duration(t.maxIdle),
		DefaultConnectionOptions: copts,
		RelayHost:                &c19xHost{},
		RelayLocalHandlers:       c19lLocalHandlers, // (engine_c19local.go) the channel's own service is handled locally
		RelayTimerVerification:   rng.Intn(2) == 0,
		Dialer: func(ctx context.Context, network, hp string) (net.Conn, error) {
			d := net.Dialer{}
			c, err := d.DialContext(ctx, network, hp)
			if err != nil {
				return nil, err
			}
			return x.nw.wrap(c), nil
		},
	}
	t.cfg.apply(opts, t.sink)
	ch, err := tchannel.NewChannel("verif-c19", opts)
	if err != nil {
		return nil, "NewChannel: " + err.Error()
	}
	t.ch = ch
	ch.Register(raw.Wrap(t.block), "block")
	ln, err := net.Listen("tcp", "127.0.0.1:0")
	if err != nil {
		x.cleanup()
		return nil, "listen: " + err.Error()
	}
	if err := ch.Serve(&c19xListener{Listener: ln, nw: x.nw}); err != nil {
		ln.Close()
		x.cleanup()
		return nil, "serve: " + err.Error()
	}
	t.idleTicker = t.tickers.waitNew(0, 2*time.Second)
	if t.idleTicker == nil {
		x.cleanup()
		return nil, "no sweep poller"
	}
	return x, ""
}

func (x *c19xTL) cleanup() {
	x.nw.letAllGo()
	x.t.cleanup()
	if x.deadFd >= 0 {
		syscall.Close(x.deadFd)
		x.deadFd = -1
	}
}

func (x *c19xTL) newConn(outbound bool) *c19Conn {
	n := x.nw.count()
	c := x.t.evNewConn(outbound)
	if c != nil {
		x.stalls[c.id] = x.nw.at(n)
		if x.stalls[c.id] == nil {
			x.t.harnessProblem("connection %d has no stall wrapper", c.id)
		}
	}
	return c
}

func (x *c19xTL) callReq(id uint32, ttlMs uint32, service string) [][]byte {
	first := rawCallReqHeader(ttlMs, make([]byte, 25), service, [][2]string{{"as", "raw"}, {"cn", "verif-raw"}})
	return buildRawCallFrames(true, id, first, 0, [3][]byte{[]byte("relayed"), []byte("a2"), []byte(fmt.Sprint(id))}, 65519)
}

func (x *c19xTL) rawWrite(c *c19Conn, frames ...[]byte) bool {
	for _, fr := range frames {
		c.sock.SetWriteDeadline(time.Now().Add(2 * time.Second))
		if _, err := c.sock.Write(fr); err != nil {
			x.t.harnessProblem("raw write on connection %d: %v", c.id, err)
			return false
		}
	}
	return true
}

func (x *c19xTL) expectWithin(c *c19Conn, mt byte, what string, d time.Duration) *rawFrame {
	f, ok := c.next(d)
	if !ok || f == nil {
		x.t.harnessProblem("raw peer of connection %d: no frame while waiting for %s (closed=%v)", c.id, what, !ok)
		return nil
	}
	if f.Type != mt {
		x.t.harnessProblem("raw peer of connection %d: got frame type %#x while waiting for %s", c.id, f.Type, what)
		return nil
	}
	return f
}

// The relayed calls of connection c have ended as far as the harness can tell from the wire.
// Wait until the relay's item tables agree (no more live items than calls in flight), then give
// the goroutine that ended the last item a generous grace period to reach decrementPending.  The
// counter itself is NOT judged here: the sweep's decision is (evTick's oracle).
func (t *c19TL) c19xSettle(c *c19Conn) {
	want := c.oRelayPending
	dl := time.Now().Add(6 * time.Second)
	for {
		o, i, ok := tchannel.VerifC19xRelayLive(c.conn)
		if !ok || o+i <= want {
			break
		}
		if time.Now().After(dl) {
			t.harnessProblem("connection %d: %d live relay item(s) although only %d relayed call(s) are in flight", c.id, o+i, want)
			return
		}
		time.Sleep(100 * time.Microsecond)
	}
	dl = time.Now().Add(2 * time.Second)
	for t.state(c).RelayPending > want && time.Now().Before(dl) {
		time.Sleep(100 * time.Microsecond)
	}
	if t.state(c).RelayPending > want {
		t.hist["x:counter-above-live-items-after-2s"]++
	}
}

// stall the writer of c and fill its send channel; returns the number of filler frames queued
func (x *c19xTL) wedge(c *c19Conn) int {
	t := x.t
	s := x.stalls[c.id]
	if s == nil {
		t.harnessProblem("no stall wrapper for connection %d", c.id)
		return 0
	}
	s.hold()
	c.junkN++
	if !tchannel.VerifC19Inject(c.conn, 0xd1, 0x60000000+c.junkN, nil) {
		t.harnessProblem("wedge: first filler not queued on connection %d", c.id)
		s.letGo()
		return 0
	}
	select {
	case <-s.entered:
	case <-time.After(3 * time.Second):
		t.harnessProblem("wedge: writer of connection %d did not enter Write", c.id)
		s.letGo()
		return 1
	}
	n := 1
	for k := 0; k < 64; k++ {
		c.junkN++
		if !tchannel.VerifC19Inject(c.conn, 0xd1, 0x60000000+c.junkN, nil) {
			return n
		}
		n++
	}
	t.harnessProblem("wedge: send channel of connection %d never fills", c.id)
	return n
}

// resume the writer: the fillers (ping responses: never activity) reach the raw peer
func (x *c19xTL) unwedge(c *c19Conn, n int) {
	t := x.t
	if s := x.stalls[c.id]; s != nil {
		s.letGo()
	}
	for k := 0; k < n && t.anomaly == ""; k++ {
		if t.expect(c, 0xd1, "filler frame") == nil {
			return
		}
		t.ev(3, int64(c.id), 0xd1)
		t.obsStamps(c)
	}
}

// a ping request of the raw peer and its response: every frame written before it has been handled
func (x *c19xTL) syncPing(c *c19Conn) bool {
	t := x.t
	c.junkN++
	pid := 0x50000000 + c.junkN
	if err := writeRawFrame(c.sock, 0xd0, pid, nil); err != nil {
		t.harnessProblem("raw write: %v", err)
		return false
	}
	f := t.expect(c, 0xd1, "ping response (sync)")
	if f == nil {
		return false
	}
	if f.ID != pid {
		t.harnessProblem("ping response with id %d, want %d", f.ID, pid)
		return false
	}
	return true
}
func (x *c19xTL) logSyncPing(c *c19Conn) {
	t := x.t
	t.ev(2, int64(c.id), 0xd0)
	t.obsStamps(c)
	t.ev(3, int64(c.id), 0xd1)
	t.obsStamps(c)
}

// a relayed call from a to b is admitted and its request reaches the raw peer of b.
// (The stamps of a after the request are reported with the write stamp sampled before: with a
// short TTL the relay's timeout may already have written its error frame to a.)
func (x *c19xTL) relayStart(a, b *c19Conn, ttlMs uint32) (srcID, destID uint32, ok bool) {
	t := x.t
	t.nextInID++
	id := 0x100 + t.nextInID
	lw0 := t.state(a).LastWrite
	if !x.rawWrite(a, x.callReq(id, ttlMs, "r"+b.hostPort)...) {
		return 0, 0, false
	}
	f := t.expect(b, 0x03, "relayed call request")
	if f == nil {
		return 0, 0, false
	}
	now := t.clock.get()
	a.oLastCall, b.oLastCall = now, now
	a.oRelayPending++
	b.oRelayPending++
	t.ev(2, int64(a.id), 3)
	t.obs = append(t.obs, t.state(a).LastRead, lw0)
	t.ev(4, int64(a.id), 2, 1)
	t.obsState(a)
	t.ev(4, int64(b.id), 2, 1)
	t.obsState(b)
	t.ev(3, int64(b.id), 3)
	t.obsStamps(b)
	t.checkStillAsExpected(b, "a relayed call")
	t.hist["ev:relay-start"]++
	return id, f.ID, true
}

func (x *c19xTL) ended(a, b *c19Conn) {
	a.oRelayPending--
	b.oRelayPending--
	x.t.c19xSettle(a)
	x.t.c19xSettle(b)
}

// one relayed call from a to b that ends in the given way
func (x *c19xTL) episode(kind string, a, b *c19Conn) {
	t := x.t
	x.kinds = append(x.kinds, kind)
	t.hist["x:end="+kind]++
	tracing := make([]byte, 25)
	switch kind {
	case "ok":
		t.evRelayStart(a, b)
		if t.anomaly == "" && len(b.relayOut) > 0 {
			t.evRelayFinish(b)
		}

	case "errframe":
		srcID, destID, ok := x.relayStart(a, b, 60000)
		if !ok {
			return
		}
		if err := writeRawFrame(b.sock, 0xff, destID, rawErrorPayload(byte(pick(x.rng, 3, 5, 6)), tracing, "callee says no")); err != nil {
			t.harnessProblem("raw write: %v", err)
			return
		}
		f := t.expect(a, 0xff, "relayed error frame")
		if f == nil {
			return
		}
		if f.ID != srcID {
			t.harnessProblem("relayed error frame id %d, want %d", f.ID, srcID)
		}
		now := t.clock.get()
		a.oLastCall, b.oLastCall = now, now
		x.ended(a, b)
		t.ev(2, int64(b.id), 0xff)
		t.obsStamps(b)
		t.ev(4, int64(b.id), 2, -1)
		t.obsState(b)
		t.ev(4, int64(a.id), 2, -1)
		t.obsState(a)
		t.ev(3, int64(a.id), 0xff)
		t.obsStamps(a)

	case "timeout", "timeout-late":
		srcID, destID, ok := x.relayStart(a, b, uint32(pick(x.rng, 30, 60, 90)))
		if !ok {
			return
		}
		f := x.expectWithin(a, 0xff, "the relay's timeout error frame", 6*time.Second)
		if f == nil {
			return
		}
		if f.ID != srcID {
			t.harnessProblem("timeout error frame id %d, want %d", f.ID, srcID)
		}
		a.oLastCall = t.clock.get()
		x.ended(a, b)
		t.ev(3, int64(a.id), 0xff)
		t.obsStamps(a)
		t.ev(4, int64(a.id), 2, -1)
		t.obsState(a)
		t.ev(4, int64(b.id), 2, -1)
		t.obsState(b)
		if kind == "timeout-late" && t.anomaly == "" {
			// the callee answers after all: the frame meets a tombstone and is dropped; it is a
			// call frame the connection received
			if !x.rawWrite(b, t.callResFrames(destID)...) || !x.syncPing(b) {
				return
			}
			b.oLastCall = t.clock.get()
			t.ev(2, int64(b.id), 4)
			t.obsStamps(b)
			x.logSyncPing(b)
		}

	case "cancel":
		srcID, destID, ok := x.relayStart(a, b, 60000)
		if !ok {
			return
		}
		if err := writeRawFrame(a.sock, 0xc0, srcID, t.junkPayload(0xc0)); err != nil {
			t.harnessProblem("raw write: %v", err)
			return
		}
		f := t.expect(b, 0xc0, "relayed cancel frame")
		if f == nil {
			return
		}
		if f.ID != destID {
			t.harnessProblem("relayed cancel id %d, want %d", f.ID, destID)
		}
		x.ended(a, b)
		t.ev(2, int64(a.id), 0xc0)
		t.obsStamps(a)
		t.ev(4, int64(b.id), 2, -1)
		t.obsState(b)
		t.ev(4, int64(a.id), 2, -1)
		t.obsState(a)
		t.ev(3, int64(b.id), 0xc0)
		t.obsStamps(b)

	case "destslow":
		n := x.wedge(b)
		if t.anomaly != "" {
			return
		}
		t.nextInID++
		id := 0x100 + t.nextInID
		lw0 := t.state(a).LastWrite
		if !x.rawWrite(a, x.callReq(id, 60000, "r"+b.hostPort)...) {
			return
		}
		f := t.expect(a, 0xff, "error frame for a call whose destination is slow")
		if f == nil {
			return
		}
		if f.ID != id {
			t.harnessProblem("error frame id %d, want %d", f.ID, id)
		}
		a.oLastCall = t.clock.get()
		t.c19xSettle(a)
		t.c19xSettle(b)
		t.ev(2, int64(a.id), 3)
		t.obs = append(t.obs, t.state(a).LastRead, lw0)
		t.ev(4, int64(a.id), 2, 1)
		t.obsState(a)
		t.ev(4, int64(b.id), 2, 1)
		t.obsState(b)
		t.ev(4, int64(b.id), 2, -1)
		t.obsState(b)
		t.ev(4, int64(a.id), 2, -1)
		t.obsState(a)
		t.ev(3, int64(a.id), 0xff)
		t.obsStamps(a)
		x.unwedge(b, n)

	case "srcslow":
		_, destID, ok := x.relayStart(a, b, 60000)
		if !ok {
			return
		}
		n := x.wedge(a)
		if t.anomaly != "" {
			return
		}
		// the response cannot be queued towards the caller: it is dropped, no error frame either
		if !x.rawWrite(b, t.callResFrames(destID)...) || !x.syncPing(b) {
			return
		}
		b.oLastCall = t.clock.get()
		x.ended(a, b)
		t.ev(2, int64(b.id), 4)
		t.obsStamps(b)
		t.ev(4, int64(a.id), 2, -1)
		t.obsState(a)
		t.ev(4, int64(b.id), 2, -1)
		t.obsState(b)
		x.logSyncPing(b)
		x.unwedge(a, n)

	case "nodest", "unreach", "starterr":
		t.nextInID++
		id := 0x100 + t.nextInID
		svc := map[string]string{"nodest": "n-nobody", "unreach": "u" + x.deadAddr, "starterr": "e-refused"}[kind]
		lw0 := t.state(a).LastWrite
		if !x.rawWrite(a, x.callReq(id, 60000, svc)...) {
			return
		}
		f := x.expectWithin(a, 0xff, "error frame for a rejected relayed call", 5*time.Second)
		if f == nil {
			return
		}
		if f.ID != id {
			t.harnessProblem("error frame id %d, want %d", f.ID, id)
		}
		a.oLastCall = t.clock.get()
		t.c19xSettle(a)
		t.ev(2, int64(a.id), 3)
		t.obs = append(t.obs, t.state(a).LastRead, lw0)
		if kind != "starterr" {
			t.ev(4, int64(a.id), 2, 1)
			t.obsState(a)
			t.ev(4, int64(a.id), 2, -1)
			t.obsState(a)
		}
		t.ev(3, int64(a.id), 0xff)
		t.obsStamps(a)

	case "calleelost":
		// the callee's connection dies with the call in flight; the relay's timer ends the call
		srcID, _, ok := x.relayStart(a, b, uint32(pick(x.rng, 40, 80)))
		if !ok {
			return
		}
		x.noModel = true
		b.sock.Close()
		x.lost(b)
		f := x.expectWithin(a, 0xff, "timeout error frame after the callee was lost", 6*time.Second)
		if f == nil {
			return
		}
		if f.ID != srcID {
			t.harnessProblem("error frame id %d, want %d", f.ID, srcID)
		}
		a.oLastCall = t.clock.get()
		x.ended(a, b)

	case "callerlost":
		// the caller's connection dies with the call in flight; the callee-side item (not the
		// originator) is ended by its timer
		_, _, ok := x.relayStart(a, b, uint32(pick(x.rng, 40, 80)))
		if !ok {
			return
		}
		x.noModel = true
		a.sock.Close()
		x.lost(a)
		x.ended(a, b)

	case "local", "orig", "localmix", "origmix":
		// a call the relay channel handles itself / originates itself, pending over a sweep (engine_c19local.go)
		x.c19lEpisode(kind, a, b)
	}
	if t.anomaly == "" {
		for _, c := range []*c19Conn{a, b} {
			if c != nil && !c.dead {
				t.checkStillAsExpected(c, "a relayed call that ended by "+kind)
			}
		}
	}
}

// the raw peer closed the socket: the connection is gone (connection error, not a sweep)
func (x *c19xTL) lost(c *c19Conn) {
	t := x.t
	dl := time.Now().Add(3 * time.Second)
	for t.state(c).State != 4 && time.Now().Before(dl) {
		time.Sleep(100 * time.Microsecond)
	}
	if t.state(c).State != 4 {
		t.harnessProblem("connection %d did not close after its peer went away", c.id)
	}
	c.oActive, c.dead, c.cleanLoop = false, true, false
	t.settleClosed(c)
}

func (x *c19xTL) pickPair() (a, b *c19Conn) {
	t := x.t
	var srcs, dsts []*c19Conn
	for _, c := range t.conns {
		if c.dead || t.state(c).State != 1 {
			continue
		}
		if c.outbound {
			dsts = append(dsts, c)
		} else {
			srcs = append(srcs, c)
		}
	}
	if len(srcs) == 0 || len(dsts) == 0 {
		return nil, nil
	}
	return srcs[x.rng.Intn(len(srcs))], dsts[x.rng.Intn(len(dsts))]
}

// something small between two episodes
func (x *c19xTL) filler() {
	t := x.t
	var live []*c19Conn
	for _, c := range t.conns {
		if !c.dead && t.state(c).State == 1 {
			live = append(live, c)
		}
	}
	if len(live) == 0 {
		return
	}
	c := live[x.rng.Intn(len(live))]
	switch x.rng.Intn(6) {
	case 0:
		t.evAdvance(int64(pick(x.rng, 0, 1, 1e9)))
	case 1:
		dt := t.maxIdle / 3
		if dt > 100e9 {
			dt = 100e9
		}
		t.evAdvance(dt)
	case 2:
		t.evRead(c, []byte{0x04, 0x14, 0xd0, 0xc1, 0x77}[x.rng.Intn(5)])
	case 3:
		t.evWrite(c, []byte{0x04, 0x13, 0xd1, 0xc0}[x.rng.Intn(4)])
	case 4:
		t.evTick()
	}
}

// advance the clock to MaxIdleTime (-1 / +0 / +1 / +1s) after the last call frame of any
// connection, and tick: every connection without a call in flight is due
func (x *c19xTL) finale(delta int64) {
	t := x.t
	last := time.Unix(0, t.t0)
	for _, c := range t.conns {
		if !c.dead && c.oLastCall.After(last) {
			last = c.oLastCall
		}
	}
	need := int64(last.Add(time.Duration(t.maxIdle)).Sub(t.clock.get())) + delta
	if need < 0 {
		need = 0
	}
	t.evAdvance(need)
	t.evTick()
}

func (x *c19xTL) kindsID() string {
	short := map[string]string{"ok": "ok", "errframe": "ef", "timeout": "to", "timeout-late": "tl", "cancel": "cn", "destslow": "ds", "srcslow": "ss",
		"nodest": "nd", "unreach": "ur", "starterr": "se", "calleelost": "el", "callerlost": "rl",
		"local": "lo", "orig": "og", "localmix": "lm", "origmix": "om"}
	var s []string
	for _, k := range x.kinds {
		s = append(s, short[k])
	}
	return strings.Join(s, ".")
}

// idx < len(c19xKinds)*2: directed (one episode of each kind, connection sets 2 / 3); then random
func c19xRunTimeline(rng *rand.Rand, idx int, tier string, o *Out) {
	maxIdle := []int64{180e9, 180e9, 5e9, 1000, 3600e9}[rng.Intn(5)]
	x, problem := c19xSetup(rng, maxIdle, c19NextCfg())
	if x == nil {
		o.Hist("tl:harness-anomaly")
		o.Oracle("tl-anomaly", fmt.Sprintf("x%d", idx), false, "", "")
		fmt.Fprintf(&anomalies, "x%d: %s\n", idx, problem)
		return
	}
	t := x.t
	defer x.cleanup()
	in := []int64{t.idleInterval, t.maxIdle, t.hInterval, t.hTimeout, t.hFail, t.t0}
	directed := idx < 2*len(c19xKinds)
	nconn := 2 + rng.Intn(3)
	if directed {
		nconn = 2 + idx/len(c19xKinds)
	}
	for i := 0; i < nconn && t.anomaly == ""; i++ {
		x.newConn(i%2 == 1)
		if rng.Intn(3) == 0 {
			t.evAdvance(int64(rng.Intn(50)) * 1e9)
		}
	}
	nep := 1 + rng.Intn(4)
	if directed {
		nep = 1
	}
	for e := 0; e < nep && t.anomaly == "" && t.verdict == ""; e++ {
		a, b := x.pickPair()
		if a == nil {
			break
		}
		kind := c19xKinds[rng.Intn(len(c19xKinds))]
		if directed {
			kind = c19xKinds[idx%len(c19xKinds)]
		}
		x.episode(kind, a, b)
		if t.anomaly != "" || t.verdict != "" {
			break
		}
		if !directed || rng.Intn(2) == 0 {
			for k := rng.Intn(3); k > 0 && t.anomaly == "" && t.verdict == ""; k-- {
				x.filler()
			}
		}
		if rng.Intn(3) == 0 && t.anomaly == "" && t.verdict == "" {
			x.finale(int64(pick(rng, 0, 0, 1, 1e9)))
		}
	}
	if t.anomaly == "" && t.verdict == "" {
		d := int64(pick(rng, -1, 0, 0, 1, 1e9))
		x.finale(d)
		if d < 0 && t.anomaly == "" && t.verdict == "" {
			// one nanosecond short: nothing is due yet; now it is
			x.finale(0)
		}
	}
	for _, c := range t.conns {
		t.finalObs(c)
	}
	id := fmt.Sprintf("x%d-%s-%v", idx, x.kindsID(), t.cfg)
	full := append(append([]int64{}, in...), int64(t.nev))
	full = append(full, t.events...)
	if t.anomaly != "" {
		o.Hist("tl:harness-anomaly")
		o.Oracle("tl-anomaly", id, false, "", "")
		fmt.Fprintf(&anomalies, "%s: %s (options %v, %d events)\n", id, t.anomaly, in, t.nev)
		return
	}
	keys := make([]string, 0, len(t.hist))
	for k := range t.hist {
		keys = append(keys, k)
	}
	sort.Strings(keys)
	for _, k := range keys {
		for i := 0; i < t.hist[k]; i++ {
			o.Hist(k)
		}
	}
	o.Hist("tl:cfg=" + t.cfg.String())
	o.Hist(fmt.Sprintf("tl:conns=%d", len(t.conns)))
	o.Hist("tl:relay=true")
	o.Hist("tl:relay-end-timeline")
	if x.noModel {
		// a lost connection is not an event of the model: judged by the oracle alone
		o.Hist("tlx:lost-connection")
		o.Oracle("tlx", id, true, id, t.verdict)
		return
	}
	o.Case("tl", id, full, t.obs, true, t.verdict)
}

// ---------------------------------------------------------------- sweepfine, kind 6

// the same episodes on a relay in the middle, then ONE sweep driven through its schedule points:
// inter = 0: nothing else happens during the sweep (every connection is judged by the iff as it
// stands), inter > 0: other events while the poller is parked
func c19xFineCase(rng *rand.Rand, idx int, tier string, o *Out) {
	kinds := []string{"ok", "errframe", "timeout", "timeout-late", "cancel", "destslow", "srcslow", "nodest", "unreach", "starterr"}
	maxIdle := []int64{180e9, 5e9, 1000}[rng.Intn(3)]
	x, problem := c19xSetup(rng, maxIdle, c19CfgAt(idx+idx/8))
	id := fmt.Sprintf("d6_%d", idx)
	if x == nil {
		o.Hist("fine:harness-anomaly")
		o.Oracle("fine-anomaly", id, false, "", "")
		fmt.Fprintf(&anomalies, "%s: %s\n", id, problem)
		return
	}
	t := x.t
	f := &c19Fine{t: t, rng: rng}
	f.s = NewSched()
	for _, p := range c19fPoints {
		f.s.ParkAt(c19fPrefix + p)
	}
	defer func() {
		f.s.Close()
		x.cleanup()
	}()
	in := []int64{1, t.idleInterval, t.maxIdle, t.hInterval, t.hTimeout, t.hFail, t.t0}
	nconn := 2 + (idx/len(kinds))%2
	for i := 0; i < nconn && t.anomaly == ""; i++ {
		x.newConn(i%2 == 1)
		f.flushObs()
	}
	nep := 1 + (idx/(2*len(kinds)))%2
	for e := 0; e < nep && t.anomaly == "" && t.verdict == ""; e++ {
		a, b := x.pickPair()
		if a == nil {
			break
		}
		kind := kinds[(idx+e*3)%len(kinds)]
		x.episode(kind, a, b)
		f.flushObs()
	}
	inter := 0
	if idx >= 4*len(kinds) {
		inter = 1
	}
	if t.anomaly == "" && t.verdict == "" {
		t.evAdvance(t.maxIdle + int64(pick(rng, 0, 1, 5e9)))
		f.flushObs()
		f.sweep(nil, inter)
	}
	f.flushObs()
	for _, c := range t.conns {
		t.finalObs(c)
	}
	final := t.obs
	t.obs = nil
	id = fmt.Sprintf("d6_%d_%s_i%d-%v", idx, x.kindsID(), inter, t.cfg)
	if t.anomaly != "" {
		o.Hist("fine:harness-anomaly")
		o.Oracle("fine-anomaly", id, false, "", "")
		fmt.Fprintf(&anomalies, "%s: %s (options %v, %d labels)\n", id, t.anomaly, in, t.nev)
		return
	}
	var obs []int64
	for _, s := range f.slots {
		obs = append(obs, s...)
	}
	obs = append(obs, final...)
	full := append(append([]int64{}, in...), int64(t.nev))
	full = append(full, t.events...)
	keys := make([]string, 0, len(t.hist))
	for k := range t.hist {
		keys = append(keys, k)
	}
	sort.Strings(keys)
	for _, k := range keys {
		for i := 0; i < t.hist[k]; i++ {
			o.Hist("fine:" + k)
		}
	}
	o.Hist("fine:kind=6")
	o.Hist("fine:cfg=" + t.cfg.String())
	o.Hist(fmt.Sprintf("fine:conns=%d", len(t.conns)))
	o.Hist(fmt.Sprintf("fine:sweeps=%d", f.sweeps))
	o.Hist(fmt.Sprintf("fine:closed-by-sweep=%d", f.closes))
	o.Hist(fmt.Sprintf("fine:events-while-parked=%d", minInt(f.inter, 10)))
	o.Case("fine", id, full, obs, f.sweeps > 0, t.verdict)
}
