package main

// Engine "reqsel" (property C15): what peer selection is FED with.
//
// (a) retried requests: a real RequestState is taken through 3..6 attempts on the REAL peer list
//     of a channel or of an isolated sub-channel, exactly as SubChannel.BeginCall / Peer.BeginCall
//     do it:   p, err := list.Get(rs.PrevSelectedPeers());  rs.AddSelectedPeer(p.HostPort())
//     over pools in which 2-3 ports share a host, with scores arranged so that the siblings of an
//     already tried peer rank AHEAD of the peers on untried hosts, and with other activity on the
//     list between the attempts.  Sub "reqsel": the same history through the extracted model
//     (Model/ReqSel.v run_reqsel: PeerList model + Retry.v's accumulated set), observable = result,
//     heap dump and the request's set after every attempt.
//     Oracles from the statement: the set handed to selection holds every tried peer and every
//     tried host and nothing else; the selected peer's host was tried only if no member on an
//     untried host exists, its host:port only if no untried member exists; minimum rank in its tier.
// (b) the same through the real call path: Channel.RunWithRetry + SubChannel.BeginCall to peers
//     on 127.0.0.{1,2,3,4}:{1,2,3} where nothing listens (connection refused, retried).
// (c) sub "peerload": inert connections with chosen exchange-set sizes; NumConnections,
//     NumPendingOutbound and the built-in scores against Model/ReqSel.v run_peerload and against
//     the independently known number of our pending calls.

import (
	"fmt"
	"math/rand"
	"sort"
	"strings"
	"time"

	tchannel "github.com/uber/tchannel-go"
	"golang.org/x/net/context"
)

// host of a host:port as the STATEMENT means it: an IPv6 literal in brackets is the host;
// otherwise the text before the ':' of the port (the whole string when there is no port)
func c15rsHost(hp string) string {
	if strings.HasPrefix(hp, "[") {
		if i := strings.Index(hp, "]:"); i > 0 {
			return hp[:i+1]
		}
	}
	return c15Host(hp)
}

type c15rsReq struct {
	rs    *tchannel.RequestState
	tried []string
}

func c15rsSetOf(m map[string]struct{}) []string {
	var ks []string
	for k := range m {
		ks = append(ks, k)
	}
	sort.Strings(ks)
	return ks
}

// statement oracle for one selection of a retried request; returns "" or the violation
func c15rsJudge(members []string, tried []string, res string, rank func(string) [2]uint64) string {
	triedHP, triedHost := map[string]bool{}, map[string]bool{}
	for _, t := range tried {
		triedHP[t] = true
		triedHost[c15rsHost(t)] = true
	}
	isMember := false
	var t1, t2 []string
	for _, m := range members {
		isMember = isMember || m == res
		if triedHP[m] {
			continue
		}
		t2 = append(t2, m)
		if !triedHost[c15rsHost(m)] {
			t1 = append(t1, m)
		}
	}
	if !isMember {
		return fmt.Sprintf("attempt %d selected %q which is not in the list", len(tried)+1, res)
	}
	tier, what := members, "any"
	switch {
	case len(t1) > 0:
		tier, what = t1, "untried host"
		if triedHost[c15rsHost(res)] || triedHP[res] {
			return fmt.Sprintf("attempt %d selected %q whose host %q was already tried (tried %v) although %q is on an untried host", len(tried)+1, res, c15rsHost(res), tried, t1[0])
		}
	case len(t2) > 0:
		tier, what = t2, "untried peer"
		if triedHP[res] {
			return fmt.Sprintf("attempt %d selected %q again (tried %v) although %q was never tried", len(tried)+1, res, tried, t2[0])
		}
	}
	kr := rank(res)
	for _, m := range tier {
		if c15KeyLess(rank(m), kr) {
			return fmt.Sprintf("attempt %d selected %q (rank %v) although eligible (%s) %q ranks lower (%v)", len(tried)+1, res, kr, what, m, rank(m))
		}
	}
	return ""
}

// oracle on the set handed to selection: every tried peer, every tried host, nothing else
func c15rsJudgeSet(prev map[string]struct{}, tried []string) string {
	want := map[string]bool{}
	for _, t := range tried {
		want[t] = true
		want[c15rsHost(t)] = true
	}
	for _, t := range tried {
		if _, ok := prev[t]; !ok {
			return fmt.Sprintf("the set passed to attempt %d lacks the peer %q tried before (set %v)", len(tried)+1, t, c15rsSetOf(prev))
		}
		if _, ok := prev[c15rsHost(t)]; !ok {
			return fmt.Sprintf("the set passed to attempt %d lacks the host %q of the peer %q tried before (set %v)", len(tried)+1, c15rsHost(t), t, c15rsSetOf(prev))
		}
	}
	if len(prev) != len(want) {
		return fmt.Sprintf("the set passed to attempt %d is %v, tried peers are %v", len(tried)+1, c15rsSetOf(prev), tried)
	}
	return ""
}

func (cs *c15Case) failMsg(msg string) {
	if msg != "" {
		cs.fail("%s", msg)
	}
}

// opAttempt: one attempt of the request on list j.  Returns the peer selected ("" on error).
func (cs *c15Case) opAttempt(j int, rq *c15rsReq, getNew bool, d int64) string {
	if cs.dead {
		return ""
	}
	defer cs.recoverOp("request attempt (PrevSelectedPeers / Get / AddSelectedPeer)")
	l := cs.lists[j]
	cs.in = append(cs.in, 6, int64(j), b2i(getNew), d)
	var members []string
	for k := range l.members {
		members = append(members, k)
	}
	sort.Strings(members)

	prev := rq.rs.PrevSelectedPeers()
	setV := c15rsJudgeSet(prev, rq.tried) // reported after the selection it may have misled
	l.src.q, l.src.used = []int64{d}, 0
	var p *tchannel.Peer
	var err error
	if getNew {
		p, err = l.pl.GetNew(prev)
	} else {
		p, err = l.pl.Get(prev)
	}
	res := ""
	switch {
	case err == nil && p != nil:
		res = p.HostPort()
		cs.obs = append(cs.obs, 0)
		cs.obs = putBytes(cs.obs, []byte(res))
		cs.obs = append(cs.obs, int64(l.src.used), int64(tchannel.VerifPeerChosenCount(p)))
		if selV := c15rsJudge(members, rq.tried, res, func(hp string) [2]uint64 { return c15Key(l.strat, cs.load[hp]) }); selV != "" {
			if setV != "" {
				selV += "; " + setV
			}
			cs.failMsg(selV)
		}
		rq.rs.AddSelectedPeer(res) // Peer.BeginCall's first statement
		rq.tried = append(rq.tried, res)
	case err == tchannel.ErrNoPeers:
		cs.obs = append(cs.obs, 1, 0, int64(l.src.used), 0)
		if len(members) != 0 {
			cs.fail("no-peers reported for a list of %d peers", len(members))
		}
	case err == tchannel.ErrNoNewPeers:
		cs.obs = append(cs.obs, 2, 0, int64(l.src.used), 0)
		untried := 0
		for _, m := range members {
			seen := false
			for _, t := range rq.tried {
				seen = seen || t == m
			}
			if !seen {
				untried++
			}
		}
		if !getNew || len(members) == 0 || untried != 0 {
			cs.fail("ErrNoNewPeers (getNew=%v) with %d members, %d of them never tried", getNew, len(members), untried)
		}
	default:
		cs.obs = append(cs.obs, 7, 0, int64(l.src.used), 0)
		cs.fail("selection returned (%v, %v)", p, err)
	}
	cs.failMsg(setV)
	cs.finishOp(j)
	after := c15rsSetOf(rq.rs.PrevSelectedPeers())
	cs.obs = append(cs.obs, int64(len(after)))
	for _, k := range after {
		cs.obs = putBytes(cs.obs, []byte(k))
	}
	cs.failMsg(c15rsJudgeSet(rq.rs.PrevSelectedPeers(), rq.tried))
	return res
}

func (cs *c15Case) opNewRequest() *c15rsReq {
	cs.in = append(cs.in, 7)
	cs.obs = append(cs.obs, 0)
	cs.nops++
	return &c15rsReq{rs: &tchannel.RequestState{}}
}

func init() { engines["reqsel"] = engineReqSel }

func engineReqSel(rng *rand.Rand, n int, tier string, o *Out) {
	raw := func() int64 { return int64(rng.Intn(1000)) }

	// nil RequestState (a call without retries): nothing is recorded, nothing is avoided
	{
		verdict := ""
		func() {
			defer func() {
				if r := recover(); r != nil {
					verdict = fmt.Sprintf("nil RequestState: panic %v", r)
				}
			}()
			var rs *tchannel.RequestState
			rs.AddSelectedPeer("a:1")
			if m := rs.PrevSelectedPeers(); m != nil {
				verdict = fmt.Sprintf("nil RequestState: PrevSelectedPeers() = %v", m)
			}
		}()
		o.Oracle("reqsel-nil", "nil", false, "nil", verdict)
	}

	// bracketed IPv6 host:ports: [::1]:1 and [::1]:2 share the host "[::1]", [::2]:1 is on another
	// host.  The siblings rank ahead (custom scores 0 0 9); whichever [::1] peer the first attempt
	// gets, the second must leave the host for [::2]:1 and the third falls back to the sibling; the
	// set handed to selection holds "[::1]" (never "[").  Both for the channel's list and an isolated one.
	for j := 0; j < 2; j++ {
		cs := newC15Case(fmt.Sprintf("c15-rs-ipv6-%d", j), 1, o)
		x1, x2, y1 := "[::1]:1", "[::1]:2", "[::2]:1"
		cs.opSetStrategy(j, 3)
		for _, hp := range []string{x1, x2, y1} {
			cs.opAdd(j, hp, raw(), raw())
		}
		cs.opSetLoad(x1, c15Load{in: 1, custom: 0})
		cs.opSetLoad(x2, c15Load{in: 1, custom: 0})
		cs.opSetLoad(y1, c15Load{in: 1, custom: 9})
		rq := cs.opNewRequest()
		p1 := cs.opAttempt(j, rq, false, raw())
		p2 := cs.opAttempt(j, rq, false, raw())
		p3 := cs.opAttempt(j, rq, false, raw())
		if p1 != x1 && p1 != x2 {
			cs.fail("IPv6: attempt 1 got %q, the two lowest-score peers are %q and %q", p1, x1, x2)
		}
		if p2 != y1 {
			cs.fail("IPv6: attempt 1 got %q; attempt 2 got %q although %q is the only peer on a host not tried yet (host of %q is \"[::1]\")", p1, p2, y1, p1)
		}
		if p3 == p1 || (p3 != x1 && p3 != x2) {
			cs.fail("IPv6: attempts got %q, %q, then %q; the third should be the untried sibling on [::1]", p1, p2, p3)
		}
		prev := rq.rs.PrevSelectedPeers()
		if _, bad := prev["["]; bad {
			cs.fail("IPv6: the request's set %v holds \"[\" as a host", c15rsSetOf(prev))
		}
		for _, h := range []string{"[::1]", "[::2]"} {
			if _, ok := prev[h]; !ok {
				cs.fail("IPv6: the request's set %v lacks the host %q", c15rsSetOf(prev), h)
			}
		}
		o.Hist("ipv6-exact")
		cs.done("reqsel", fmt.Sprintf("ipv6-%d", j), true)
	}

	for c := 0; c < n; c++ {
		kind := c % 12
		switch {
		case kind <= 8: // (a) scripted request on the real lists, with the model
			niso := rng.Intn(3)
			cs := newC15Case(fmt.Sprintf("c15-rs%d", c), niso, o)
			cs.rng = rng
			// pool: 3..5 hosts with 1..3 ports each (mostly 2-3)
			var hosts []string
			switch kind {
			case 7: // strings without a port / with an empty host / with several colons (the port follows the last one)
				hosts = []string{"n", "", "h:1", "k"}
			case 8: // bracketed IPv6 literals next to ordinary hosts
				hosts = []string{"[::1]", "[::2]", "[fe80::3]", "a"}
			default:
				hosts = []string{"a", "b", "c", "d", "e"}[:3+rng.Intn(3)]
			}
			var pool []string
			for _, h := range hosts {
				np := 2 + rng.Intn(2)
				if rng.Intn(5) == 0 {
					np = 1
				}
				for pt := 1; pt <= np; pt++ {
					pool = append(pool, fmt.Sprintf("%s:%d", h, pt))
				}
				if kind == 7 && h == "n" {
					pool = append(pool, "n0", "n1") // no colon: the host is the whole string
				}
			}
			nreq := 1 + rng.Intn(2)
			attempts := 0
			for r := 0; r < nreq; r++ {
				j := rng.Intn(len(cs.lists))
				l := cs.lists[j]
				// strategy: custom scores (3), built-in over loads (0 / 1) or zero (2)
				strat := []int{3, 3, 0, 1, 2}[rng.Intn(5)]
				if r == 0 || rng.Intn(2) == 0 {
					cs.opSetStrategy(j, strat)
				}
				for _, hp := range pool {
					if rng.Intn(10) != 0 {
						cs.opAdd(j, hp, raw(), raw())
					}
				}
				rq := cs.opNewRequest()
				// scores: the first peer the request will get is on some host H; give every peer on a
				// host with several ports a LOWER (better) rank than single peers, so that the siblings
				// of a tried peer keep ranking ahead of the untried hosts
				for _, hp := range pool {
					a := c15Load{}
					sib := 0
					for _, q := range pool {
						if q != hp && c15rsHost(q) == c15rsHost(hp) {
							sib++
						}
					}
					switch rng.Intn(4) {
					case 0: // all equal
						a.in, a.custom = 1, 5
					default:
						if sib > 0 {
							a.in, a.pend, a.custom = 1, rng.Intn(2), uint64(rng.Intn(3))
						} else {
							a.out, a.pend, a.custom = 1, 2+rng.Intn(3), uint64(5+rng.Intn(5))
						}
					}
					if rng.Intn(3) != 0 {
						cs.opSetLoad(hp, a)
					}
				}
				natt := 3 + rng.Intn(4)
				for k := 0; k < natt; k++ {
					res := cs.opAttempt(j, rq, rng.Intn(8) == 0, raw())
					attempts++
					o.Hist(fmt.Sprintf("attempt-no=%d", k+1))
					if res == "" {
						o.Hist("attempt-error")
					}
					// other activity between two attempts of the request
					for rng.Intn(3) == 0 {
						hp := pool[rng.Intn(len(pool))]
						switch rng.Intn(6) {
						case 0:
							cs.opRemove(j, hp)
						case 1:
							cs.opAdd(j, hp, raw(), raw())
						case 2:
							cs.opGet(j, false, nil, raw()) // another request's first attempt
						case 3:
							cs.opSetLoad(hp, c15Load{in: rng.Intn(2), out: rng.Intn(2), pend: rng.Intn(3), custom: uint64(rng.Intn(9))})
						case 4:
							jj := rng.Intn(len(cs.lists))
							cs.opAdd(jj, hp, raw(), raw())
						default:
							cs.opGet(j, false, []string{hp, c15Host(hp)}, raw())
						}
						o.Hist("between-attempts-op")
					}
				}
				_ = l
			}
			switch kind {
			case 7:
				o.Hist("pool=portless/empty-host/multi-colon")
			case 8:
				o.Hist("pool=ipv6")
			default:
				o.Hist("pool=shared-hosts")
			}
			if c < 2 {
				o.Sample(map[string]interface{}{"case": fmt.Sprintf("rs%d", c), "pool": pool, "ops": cs.nops, "verdict": cs.verdict})
			}
			cs.done("reqsel", fmt.Sprintf("rs%d", c), attempts >= 3)

		case kind == 9: // (b) the real call path: RunWithRetry + SubChannel.BeginCall, nothing listens
			verdict, key := c15rsCallPath(rng)
			o.Hist("call-path")
			o.Oracle("reqsel-callpath", fmt.Sprintf("cp%d", c), true, key, verdict)

		default: // (c) load of a peer over inert connections
			for k := 0; k < 6; k++ {
				c15rsPeerLoad(rng, fmt.Sprintf("pl%d-%d", c, k), o)
			}
		}
	}
}

// (b): peers on 127.0.0.x:{1,2,3}; every connection attempt is refused at once, RunWithRetry
// retries (connection errors), each attempt goes through SubChannel.BeginCall -> PeerList.Get
// (rs.PrevSelectedPeers()) -> Peer.BeginCall -> rs.AddSelectedPeer.  The peer an attempt used is
// read off the growth of rs.SelectedPeers.
func c15rsCallPath(rng *rand.Rand) (verdict string, key string) {
	defer func() {
		if r := recover(); r != nil {
			verdict = fmt.Sprintf("panic on the call path: %v", r)
		}
	}()
	ch, err := tchannel.NewChannel("c15-callpath", &tchannel.ChannelOptions{Logger: tchannel.NullLogger})
	if err != nil {
		return "harness: " + err.Error(), ""
	}
	defer ch.Close()
	isolated := rng.Intn(2) == 0
	var sc *tchannel.SubChannel
	if isolated {
		sc = ch.GetSubChannel("svc", tchannel.Isolated)
	} else {
		sc = ch.GetSubChannel("svc")
	}
	var members []string
	nh := 3 + rng.Intn(2)
	for h := 1; h <= nh; h++ {
		np := 2 + rng.Intn(2)
		for pt := 1; pt <= np; pt++ {
			hp := fmt.Sprintf("127.0.0.%d:%d", h, pt)
			members = append(members, hp)
			sc.Peers().Add(hp)
		}
	}
	sort.Strings(members)
	natt := 3 + rng.Intn(4)
	key = fmt.Sprintf("%v/%d/%v", members, natt, isolated)
	ctx, cancel := tchannel.NewContextBuilder(20 * time.Second).
		SetRetryOptions(&tchannel.RetryOptions{MaxAttempts: natt, RetryOn: tchannel.RetryConnectionError}).Build()
	defer cancel()
	var tried []string
	attempts := 0
	runErr := ch.RunWithRetry(ctx, func(ctx context.Context, rs *tchannel.RequestState) error {
		attempts++
		if v := c15rsJudgeSet(rs.PrevSelectedPeers(), tried); v != "" && verdict == "" {
			verdict = v
		}
		before := map[string]bool{}
		for k := range rs.PrevSelectedPeers() {
			before[k] = true
		}
		cctx, ccancel := context.WithTimeout(ctx, 2*time.Second)
		defer ccancel()
		_, err := sc.BeginCall(cctx, "m", &tchannel.CallOptions{RequestState: rs})
		if err == nil {
			if verdict == "" {
				verdict = "harness: a call to a port where nothing listens succeeded"
			}
			return nil
		}
		// the peer this attempt used: the member that entered the set (none: it was selected again)
		used := ""
		for k := range rs.PrevSelectedPeers() {
			if !before[k] && strings.Contains(k, ":") {
				used = k
			}
		}
		if used == "" {
			if len(tried) < len(members) && verdict == "" {
				verdict = fmt.Sprintf("attempt %d added no new peer to the request's set although %d members were never tried (set %v)", attempts, len(members)-len(tried), c15rsSetOf(rs.PrevSelectedPeers()))
			}
			return err
		}
		if v := c15rsJudge(members, tried, used, func(string) [2]uint64 { return [2]uint64{0, 0} }); v != "" && verdict == "" {
			verdict = v
		}
		tried = append(tried, used)
		return err
	})
	if verdict == "" && runErr == nil {
		verdict = "harness: RunWithRetry returned nil"
	}
	if verdict == "" && attempts != natt {
		verdict = fmt.Sprintf("harness: %d attempts ran, expected %d (last error %v)", attempts, natt, runErr)
		if strings.Contains(fmt.Sprint(runErr), "timeout") {
			verdict = "" // an overloaded machine: not a verdict about selection
		}
	}
	return verdict, key
}

// (c): a peer with inert connections; the number of OUR pending calls is known by construction
func c15rsPeerLoad(rng *rand.Rand, id string, o *Out) {
	ch, err := tchannel.NewChannel("c15-peerload", &tchannel.ChannelOptions{Logger: tchannel.NullLogger})
	if err != nil {
		panic(err)
	}
	defer ch.Close()
	strat := rng.Intn(3)
	mk := func(n int) []tchannel.VerifConnLoad {
		cl := make([]tchannel.VerifConnLoad, n)
		for i := range cl {
			switch rng.Intn(4) {
			case 0: // idle
			case 1: // only the peer's own calls
				cl[i].In = 1 + rng.Intn(4)
			case 2: // only ours
				cl[i].Out = 1 + rng.Intn(4)
			default:
				cl[i].In, cl[i].Out = rng.Intn(5), rng.Intn(5)
			}
		}
		return cl
	}
	var inb, outb []tchannel.VerifConnLoad
	switch rng.Intn(5) {
	case 0: // unconnected
	case 1: // the peer dialled us, we call back over its connection
		inb = mk(1 + rng.Intn(3))
	case 2:
		outb = mk(1 + rng.Intn(3))
	default:
		inb, outb = mk(rng.Intn(4)), mk(rng.Intn(4))
	}
	in := []int64{int64(strat), int64(len(inb))}
	ours, oursInbound, theirs := 0, 0, 0
	for _, c := range inb {
		in = append(in, int64(c.In), int64(c.Out))
		ours += c.Out
		oursInbound += c.Out
		theirs += c.In
	}
	in = append(in, int64(len(outb)))
	for _, c := range outb {
		in = append(in, int64(c.In), int64(c.Out))
		ours += c.Out
		theirs += c.In
	}
	verdict := ""
	var obs []int64
	func() {
		defer func() {
			if r := recover(); r != nil {
				verdict = fmt.Sprintf("panic: %v", r)
				obs = append(obs, 99)
			}
		}()
		p := ch.RootPeers().GetOrAdd("10.9.8.7:6")
		tchannel.VerifSetPeerConns(p, inb, outb)
		gi, go_ := p.NumConnections()
		pend := p.NumPendingOutbound()
		score := tchannel.VerifScoreCalculator(strat).GetScore(p)
		obs = []int64{int64(gi), int64(go_), int64(pend), int64(score)}
		if gi != len(inb) || go_ != len(outb) {
			verdict = fmt.Sprintf("NumConnections() = (%d, %d) for a peer with %d inbound and %d outbound connections", gi, go_, len(inb), len(outb))
		} else if pend != ours {
			verdict = fmt.Sprintf("NumPendingOutbound() = %d but %d of our calls are pending to the peer (%d over connections it dialled; %d calls of its own in flight to us; inbound conns %v, outbound conns %v as {theirs ours})", pend, ours, oursInbound, theirs, inb, outb)
		} else {
			// score from the statement: tier then pending
			var want uint64
			connected := len(inb)+len(outb) > 0
			switch {
			case strat == 2:
				want = 0
			case !connected:
				want = ^uint64(0)
			case strat == 0 && len(inb) == 0:
				want = uint64(1<<31-1) + uint64(ours)
			default:
				want = uint64(ours)
			}
			if score != want {
				verdict = fmt.Sprintf("strategy %d scores the peer %d, its rank (connections in=%d out=%d, %d pending) means %d", strat, score, len(inb), len(outb), ours, want)
			}
		}
	}()
	if oursInbound > 0 {
		o.Hist("peerload-ours-on-inbound")
	}
	o.Hist("peerload")
	o.Case("peerload", id, in, obs, len(inb)+len(outb) > 0, verdict)
}
