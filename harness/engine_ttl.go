package main

// Engine "ttl" (property C14, clauses a-c): the time-to-live of a call hop by hop.
//   ttl_begin  real client channel with a stub clock (ChannelOptions.TimeNow) and contexts with
//              chosen deadlines; the ttl field of the call req is read off the wire by a raw peer
//   ttl_in     the real newIncomingContext (overlay wrapper) and, through a raw client, the
//              context a real server hands to its handler
//   ttl_relay  real relay channels with chosen RelayMaxTimeout between a raw client and a raw server
//   ttl_hops   chains of real relays
//   ttl_timer / ttl_e2e  oracle-only: the relay's own timer, and real client -> relays -> real server
// Oracles are written from the property statement; observables are compared with Model/TTL.v.

import (
	"errors"
	"fmt"
	"math/big"
	"math/rand"
	"net"
	"sync"
	"time"

	tchannel "github.com/uber/tchannel-go"
	"golang.org/x/net/context"
)

func init() { engines["ttl"] = engineTTL }

const msNs = int64(1000000)

// ---- context with a chosen deadline and error ----
type fakeCtx struct {
	dl   time.Time
	has  bool
	err  error
	done chan struct{}
}

func (f *fakeCtx) Deadline() (time.Time, bool)       { return f.dl, f.has }
func (f *fakeCtx) Done() <-chan struct{}             { return f.done }
func (f *fakeCtx) Err() error                        { return f.err }
func (f *fakeCtx) Value(key interface{}) interface{} { return nil }

var errOtherCtx = errors.New("some other context error")

// ---- raw listener: records the ttl of every call req and answers with an error frame ----
type rawCallSeen struct {
	service string
	ttl     uint32
	id      uint32
	at      time.Time
}

type rawCollector struct {
	ln      net.Listener
	seen    chan rawCallSeen
	respond func(service string) bool // answer with an error frame?
	mu      sync.Mutex
	conns   []net.Conn
}

func newRawCollector(respond func(string) bool) (*rawCollector, error) {
	ln, err := net.Listen("tcp", "127.0.0.1:0")
	if err != nil {
		return nil, err
	}
	rc := &rawCollector{ln: ln, seen: make(chan rawCallSeen, 1024), respond: respond}
	go func() {
		for {
			conn, err := ln.Accept()
			if err != nil {
				return
			}
			rc.mu.Lock()
			rc.conns = append(rc.conns, conn)
			rc.mu.Unlock()
			go rc.serve(conn)
		}
	}()
	return rc, nil
}

func (rc *rawCollector) serve(conn net.Conn) {
	if _, _, err := rawServerHandshake(conn); err != nil {
		return
	}
	for {
		f, err := readRawFrame(conn, 60*time.Second)
		if err != nil {
			return
		}
		if f.Type != 0x03 {
			continue
		}
		pc, err := parseRawCall(f.Type, f.Payload)
		if err != nil {
			continue
		}
		rc.seen <- rawCallSeen{service: pc.Service, ttl: pc.TTL, id: f.ID, at: time.Now()}
		if rc.respond == nil || rc.respond(pc.Service) {
			writeRawFrame(conn, 0xff, f.ID, rawErrorPayload(3, pc.Tracing, "busy"))
		}
	}
}

func (rc *rawCollector) close() {
	rc.ln.Close()
	rc.mu.Lock()
	for _, c := range rc.conns {
		c.Close()
	}
	rc.mu.Unlock()
}

func (rc *rawCollector) wait(service string, d time.Duration) (rawCallSeen, bool) {
	deadline := time.After(d)
	for {
		select {
		case s := <-rc.seen:
			if s.service == service {
				return s, true
			}
		case <-deadline:
			return rawCallSeen{}, false
		}
	}
}

// single-frame call req with the given ttl field
func rawCallReq(id uint32, ttl uint32, service string) []byte {
	hdr := rawCallReqHeader(ttl, make([]byte, 25), service, [][2]string{{"as", "raw"}, {"cn", "verif"}})
	return buildRawCallFrames(true, id, hdr, 0, [3][]byte{[]byte("m"), {}, {}}, 65519)[0]
}

func engineTTL(rng *rand.Rand, n int, tier string, o *Out) {
	ttlBegin(rng, n, o)
	ttlIncoming(rng, n, o)
	ttlRelay(rng, n/2, o)
	ttlTimerAndE2E(rng, n/40+3, o)
}

// ------------------------------------------------------------------ ttl_begin

type stubClock struct {
	mu  sync.Mutex
	now time.Time
}

func (c *stubClock) get() time.Time  { c.mu.Lock(); defer c.mu.Unlock(); return c.now }
func (c *stubClock) set(t time.Time) { c.mu.Lock(); c.now = t; c.mu.Unlock() }

func beginErrCode(err error) int64 {
	switch err {
	case tchannel.ErrConnectionClosed:
		return 1000
	case tchannel.ErrTimeoutRequired:
		return 1002
	case errOtherCtx:
		return 256 + 3
	}
	if se, ok := err.(tchannel.SystemError); ok {
		return int64(se.Code())
	}
	return -9
}

func ttlBegin(rng *rand.Rand, n int, o *Out) {
	rc, err := newRawCollector(nil)
	if err != nil {
		o.Oracle("ttl_begin", "setup", false, "setup", "harness: "+err.Error())
		return
	}
	defer rc.close()
	clock := &stubClock{now: time.Now()}
	ch, err := tchannel.NewChannel("verif-ttl-client", &tchannel.ChannelOptions{TimeNow: clock.get})
	if err != nil {
		o.Oracle("ttl_begin", "setup", false, "setup", "harness: "+err.Error())
		return
	}
	defer ch.Close()
	hp := rc.ln.Addr().String()
	cctx, ccancel := tchannel.NewContext(5 * time.Second)
	_, err = ch.RootPeers().GetOrAdd(hp).GetConnection(cctx)
	ccancel()
	if err != nil {
		o.Oracle("ttl_begin", "setup", false, "setup", "harness: connect: "+err.Error())
		return
	}
	two32ms := new(big.Int).Mul(big.NewInt(1<<32), big.NewInt(msNs))
	// remaining times (ns) at the boundaries of the statement
	type rem struct{ sec, nsec int64 }
	bounds := []rem{
		{0, 0}, {0, 1}, {0, 999000}, {0, 999999}, {0, 1000000}, {0, 1000001}, {0, 1999999}, {0, 2000000},
		{0, 2000001}, {119, 999000000}, {120, 0}, {120, 1000000}, {0, -1}, {0, -1000000}, {-5, 0},
		{4294967, 295000000}, {4294967, 295999999}, {4294967, 296000000}, {4294967, 296000001}, {4294967, 297000000},
		{2 * 4294967, 2 * 296000000}, {2 * 4294967, 2*296000000 - 1}, {3 * 4294967, 3*296000000 + 5000000},
		{9223372036, 854775807}, {9223372036, 854775808}, {9223372037, 0}, {1 << 34, 0}, {-(1 << 34), 0},
		{-9223372036, -854775808}, {-9223372037, 0},
	}
	for i := 0; i < n; i++ {
		var r rem
		switch {
		case i < len(bounds):
			r = bounds[i]
		case rng.Intn(4) == 0:
			r = bounds[rng.Intn(len(bounds))]
			r.nsec += int64(rng.Intn(3)) - 1
		default:
			switch rng.Intn(6) {
			case 0:
				r = rem{0, rng.Int63n(3 * msNs)}
			case 1:
				r = rem{0, rng.Int63n(1000 * msNs)}
			case 2:
				r = rem{rng.Int63n(300), rng.Int63n(1000000000)}
			case 3:
				r = rem{rng.Int63n(10000000), rng.Int63n(1000000000)}
			case 4:
				r = rem{4294967 + rng.Int63n(3) - 1, 296000000 + rng.Int63n(2000001) - 1000000}
			default:
				r = rem{rng.Int63n(1<<35) - (1 << 34), rng.Int63n(1000000000)}
			}
		}
		nowSec := int64(1700000000) + rng.Int63n(1<<28)
		if rng.Intn(8) == 0 {
			nowSec = rng.Int63n(1<<33) - (1 << 32)
		}
		nowNsec := rng.Int63n(1000000000)
		has := rng.Intn(12) != 0
		cerr := int64(0)
		if rng.Intn(6) == 0 {
			cerr = int64(1 + rng.Intn(3))
		}
		now := time.Unix(nowSec, nowNsec)
		dl := time.Unix(nowSec+r.sec, nowNsec+r.nsec)
		fc := &fakeCtx{dl: dl, has: has}
		switch cerr {
		case 1:
			fc.err = context.DeadlineExceeded
		case 2:
			fc.err = context.Canceled
		case 3:
			fc.err = errOtherCtx
		}
		if fc.err != nil {
			fc.done = make(chan struct{})
			close(fc.done)
		}
		service := fmt.Sprintf("b%d", i)
		clock.set(now)
		call, err := ch.BeginCall(fc, hp, service, "m", nil)
		var obs []int64
		var verdict string
		remaining := new(big.Int).Add(new(big.Int).Mul(big.NewInt(r.sec), big.NewInt(1000000000)), big.NewInt(r.nsec))
		if err != nil {
			obs = []int64{0, beginErrCode(err)}
		} else {
			// observation only (see the assumptions of the check): the ttl is fixed when the call
			// starts; time the caller spends before the first fragment is flushed is not deducted
			late := i%40 == 7
			if late {
				clock.set(now.Add(700 * time.Millisecond))
			}
			done := make(chan error, 1)
			go func() {
				w, err := call.Arg2Writer()
				if err == nil {
					err = w.Close()
				}
				if err == nil {
					w, err = call.Arg3Writer()
				}
				if err == nil {
					err = w.Close()
				}
				if err == nil {
					_, err = call.Response().Arg2Reader() // the raw peer answers with an error frame
					if _, ok := err.(tchannel.SystemError); ok {
						err = nil
					}
				}
				done <- err
			}()
			seen, ok := rc.wait(service, 3*time.Second)
			if !ok {
				obs = []int64{-2}
				verdict = "harness: call req not seen by the raw peer"
			} else {
				obs = []int64{1, int64(seen.ttl)}
				// statement: the ttl sent never exceeds the caller's remaining time
				sent := new(big.Int).Mul(big.NewInt(int64(seen.ttl)), big.NewInt(msNs))
				if sent.Cmp(remaining) > 0 {
					verdict = fmt.Sprintf("ttl on the wire %d ms exceeds the caller's remaining time %s ns", seen.ttl, remaining)
				} else if remaining.Cmp(two32ms) < 0 && seen.ttl == 0 {
					verdict = fmt.Sprintf("call with %s ns left sent with ttl 0", remaining)
				}
				if remaining.Cmp(two32ms) >= 0 {
					o.Hist("ttl_begin:remaining>=2^32ms(field wraps)")
				}
				if late {
					atSend := new(big.Int).Sub(remaining, big.NewInt(700*msNs))
					if sent.Cmp(atSend) > 0 {
						o.Hist("ttl_begin:observation: flush 700ms after BeginCall, field still the remaining time at BeginCall")
					} else {
						o.Hist("ttl_begin:observation: flush 700ms after BeginCall, field within the remaining time at flush")
					}
				}
			}
			select {
			case <-done:
			case <-time.After(3 * time.Second):
				if verdict == "" {
					verdict = "harness: call did not finish after the raw peer's error frame"
				}
			}
		}
		if verdict == "" && has && remaining.Cmp(big.NewInt(msNs)) < 0 && !(len(obs) == 2 && obs[0] == 0 && obs[1] == 1) {
			verdict = fmt.Sprintf("call with %s ns left (under a millisecond) did not fail locally with ErrTimeout: %v", remaining, obs)
		}
		if verdict == "" && has && cerr == 0 && remaining.Cmp(big.NewInt(msNs)) >= 0 && obs[0] != 1 {
			verdict = fmt.Sprintf("call with %s ns left and a live context was rejected: %v", remaining, obs)
		}
		switch {
		case !has:
			o.Hist("ttl_begin:no-deadline")
		case cerr != 0:
			o.Hist("ttl_begin:ctx-err")
		case remaining.Sign() < 0:
			o.Hist("ttl_begin:remaining<0")
		case remaining.Cmp(big.NewInt(msNs)) < 0:
			o.Hist("ttl_begin:remaining<1ms")
		case remaining.Cmp(big.NewInt(3*msNs)) < 0:
			o.Hist("ttl_begin:remaining 1..3ms")
		case remaining.Cmp(two32ms) < 0:
			o.Hist("ttl_begin:remaining 3ms..2^32ms")
		}
		if i == 5 || i == 17 {
			o.Sample(map[string]interface{}{"sub": "ttl_begin", "remaining_ns": remaining.String(), "ctx_err": cerr, "obs": obs})
		}
		in := []int64{1, b2i(has), nowSec + r.sec, nowNsec + r.nsec, nowSec, nowNsec, cerr}
		o.Case("ttl_begin", fmt.Sprintf("b%d", i), in, obs, has && cerr == 0, verdict)
	}
}

// ------------------------------------------------------------------ ttl_in

func ttlFields(rng *rand.Rand) uint32 {
	switch rng.Intn(4) {
	case 0:
		return uint32(pick(rng, 0, 1, 2, 999, 1000, 1001, 60000, 120000, 120001, 1<<31-1, 1<<31, 1<<32-2, 1<<32-1))
	case 1:
		return uint32(rng.Intn(5000))
	case 2:
		return uint32(rng.Intn(10000000))
	}
	return rng.Uint32()
}

func ttlIncoming(rng *rand.Rand, n int, o *Out) {
	// (1) the function itself, exactly
	for i := 0; i < n; i++ {
		field := ttlFields(rng)
		if i < 10 {
			field = 0
		}
		ttl := time.Duration(field) * time.Millisecond
		hasBase := rng.Intn(2) == 0
		var boff time.Duration
		if hasBase {
			for {
				boff = time.Duration(pick(rng, -3600, -5, 5, 30, 3600, 86400, 50*86400, 100*86400)) * time.Second
				boff += time.Duration(rng.Intn(1000)) * time.Millisecond
				d := boff - ttl
				if d < 0 {
					d = -d
				}
				if d > 2*time.Second {
					break
				}
			}
		}
		obs, verdict := incomingOnce(hasBase, boff, ttl)
		if verdict != "" { // never alarm on one sample
			for k := 0; k < 2 && verdict != ""; k++ {
				obs, verdict = incomingOnce(hasBase, boff, ttl)
			}
		}
		switch {
		case field == 0:
			o.Hist("ttl_in:ttl=0")
		case hasBase && boff < ttl:
			o.Hist("ttl_in:base-deadline-earlier")
		case hasBase:
			o.Hist("ttl_in:base-deadline-later")
		default:
			o.Hist("ttl_in:no-base-deadline")
		}
		if i == 3 {
			o.Sample(map[string]interface{}{"sub": "ttl_in", "ttl_field": field, "has_base": hasBase, "base_offset_ns": int64(boff), "obs": obs})
		}
		o.Case("ttl_in", fmt.Sprintf("i%d", i), []int64{b2i(hasBase), int64(boff), int64(field)}, obs, true, verdict)
	}
	// (2) a real server, its handler's context, a raw client
	ttlHandlerCtx(rng, n/4+4, o)
}

func incomingOnce(hasBase bool, boff, ttl time.Duration) ([]int64, string) {
	base := context.Background()
	t1 := time.Now()
	var baseDl time.Time
	if hasBase {
		baseDl = t1.Add(boff)
		var c context.CancelFunc
		base, c = context.WithDeadline(base, baseDl)
		defer c()
	}
	ctx, cancel := tchannel.VerifNewIncomingContext(base, ttl)
	t2 := time.Now()
	defer cancel()
	dl, ok := ctx.Deadline()
	expired := ctx.Err() != nil
	return canonDeadline(ok, dl, expired, hasBase, baseDl, boff, t1, t2, ttl)
}

// canonDeadline maps the measured deadline to the model's encoding (offset from the creation
// instant, which lies between t1 and t2) and applies the statement's oracle.
func canonDeadline(ok bool, dl time.Time, expired bool, hasBase bool, baseDl time.Time, boff time.Duration, t1, t2 time.Time, ttl time.Duration) ([]int64, string) {
	if !ok {
		return []int64{0, 0, 0}, "handler context has no deadline"
	}
	var off int64
	switch {
	case hasBase && dl.Equal(baseDl):
		off = int64(boff)
	case !dl.Before(t1.Add(ttl)) && !dl.After(t2.Add(ttl)):
		off = int64(ttl)
	default:
		off = int64(dl.Sub(t1))
	}
	verdict := ""
	if dl.After(t2.Add(ttl)) {
		verdict = fmt.Sprintf("handler context expires %v after arrival, later than the received ttl %v", dl.Sub(t2), ttl)
		if ttl == 0 {
			verdict = "[c14:zero-ttl-inherits-base-deadline] " + verdict
		}
	}
	return []int64{1, off, b2i(expired)}, verdict
}

type ctxSeen struct {
	dl      time.Time
	ok      bool
	expired bool
	at      time.Time
}

type ctxHandler struct{ seen chan ctxSeen }

func (h *ctxHandler) Handle(ctx context.Context, call *tchannel.InboundCall) {
	now := time.Now()
	dl, ok := ctx.Deadline()
	h.seen <- ctxSeen{dl: dl, ok: ok, expired: ctx.Err() != nil, at: now}
	call.Response().SendSystemError(tchannel.ErrServerBusy)
}

func ttlHandlerCtx(rng *rand.Rand, n int, o *Out) {
	for _, withBase := range []bool{false, true} {
		var baseDl time.Time
		boff := 40 * time.Second
		opts := &tchannel.ChannelOptions{}
		var t0 time.Time
		if withBase {
			opts.ConnContext = func(ctx context.Context, c net.Conn) context.Context {
				t0 = time.Now()
				baseDl = t0.Add(boff)
				ctx, _ = context.WithDeadline(ctx, baseDl)
				return ctx
			}
		}
		srv, err := tchannel.NewChannel("svc", opts)
		if err != nil {
			o.Oracle("ttl_handler", "setup", false, "setup", "harness: "+err.Error())
			return
		}
		h := &ctxHandler{seen: make(chan ctxSeen, 16)}
		srv.Register(h, "m")
		if err := srv.ListenAndServe("127.0.0.1:0"); err != nil {
			o.Oracle("ttl_handler", "setup", false, "setup", "harness: "+err.Error())
			return
		}
		conn, err := net.Dial("tcp", srv.PeerInfo().HostPort)
		if err != nil {
			o.Oracle("ttl_handler", "setup", false, "setup", "harness: "+err.Error())
			srv.Close()
			return
		}
		if _, err := rawClientHandshake(conn); err != nil {
			o.Oracle("ttl_handler", "setup", false, "setup", "harness: handshake: "+err.Error())
			conn.Close()
			srv.Close()
			return
		}
		go func() { // drain the error frames
			for {
				if _, err := readRawFrame(conn, 30*time.Second); err != nil {
					return
				}
			}
		}()
		for i := 0; i < n; i++ {
			field := ttlFields(rng)
			if i < 3 {
				field = 0
			}
			ttl := time.Duration(field) * time.Millisecond
			if withBase {
				d := boff - ttl
				if d < 0 {
					d = -d
				}
				if d < 5*time.Second {
					field = 1000
					ttl = time.Second
				}
			}
			id := uint32(100 + i)
			t1 := time.Now()
			conn.SetWriteDeadline(time.Now().Add(2 * time.Second))
			if _, err := conn.Write(rawCallReq(id, field, "svc")); err != nil {
				o.Oracle("ttl_handler", fmt.Sprintf("h%v-%d", withBase, i), false, "w", "harness: write: "+err.Error())
				break
			}
			var s ctxSeen
			select {
			case s = <-h.seen:
			case <-time.After(2 * time.Second):
				o.Oracle("ttl_handler", fmt.Sprintf("h%v-%d", withBase, i), false, "t", fmt.Sprintf("handler not invoked for a call req with ttl %d ms", field))
				continue
			}
			// offsets relative to the creation instant, which lies between t1 and s.at; the
			// base deadline's offset is taken relative to t1 as well
			boffNow := time.Duration(0)
			if withBase {
				boffNow = baseDl.Sub(t1)
			}
			obs, verdict := canonDeadline(s.ok, s.dl, s.expired, withBase, baseDl, boffNow, t1, s.at, ttl)
			if field == 0 && !s.expired {
				verdict = fmt.Sprintf("[c14:zero-ttl-inherits-base-deadline] call req with ttl 0: the handler's context is live with deadline %v after arrival (connection context deadline: %v)", s.dl.Sub(s.at), withBase)
			}
			o.Hist(fmt.Sprintf("ttl_handler:base=%v", withBase))
			if i == 1 {
				o.Sample(map[string]interface{}{"sub": "ttl_in(handler)", "ttl_field": field, "conn_context_deadline": withBase, "obs": obs})
			}
			o.Case("ttl_in", fmt.Sprintf("h%v-%d", withBase, i), []int64{b2i(withBase), int64(boffNow), int64(field)}, obs, true, verdict)
		}
		conn.Close()
		srv.Close()
	}
}

// ------------------------------------------------------------------ ttl_relay / ttl_hops

type relayChain struct {
	maxes  []time.Duration
	chans  []*tchannel.Channel
	conn   net.Conn // raw client -> first relay
	errs   chan *rawFrame
	nextID uint32
}

func newRelayChain(maxes []time.Duration, dest string) (*relayChain, error) {
	rc := &relayChain{maxes: maxes, errs: make(chan *rawFrame, 64), nextID: 10}
	next := dest
	setupCtx, cancel := tchannel.NewContext(5 * time.Second)
	defer cancel()
	for i := len(maxes) - 1; i >= 0; i-- {
		ch, err := tchannel.NewChannel(fmt.Sprintf("relay%d", i), &tchannel.ChannelOptions{
			RelayHost:       &cpRelayHost{dest: next},
			RelayMaxTimeout: maxes[i],
		})
		if err != nil {
			return nil, err
		}
		rc.chans = append([]*tchannel.Channel{ch}, rc.chans...)
		if err := ch.ListenAndServe("127.0.0.1:0"); err != nil {
			return nil, err
		}
		if _, err := ch.RootPeers().GetOrAdd(next).GetConnection(setupCtx); err != nil {
			return nil, err
		}
		next = ch.PeerInfo().HostPort
	}
	conn, err := net.Dial("tcp", next)
	if err != nil {
		return nil, err
	}
	if _, err := rawClientHandshake(conn); err != nil {
		return nil, err
	}
	rc.conn = conn
	go func() {
		for {
			f, err := readRawFrame(conn, 120*time.Second)
			if err != nil {
				close(rc.errs)
				return
			}
			if f.Type == 0xff {
				rc.errs <- f
			}
		}
	}()
	return rc, nil
}

func (rc *relayChain) close() {
	if rc.conn != nil {
		rc.conn.Close()
	}
	for _, ch := range rc.chans {
		ch.Close()
	}
}

// send one call req through the chain; returns the ttl field that arrived at the raw server
// (ok=false: nothing arrived), and whether an error frame came back to the client.
func (rc *relayChain) send(col *rawCollector, service string, field uint32, wait time.Duration) (arrived uint32, ok bool, errFrame *rawFrame, sentAt time.Time, seenAt time.Time) {
	rc.nextID++
	id := rc.nextID
	sentAt = time.Now()
	rc.conn.SetWriteDeadline(time.Now().Add(2 * time.Second))
	if _, err := rc.conn.Write(rawCallReq(id, field, service)); err != nil {
		return 0, false, nil, sentAt, sentAt
	}
	s, ok := col.wait(service, wait)
	if ok {
		arrived, seenAt = s.ttl, s.at
	}
	select {
	case errFrame = <-rc.errs:
	case <-time.After(wait):
	}
	return arrived, ok, errFrame, sentAt, seenAt
}

func ttlRelay(rng *rand.Rand, n int, o *Out) {
	col, err := newRawCollector(func(service string) bool { return service[0] != 'T' })
	if err != nil {
		o.Oracle("ttl_relay", "setup", false, "setup", "harness: "+err.Error())
		return
	}
	defer col.close()
	dest := col.ln.Addr().String()
	ms := time.Millisecond
	singles := []time.Duration{0, 20 * ms, 20*ms + 500*time.Microsecond, 50 * ms, time.Second, 2 * time.Minute, (1<<32 - 1) * ms,
		(1 << 32) * ms, -5 * time.Second, 999 * time.Microsecond, 1<<63 - 1}
	chainsCfg := [][]time.Duration{{time.Second, 50 * ms}, {50 * ms, time.Second}, {0, 30*ms + 700*time.Microsecond}, {300 * ms, 300 * ms, 20 * time.Second}, {-1, 1 << 62}}
	var singleChains, multi []*relayChain
	for _, m := range singles {
		rc, err := newRelayChain([]time.Duration{m}, dest)
		if err != nil {
			o.Oracle("ttl_relay", "setup", false, "setup", "harness: relay setup: "+err.Error())
			return
		}
		defer rc.close()
		singleChains = append(singleChains, rc)
	}
	for _, ms := range chainsCfg {
		rc, err := newRelayChain(ms, dest)
		if err != nil {
			o.Oracle("ttl_hops", "setup", false, "setup", "harness: relay setup: "+err.Error())
			return
		}
		defer rc.close()
		multi = append(multi, rc)
	}
	effMax := func(rc *relayChain, i int) time.Duration { return tchannel.VerifRelayMaxTimeout(rc.chans[i]) }
	for i := 0; i < n; i++ {
		multiHop := i%4 == 3
		var rc *relayChain
		if multiHop {
			rc = multi[rng.Intn(len(multi))]
		} else {
			rc = singleChains[i%len(singleChains)]
			if i >= 2*len(singleChains) {
				rc = singleChains[rng.Intn(len(singleChains))]
			}
		}
		field := ttlFields(rng)
		// small values race with the relay's own timer (ttl 0: timer fires at once); around the
		// maximum the clamp is what is being tested
		if rng.Intn(3) == 0 {
			m := uint32(effMax(rc, rng.Intn(len(rc.maxes))) / ms)
			field = m + uint32(rng.Intn(3)) - 1
		}
		if field < 15 {
			field = 15 + field
		}
		service := fmt.Sprintf("r%d", i)
		var arrived uint32
		var ok bool
		for attempt := 0; attempt < 3 && !ok; attempt++ {
			arrived, ok, _, _, _ = rc.send(col, fmt.Sprintf("%s-%d", service, attempt), field, 2*time.Second)
		}
		sub := "ttl_relay"
		var in, obs []int64
		if multiHop {
			sub = "ttl_hops"
			in = []int64{int64(len(rc.maxes))}
			for _, m := range rc.maxes {
				in = append(in, int64(m))
			}
			in = append(in, int64(field))
			obs = []int64{int64(arrived)}
		} else {
			in = []int64{int64(rc.maxes[0]), int64(field)}
			obs = []int64{int64(effMax(rc, 0)), int64(arrived)}
		}
		verdict := ""
		if !ok {
			verdict = "harness: forwarded call req not seen by the raw server (3 attempts)"
			obs = []int64{-2}
		} else {
			if arrived > field {
				verdict = fmt.Sprintf("relay forwarded ttl %d ms, larger than the %d ms it received", arrived, field)
			}
			for k := range rc.maxes {
				if time.Duration(arrived)*ms > effMax(rc, k) {
					verdict = fmt.Sprintf("relay chain forwarded ttl %d ms, more than the configured maximum %v of hop %d", arrived, effMax(rc, k), k)
				}
			}
		}
		clamped := ok && arrived < field
		o.Hist(fmt.Sprintf("%s:clamped=%v", sub, clamped))
		if i == 2 || i == 3 {
			o.Sample(map[string]interface{}{"sub": sub, "configured_max_ns": rc.maxes, "ttl_field": field, "obs": obs})
		}
		o.Case(sub, fmt.Sprintf("r%d", i), in, obs, true, verdict)
	}

	// the relay's own timer is armed with the clamped value: with a silent destination the
	// caller receives the relay's timeout error after min(ttl, max), not earlier, not much later
	timerChain, err := newRelayChain([]time.Duration{120 * ms}, dest)
	if err != nil {
		o.Oracle("ttl_timer", "setup", false, "setup", "harness: "+err.Error())
		return
	}
	defer timerChain.close()
	for i, field := range []uint32{10000, 60, 4000000000, 121} {
		want := time.Duration(field) * ms
		if want > 120*ms {
			want = 120 * ms
		}
		verdict := ""
		for attempt := 0; attempt < 3; attempt++ {
			verdict = timerChain.timeOne(col, fmt.Sprintf("T%d-%d", i, attempt), field, want)
			if verdict == "" {
				break
			}
		}
		o.Hist("ttl_timer")
		o.Oracle("ttl_timer", fmt.Sprintf("t%d", i), true, fmt.Sprint(field), verdict)
	}
}

func (rc *relayChain) timeOne(col *rawCollector, service string, field uint32, want time.Duration) string {
	rc.nextID++
	id := rc.nextID
	// drain stale error frames
	for {
		select {
		case <-rc.errs:
			continue
		default:
		}
		break
	}
	t0 := time.Now()
	rc.conn.SetWriteDeadline(time.Now().Add(2 * time.Second))
	if _, err := rc.conn.Write(rawCallReq(id, field, service)); err != nil {
		return "harness: write: " + err.Error()
	}
	select {
	case ef := <-rc.errs:
		if ef == nil {
			return "harness: connection closed"
		}
		el := time.Since(t0)
		if ef.ID != id {
			return "harness: error frame for another id"
		}
		if el < want-2*time.Millisecond {
			return fmt.Sprintf("relay timed the call out after %v, before min(ttl, max) = %v", el, want)
		}
		if el > want+400*time.Millisecond {
			return fmt.Sprintf("relay timed the call out after %v, much later than min(ttl, max) = %v", el, want)
		}
		return ""
	case <-time.After(3 * time.Second):
		return fmt.Sprintf("no timeout error from the relay within 3s (min(ttl, max) = %v)", want)
	}
}

// ------------------------------------------------------------------ end to end (oracle only)

func ttlTimerAndE2E(rng *rand.Rand, n int, o *Out) {
	ms := time.Millisecond
	for i := 0; i < n; i++ {
		var maxes []time.Duration
		switch i % 3 {
		case 1:
			maxes = []time.Duration{time.Duration(pick(rng, 40, 300, 5000)) * ms}
		case 2:
			maxes = []time.Duration{time.Duration(pick(rng, 200, 5000)) * ms, time.Duration(pick(rng, 90, 700)) * ms}
		}
		remaining := time.Duration(pick(rng, 25, 150, 1000, 4000, 600000)) * ms
		verdict := ""
		for attempt := 0; attempt < 3; attempt++ {
			verdict = e2eOnce(maxes, remaining)
			if verdict == "" {
				break
			}
		}
		o.Hist(fmt.Sprintf("ttl_e2e:hops=%d", len(maxes)))
		o.Oracle("ttl_e2e", fmt.Sprintf("e%d", i), true, fmt.Sprint(maxes, remaining), verdict)
	}
}

func e2eOnce(maxes []time.Duration, remaining time.Duration) string {
	srv, err := tchannel.NewChannel("svc", nil)
	if err != nil {
		return "harness: " + err.Error()
	}
	defer srv.Close()
	h := &ctxHandler{seen: make(chan ctxSeen, 4)}
	srv.Register(h, "m")
	if err := srv.ListenAndServe("127.0.0.1:0"); err != nil {
		return "harness: " + err.Error()
	}
	next := srv.PeerInfo().HostPort
	setupCtx, setupCancel := tchannel.NewContext(5 * time.Second)
	defer setupCancel()
	for i := len(maxes) - 1; i >= 0; i-- {
		rl, err := tchannel.NewChannel(fmt.Sprintf("relay%d", i), &tchannel.ChannelOptions{RelayHost: &cpRelayHost{dest: next}, RelayMaxTimeout: maxes[i]})
		if err != nil {
			return "harness: " + err.Error()
		}
		defer rl.Close()
		if err := rl.ListenAndServe("127.0.0.1:0"); err != nil {
			return "harness: " + err.Error()
		}
		if _, err := rl.RootPeers().GetOrAdd(next).GetConnection(setupCtx); err != nil {
			return "harness: " + err.Error()
		}
		next = rl.PeerInfo().HostPort
	}
	cl, err := tchannel.NewChannel("cl", nil)
	if err != nil {
		return "harness: " + err.Error()
	}
	defer cl.Close()
	if _, err := cl.RootPeers().GetOrAdd(next).GetConnection(setupCtx); err != nil {
		return "harness: " + err.Error()
	}
	ctx, cancel := tchannel.NewContext(remaining)
	defer cancel()
	callerDl, _ := ctx.Deadline()
	budget := time.Until(callerDl) // the caller's remaining time just before the call starts
	call, err := cl.BeginCall(ctx, next, "svc", "m", nil)
	if err != nil {
		if remaining < 100*time.Millisecond {
			return "" // the budget ran out before the call started
		}
		return "harness: BeginCall: " + err.Error()
	}
	go func() {
		w, err := call.Arg2Writer()
		if err == nil {
			err = w.Close()
		}
		if err == nil {
			w, err = call.Arg3Writer()
		}
		if err == nil {
			err = w.Close()
		}
		if err == nil {
			call.Response().Arg2Reader()
		}
	}()
	select {
	case s := <-h.seen:
		if !s.ok {
			return "handler context has no deadline"
		}
		// hop by hop: never beyond the caller's own deadline, never more than a relay maximum
		if s.dl.Sub(s.at) > budget {
			return fmt.Sprintf("handler was given %v, more than the caller's remaining time %v at the start of the call", s.dl.Sub(s.at), budget)
		}
		for k, m := range maxes {
			if s.dl.Sub(s.at) > m {
				return fmt.Sprintf("handler was given %v, more than the maximum %v of relay %d", s.dl.Sub(s.at), m, k)
			}
		}
		return ""
	case <-time.After(remaining + 500*time.Millisecond):
		if remaining < 100*time.Millisecond {
			return ""
		}
		return "harness: handler not invoked"
	}
}
