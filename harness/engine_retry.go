package main

import (
	"errors"
	"fmt"
	"math/rand"
	"net"
	"sort"
	"time"

	tchannel "github.com/uber/tchannel-go"
	"golang.org/x/net/context"
)

// netErr implements net.Error without being a SystemError.
type netErr struct{ timeout bool }

func (e netErr) Error() string   { return "verif net error" }
func (e netErr) Timeout() bool   { return e.timeout }
func (e netErr) Temporary() bool { return false }

type scriptedOutcome struct {
	kind int // 0 nil, 1 system, 2 net, 3 other, 4 other wrapping a net.Error,
	// 5 the bare context.Canceled, 6 fmt.Errorf("%w", context.Canceled), 7 the bare context.DeadlineExceeded
	// (implements net.Error), 8 fmt.Errorf("%w", context.DeadlineExceeded) (a plain error wrapping a net.Error)
	code  int
	wrap  int // kind 1: the SystemError wraps 0 nothing, 1 net.Error (timeout), 2 net.Error (no timeout), 3 a plain error, 4 nil (literal)
	added []string
}

func (s scriptedOutcome) err() error {
	switch s.kind {
	case 0:
		return nil
	case 1:
		switch s.wrap {
		case 1:
			return tchannel.NewWrappedSystemError(tchannel.SystemErrCode(s.code), netErr{timeout: true})
		case 2:
			return tchannel.NewWrappedSystemError(tchannel.SystemErrCode(s.code), netErr{timeout: false})
		case 3:
			return tchannel.NewWrappedSystemError(tchannel.SystemErrCode(s.code), errors.New("scripted cause"))
		case 4:
			return tchannel.VerifC17SystemError(s.code, nil)
		}
		return tchannel.NewSystemError(tchannel.SystemErrCode(s.code), "scripted %d", s.code)
	case 2:
		return netErr{timeout: s.code%2 == 0}
	case 4:
		return fmt.Errorf("scripted other wrapping: %w", netErr{timeout: s.code%2 == 0})
	case 5:
		return context.Canceled
	case 6:
		return fmt.Errorf("scripted other wrapping: %w", context.Canceled)
	case 7:
		return context.DeadlineExceeded
	case 8:
		return fmt.Errorf("scripted other wrapping: %w", context.DeadlineExceeded)
	default:
		return errors.New("scripted other")
	}
}

// encoding of an error as the model sees it: nil sys code net
func encErr(err error) []int64 {
	if err == nil {
		return []int64{1, 0, 0, 0}
	}
	_, isNet := err.(interface {
		Timeout() bool
		Temporary() bool
		Error() string
	})
	if se, ok := err.(tchannel.SystemError); ok {
		return []int64{0, 1, int64(se.Code()), b2i(isNet)}
	}
	return []int64{0, 0, 0, b2i(isNet)}
}

func specRetryable(policy int, o scriptedOutcome) bool {
	// written from the statement of C17, independent of the model
	class := "other"
	switch o.kind {
	case 2, 7: // a bare net.Error (context.DeadlineExceeded is one: Timeout() / Temporary())
		class = "network"
	case 3, 4, 5, 6, 8: // neither a SystemError nor itself a net.Error -- the bare context.Canceled included
		class = "unexpected"
	case 1: // a SystemError's own code decides, whatever it wraps
		switch o.code {
		case 3, 4:
			class = "busy/declined"
		case 6:
			class = "bad"
		case 7:
			class = "network"
		case 5:
			class = "unexpected"
		}
	}
	if policy == 2 {
		return false
	}
	switch class {
	case "busy/declined":
		return true
	case "bad":
		return false
	case "network":
		return policy == 0 || policy == 1 || policy == 5
	case "unexpected":
		return policy == 4 || policy == 5
	}
	return policy == 5
}

func init() { engines["retry"] = engineRetry }

func engineRetry(rng *rand.Rand, n int, tier string, o *Out) {
	ch, err := tchannel.NewChannel("verif-retry", nil)
	if err != nil {
		panic(err)
	}
	defer ch.Close()

	// 1. the whole CanRetry table: 6 policies (+ an out-of-range one) x 256 codes x kinds
	id := 0
	for policy := 0; policy <= 6; policy++ {
		for code := 0; code < 256; code++ {
			for kind := 1; kind <= 8; kind++ {
				if kind != 1 && code > 1 {
					continue
				}
				for wrap := 0; wrap <= 4; wrap++ {
					if wrap > 0 && kind != 1 {
						continue
					}
					so := scriptedOutcome{kind: kind, code: code, wrap: wrap}
					e := so.err()
					got := tchannel.RetryOn(policy).CanRetry(e)
					verdict := ""
					if policy <= 5 && got != specRetryable(policy, so) {
						verdict = fmt.Sprintf("CanRetry(policy=%d kind=%d code=%d wrapping=%d)=%v, documented table says %v", policy, kind, code, wrap, got, !got)
					}
					in := append([]int64{int64(policy)}, encErr(e)...)
					o.Case("canretry", fmt.Sprintf("t%d", id), in, []int64{b2i(got)}, true, verdict)
					id++
				}
			}
		}
	}
	o.Hist("canretry-table-points")

	// 2. RunWithRetry scripts
	interesting := []int{0, 1, 2, 3, 4, 5, 6, 7, 8, 255}
	for c := 0; c < n; c++ {
		hasOpts := rng.Intn(8) != 0
		maxAttempts := []int{0, 1, 2, 3, 5, 7, 10}[rng.Intn(7)]
		policy := rng.Intn(6)
		tpa := time.Duration(0)
		if rng.Intn(4) == 0 {
			tpa = time.Duration(1+rng.Intn(50)) * time.Millisecond
		}
		nOut := 1 + rng.Intn(12)
		firstSuccess := rng.Intn(nOut + 3) // may be beyond the script: never succeeds
		outs := make([]scriptedOutcome, nOut)
		for i := range outs {
			so := scriptedOutcome{}
			if i == firstSuccess {
				so.kind = 0
			} else {
				// bias towards retryable errors so that long runs happen
				switch rng.Intn(10) {
				case 0:
					so.kind = 2
				case 1:
					so.kind = []int{3, 4, 5, 6, 7, 8}[rng.Intn(6)]
				case 2, 3, 4, 5:
					so.kind, so.code = 1, []int{3, 4}[rng.Intn(2)]
				default:
					so.kind, so.code = 1, interesting[rng.Intn(len(interesting))]
				}
				if so.kind == 1 && rng.Intn(2) == 0 {
					so.wrap = 1 + rng.Intn(4)
				}
			}
			for k := rng.Intn(3); k > 0; k-- {
				hp := fmt.Sprintf("10.0.0.%d:%d", rng.Intn(4), 4000+rng.Intn(3))
				if rng.Intn(10) == 0 {
					hp = fmt.Sprintf("host%d", rng.Intn(3)) // no port
				}
				so.added = append(so.added, hp)
			}
			outs[i] = so
		}

		in := []int64{b2i(hasOpts), int64(maxAttempts), int64(policy), int64(nOut)}
		for _, so := range outs {
			in = append(in, encErr(so.err())...)
			in = append(in, int64(len(so.added)))
			for _, a := range so.added {
				in = putBytes(in, []byte(a))
			}
		}

		cb := tchannel.NewContextBuilder(5 * time.Second)
		if hasOpts {
			cb.SetRetryOptions(&tchannel.RetryOptions{MaxAttempts: maxAttempts, RetryOn: tchannel.RetryOn(policy), TimeoutPerAttempt: tpa})
		}
		ctx, cancel := cb.Build()
		type seenT struct {
			attempt int
			sel     []string
		}
		var seen []seenT
		verdict := ""
		runDeadline, _ := ctx.Deadline()
		ret := ch.RunWithRetry(ctx, func(actx context.Context, rs *tchannel.RequestState) error {
			k := len(seen)
			keys := []string{}
			for h := range rs.PrevSelectedPeers() {
				keys = append(keys, h)
			}
			sort.Strings(keys)
			seen = append(seen, seenT{rs.Attempt, keys})
			if hasOpts && tpa > 0 {
				if d, ok := actx.Deadline(); !ok || d.After(time.Now().Add(tpa)) || d.After(runDeadline) {
					verdict = "per-attempt context deadline exceeds TimeoutPerAttempt"
				}
			}
			so := outs[len(outs)-1]
			if k < len(outs) {
				so = outs[k]
			}
			for _, a := range so.added {
				rs.AddSelectedPeer(a)
			}
			return so.err()
		})
		cancel()

		obs := encErr(ret)
		obs = append(obs, int64(len(seen)))
		for _, s := range seen {
			obs = append(obs, int64(s.attempt), int64(len(s.sel)))
			for _, h := range s.sel {
				obs = putBytes(obs, []byte(h))
			}
		}

		// property oracle, from the statement
		effMax := maxAttempts
		effPolicy := policy
		if !hasOpts {
			effMax, effPolicy = 5, 0
		}
		if effMax == 0 {
			effMax = 5
		}
		if len(seen) < 1 || len(seen) > effMax {
			verdict = fmt.Sprintf("invoked %d times, budget %d", len(seen), effMax)
		}
		for i, s := range seen {
			if s.attempt != i+1 {
				verdict = fmt.Sprintf("attempt %d saw attempt number %d", i+1, s.attempt)
			}
			so := outs[len(outs)-1]
			if i < len(outs) {
				so = outs[i]
			}
			last := i == len(seen)-1
			if so.kind == 0 && !last {
				verdict = "continued after a success"
			}
			if so.kind != 0 && !specRetryable(effPolicy, so) && !last {
				verdict = "continued after a non-retryable error"
			}
			if last {
				if so.kind == 0 && ret != nil {
					verdict = "success not returned as nil"
				}
				if so.kind != 0 {
					if ret == nil || fmt.Sprint(encErr(ret)) != fmt.Sprint(encErr(so.err())) {
						verdict = "last error not returned"
					}
					if specRetryable(effPolicy, so) && len(seen) < effMax {
						verdict = "stopped early on a retryable error with budget left"
					}
				}
			}
			// peers seen = peers marked by earlier attempts
			want := map[string]struct{}{}
			for j := 0; j < i; j++ {
				sj := outs[len(outs)-1]
				if j < len(outs) {
					sj = outs[j]
				}
				for _, a := range sj.added {
					want[a] = struct{}{}
					h := a
					for p := 0; p < len(a); p++ {
						if a[p] == ':' {
							h = a[:p]
							break
						}
					}
					want[h] = struct{}{}
				}
			}
			if len(want) != len(s.sel) {
				verdict = fmt.Sprintf("attempt %d saw %d selected entries, want %d", i+1, len(s.sel), len(want))
			}
			for _, h := range s.sel {
				if _, ok := want[h]; !ok {
					verdict = "attempt saw a peer no earlier attempt marked"
				}
			}
		}
		o.Hist(fmt.Sprintf("attempts=%d", len(seen)))
		o.Hist(fmt.Sprintf("policy=%d", effPolicy))
		if c < 3 {
			o.Sample(map[string]interface{}{"engine": "retry", "input": in, "observed": obs})
		}
		o.Case("retry", fmt.Sprintf("r%d", c), in, obs, len(seen) > 1, verdict)
	}

	// 3. sub-channel peer avoidance across attempts (oracle only; the model side is C15)
	for c := 0; c < n/4+1; c++ {
		npeers := 1 + rng.Intn(6)
		sc := ch.GetSubChannel(fmt.Sprintf("svc-%d", c), tchannel.Isolated)
		hosts := []string{}
		for i := 0; i < npeers; i++ {
			hp := fmt.Sprintf("10.1.%d.%d:%d", c%200, rng.Intn(3), 5000+i)
			hosts = append(hosts, hp)
			sc.Peers().Add(hp)
		}
		cb := tchannel.NewContextBuilder(5 * time.Second).SetRetryOptions(&tchannel.RetryOptions{MaxAttempts: npeers + 2, RetryOn: tchannel.RetryIdempotent})
		ctx, cancel := cb.Build()
		tried := map[string]bool{}
		verdict := ""
		ch.RunWithRetry(ctx, func(actx context.Context, rs *tchannel.RequestState) error {
			p, err := sc.Peers().Get(rs.PrevSelectedPeers())
			if err != nil {
				verdict = "Get failed on non-empty list: " + err.Error()
				return nil
			}
			if tried[p.HostPort()] && len(tried) < npeers {
				verdict = fmt.Sprintf("attempt %d re-selected %s while %d of %d peers were untried", rs.Attempt, p.HostPort(), npeers-len(tried), npeers)
			}
			tried[p.HostPort()] = true
			rs.AddSelectedPeer(p.HostPort())
			return tchannel.ErrServerBusy
		})
		cancel()
		o.Hist(fmt.Sprintf("avoid-npeers=%d", npeers))
		o.Oracle("retry-avoid", fmt.Sprintf("a%d", c), npeers > 1, fmt.Sprint(hosts), verdict)
	}

	// 4. the library's own marking of tried peers: attempts made through Channel.BeginCall
	// (direct host:port) and SubChannel.BeginCall against refused ports; every later attempt
	// must see the host:ports (and hosts) tried before, and sub-channel selection must avoid them.
	refused := func() string {
		ln, err := net.Listen("tcp", "127.0.0.1:0")
		if err != nil {
			panic(err)
		}
		a := ln.Addr().String()
		ln.Close()
		return a
	}
	for c := 0; c < n/8+2; c++ {
		npeers := 2 + rng.Intn(4)
		sc := ch.GetSubChannel(fmt.Sprintf("svc-call-%d", c), tchannel.Isolated)
		var hps []string
		for i := 0; i < npeers; i++ {
			hp := refused()
			hps = append(hps, hp)
			sc.Peers().Add(hp)
		}
		direct := refused()
		plan := make([]int, npeers+2) // 0 = direct Channel.BeginCall, 1 = SubChannel.BeginCall
		for i := range plan {
			plan[i] = rng.Intn(2)
		}
		cb := tchannel.NewContextBuilder(5 * time.Second).SetRetryOptions(&tchannel.RetryOptions{MaxAttempts: len(plan), RetryOn: tchannel.RetryIdempotent})
		ctx, cancel := cb.Build()
		tried := map[string]bool{}
		verdict := ""
		ch.RunWithRetry(ctx, func(actx context.Context, rs *tchannel.RequestState) error {
			prev := rs.PrevSelectedPeers()
			for hp := range tried {
				if _, ok := prev[hp]; !ok {
					verdict = fmt.Sprintf("attempt %d does not see previously tried peer %s in PrevSelectedPeers", rs.Attempt, hp)
				}
				if _, ok := prev["127.0.0.1"]; !ok {
					verdict = fmt.Sprintf("attempt %d does not see the host of previously tried peers", rs.Attempt)
				}
			}
			before := map[string]bool{}
			for hp := range prev {
				before[hp] = true
			}
			var err error
			if rs.Attempt < 1 || rs.Attempt > len(plan) {
				verdict = fmt.Sprintf("attempt number %d with MaxAttempts %d", rs.Attempt, len(plan))
				return nil
			}
			if plan[rs.Attempt-1] == 0 {
				_, err = ch.BeginCall(actx, direct, "svc", "m", &tchannel.CallOptions{RequestState: rs})
				tried[direct] = true
			} else {
				_, err = sc.BeginCall(actx, "m", &tchannel.CallOptions{RequestState: rs})
				var picked string
				for hp := range rs.PrevSelectedPeers() {
					if !before[hp] && hp != "127.0.0.1" {
						picked = hp
					}
				}
				untried := 0
				for _, hp := range hps {
					if !tried[hp] {
						untried++
					}
				}
				if picked == "" && untried > 0 {
					verdict = fmt.Sprintf("sub-channel attempt %d marked no new peer although %d peers were untried", rs.Attempt, untried)
				}
				if picked != "" {
					tried[picked] = true
				}
			}
			if err == nil {
				verdict = "call to a refused port succeeded?"
				return nil
			}
			return err
		})
		cancel()
		o.Hist(fmt.Sprintf("begincall-npeers=%d", npeers))
		o.Oracle("retry-begincall", fmt.Sprintf("b%d", c), true, fmt.Sprint(plan, npeers, c), verdict)
	}
}
