package main

import (
	"bytes"
	"fmt"
	"math/rand"
	"net"
	"sync"
	"sync/atomic"
	"time"

	tchannel "github.com/uber/tchannel-go"
	"github.com/uber/tchannel-go/raw"
	"github.com/uber/tchannel-go/relay/relaytest"
	"golang.org/x/net/context"
)

// mux-slowdest (C04, relay): one destination of a relay stops draining its connection while a
// multi-frame call to it is in progress; calls of the same source connection to OTHER
// destinations must still receive their own responses and nothing else.

type muxStallConn struct {
	net.Conn
	stall *int32
}

func (c muxStallConn) Write(b []byte) (int, error) {
	for atomic.LoadInt32(c.stall) != 0 {
		time.Sleep(2 * time.Millisecond)
	}
	return c.Conn.Write(b)
}

type holdHandler struct {
	release chan struct{}
	entered chan struct{}
}

func (h *holdHandler) OnError(ctx context.Context, err error) {}
func (h *holdHandler) Handle(ctx context.Context, args *raw.Args) (*raw.Res, error) {
	if args.Method == "hold" {
		select {
		case h.entered <- struct{}{}:
		default:
		}
		select {
		case <-h.release:
		case <-ctx.Done():
		}
	}
	return &raw.Res{Arg2: args.Arg2, Arg3: args.Arg3}, nil
}

func slowDestScenario(rng *rand.Rand) (verdict, key string) {
	mk := func(name string, h raw.Handler) *tchannel.Channel {
		ch, err := tchannel.NewChannel(name, &tchannel.ChannelOptions{Logger: tchannel.NullLogger})
		if err != nil {
			panic(err)
		}
		ch.Register(raw.Wrap(h), "echo")
		ch.Register(raw.Wrap(h), "hold")
		if err := ch.ListenAndServe("127.0.0.1:0"); err != nil {
			panic(err)
		}
		return ch
	}
	hFast := &holdHandler{release: make(chan struct{}), entered: make(chan struct{}, 1)}
	hSlow := &holdHandler{release: make(chan struct{}), entered: make(chan struct{}, 1)}
	fast := mk("fastsvc", hFast)
	slow := mk("slowsvc", hSlow)
	defer fast.Close()
	defer slow.Close()
	var stall int32
	slowHP := slow.PeerInfo().HostPort
	rh := relaytest.NewStubRelayHost()
	rly, err := tchannel.NewChannel("relay", &tchannel.ChannelOptions{
		RelayHost: rh, Logger: tchannel.NullLogger,
		DefaultConnectionOptions: tchannel.ConnectionOptions{SendBufferSize: 4},
		Dialer: func(ctx context.Context, network, hostPort string) (net.Conn, error) {
			c, err := (&net.Dialer{}).DialContext(ctx, network, hostPort)
			if err != nil || hostPort != slowHP {
				return c, err
			}
			return muxStallConn{Conn: c, stall: &stall}, nil
		},
	})
	if err != nil {
		return "harness: " + err.Error(), ""
	}
	defer rly.Close()
	if err := rly.ListenAndServe("127.0.0.1:0"); err != nil {
		return "harness: " + err.Error(), ""
	}
	rh.Add("fastsvc", fast.PeerInfo().HostPort)
	rh.Add("slowsvc", slowHP)
	defer close(hFast.release)
	defer close(hSlow.release)

	call := func(ch *tchannel.Channel, svc, method string, a3 []byte, d time.Duration) ([]byte, error) {
		ctx, cancel := tchannel.NewContext(d)
		defer cancel()
		_, r3, _, err := raw.Call(ctx, ch, rly.PeerInfo().HostPort, svc, method, []byte("a2"), a3)
		return r3, err
	}
	warm, err := tchannel.NewChannel("warm-client", &tchannel.ChannelOptions{Logger: tchannel.NullLogger})
	if err != nil {
		return "harness: " + err.Error(), ""
	}
	defer warm.Close()
	client, err := tchannel.NewChannel("client", &tchannel.ChannelOptions{Logger: tchannel.NullLogger})
	if err != nil {
		return "harness: " + err.Error(), ""
	}
	defer client.Close()
	// vary the id counters: calls of another client to the slow service advance the relay's
	// destination-side ids, calls of this client to the fast service advance its source-side ids
	nWarmSlow, nPreFast := rng.Intn(3), rng.Intn(3)
	key = fmt.Sprint(nWarmSlow, nPreFast)
	for i := 0; i < nWarmSlow; i++ {
		if _, err := call(warm, "slowsvc", "echo", []byte("w"), time.Second); err != nil {
			return "harness: warm-up call failed: " + err.Error(), key
		}
	}
	if nWarmSlow == 0 { // establish the relay->slow connection anyway
		if _, err := call(warm, "slowsvc", "echo", []byte("w"), time.Second); err != nil {
			return "harness: warm-up call failed: " + err.Error(), key
		}
	}
	for i := 0; i < nPreFast; i++ {
		if _, err := call(client, "fastsvc", "echo", []byte("p"), time.Second); err != nil {
			return "harness: pre call failed: " + err.Error(), key
		}
	}
	// several held victim calls to the FAST service on the client's connection
	nVictims := 1 + rng.Intn(3)
	type res struct {
		body []byte
		err  error
		want []byte
	}
	results := make([]res, nVictims)
	var wg sync.WaitGroup
	for i := 0; i < nVictims; i++ {
		results[i].want = []byte(fmt.Sprintf("victim-%d-%s", i, randBytes(rng, 20)))
		wg.Add(1)
		go func(i int) {
			defer wg.Done()
			results[i].body, results[i].err = call(client, "fastsvc", "hold", results[i].want, 4*time.Second)
		}(i)
		select {
		case <-hFast.entered:
		case <-time.After(2 * time.Second):
			return "harness: victim call did not reach its handler", key
		}
	}
	// now the slow destination stops draining; a big multi-frame call to it overflows the
	// relay's send buffer for that connection
	atomic.StoreInt32(&stall, 1)
	bigDone := make(chan error, 1)
	go func() {
		_, err := call(client, "slowsvc", "echo", bytes.Repeat([]byte("B"), 3<<20), 1500*time.Millisecond)
		bigDone <- err
	}()
	var bigErr error
	select {
	case bigErr = <-bigDone:
	case <-time.After(3 * time.Second):
		atomic.StoreInt32(&stall, 0)
		return "the call to the stalled destination did not return by its 1.5s deadline (+1.5s slack)", key
	}
	atomic.StoreInt32(&stall, 0)
	// release the victims: each must get its own payload
	for i := 0; i < nVictims; i++ {
		hFast.release <- struct{}{}
	}
	wg.Wait()
	for i, r := range results {
		if r.err != nil {
			return fmt.Sprintf("call %d to the healthy destination failed with %q while only the OTHER destination was slow (big call: %v): an error produced for another call", i, r.err.Error(), bigErr), key
		}
		if !bytes.Equal(r.body, r.want) {
			return fmt.Sprintf("call %d to the healthy destination received a foreign/altered response", i), key
		}
	}
	return "", key
}
