package main

// respwire (C10): a raw TCP peer (rawpeer.go, written from the protocol document) sends
// call requests with many concurrent ids to a REAL tchannel server, directly and through a
// REAL relay, and records every call res (0x04) / call res continue (0x14) / error (0xff)
// frame it receives, per connection and per id.
//
// Oracle (from the statement of C10, independent of the model): per id the sequence must be
// a prefix of  Res[last] | Res[more] Cont[more]* Cont[last] | proper prefix + one Err | one Err,
// with at most one terminal frame, nothing after it, and nothing for ids never requested.
// Through the relay additionally: a call whose response does not finish within
// min(ttl, RelayMaxTimeout) + slack received exactly one error frame with code 0x01.
//
// Model correspondence (sub "respwire", Model/RespWire.v run_respwire): on a fresh
// connection, handlers are driven one API call at a time by the harness (so the order of
// handler actions, deadline expiry, cancel frames, connection close / cut is forced); the
// sequence of atomic actions the implementation was observed to take is handed to the model
// as a label list; the model must accept it and predict the same per-id frame sequences,
// the same result (nil / error) of every API call, and the same final connection state.

import (
	"fmt"
	"math"
	"math/rand"
	"net"
	"sort"
	"strings"
	"sync"
	"time"

	tchannel "github.com/uber/tchannel-go"
	"github.com/uber/tchannel-go/relay/relaytest"
	"golang.org/x/net/context"
)

func init() { engines["respwire"] = engineRespWire }

// ---------------------------------------------------------------- raw observer connection

type rwFrame struct {
	typ  byte // 0x04, 0x14, 0xff
	more bool
	code byte // error frames
	at   time.Time
	head []byte // the first bytes of the payload (engine respopts: which responder wrote the frame)
}

func rwHead(p []byte) []byte {
	if len(p) > 240 {
		p = p[:240]
	}
	return append([]byte(nil), p...)
}

func (f rwFrame) kind() int64 { // encoding of Model/RespWire.v kind_code
	switch {
	case f.typ == 0x04 && !f.more:
		return 0
	case f.typ == 0x04:
		return 1
	case f.typ == 0x14 && !f.more:
		return 2
	case f.typ == 0x14:
		return 3
	}
	return 4
}

func (f rwFrame) String() string {
	switch f.kind() {
	case 0:
		return "Res[last]"
	case 1:
		return "Res[more]"
	case 2:
		return "Cont[last]"
	case 3:
		return "Cont[more]"
	}
	return fmt.Sprintf("Err(%#x)", f.code)
}

type rwConn struct {
	c        net.Conn
	mu       sync.Mutex
	frames   map[uint32][]rwFrame
	nAll     int
	other    []string // frames of unexpected types
	pong     chan uint32
	closed   chan struct{}
	wmu      sync.Mutex
	nextPing uint32
}

func dialRW(addr string) (*rwConn, error) {
	c, err := net.DialTimeout("tcp", addr, 2*time.Second)
	if err != nil {
		return nil, err
	}
	if _, err := rawClientHandshake(c); err != nil {
		c.Close()
		return nil, err
	}
	r := &rwConn{c: c, frames: map[uint32][]rwFrame{}, pong: make(chan uint32, 64), closed: make(chan struct{}), nextPing: 0x7f000000}
	go r.readLoop()
	return r, nil
}

func (r *rwConn) readLoop() {
	defer close(r.closed)
	for {
		f, err := readRawFrame(r.c, 30*time.Second)
		if err != nil {
			return
		}
		now := time.Now()
		switch f.Type {
		case 0x04, 0x14:
			fr := rwFrame{typ: f.Type, at: now, head: rwHead(f.Payload)}
			if len(f.Payload) > 0 {
				fr.more = f.Payload[0]&1 == 1
			}
			r.mu.Lock()
			r.frames[f.ID] = append(r.frames[f.ID], fr)
			r.nAll++
			r.mu.Unlock()
		case 0xff:
			fr := rwFrame{typ: 0xff, at: now, head: rwHead(f.Payload)}
			if len(f.Payload) > 0 {
				fr.code = f.Payload[0]
			}
			r.mu.Lock()
			r.frames[f.ID] = append(r.frames[f.ID], fr)
			r.nAll++
			r.mu.Unlock()
		case 0xd1:
			select {
			case r.pong <- f.ID:
			default:
			}
		case 0xd0: // ping from the other side: answer
			r.write(rawFrameBytes(0xd1, f.ID, nil))
		default:
			r.mu.Lock()
			r.other = append(r.other, fmt.Sprintf("type %#x id %d", f.Type, f.ID))
			r.mu.Unlock()
		}
	}
}

func (r *rwConn) write(b []byte) error {
	r.wmu.Lock()
	defer r.wmu.Unlock()
	r.c.SetWriteDeadline(time.Now().Add(3 * time.Second))
	_, err := r.c.Write(b)
	return err
}

// barrier: a ping answered by the connection's reader goroutine through the same FIFO send
// channel: every frame enqueued before the ping was read has been received when it returns.
// Used only while the connection is active: the scripted cases send no pings to a closing
// connection (a draining connection answers them since the repair of handlePingReq, a closed
// one does not; pings during the drain are C07's subject and have no label in Model/RespWire.v),
// they wait for the wire to be quiet instead (settle).
func (r *rwConn) barrier() bool {
	r.wmu.Lock()
	r.nextPing++
	id := r.nextPing
	r.wmu.Unlock()
	if r.write(rawFrameBytes(0xd0, id, nil)) != nil {
		return false
	}
	deadline := time.After(3 * time.Second)
	for {
		select {
		case got := <-r.pong:
			if got == id {
				return true
			}
		case <-r.closed:
			return false
		case <-deadline:
			return false
		}
	}
}

// settle: wait until no frame has arrived for quiet (used where a ping is not possible).
func (r *rwConn) settle(quiet time.Duration) {
	last := -1
	for i := 0; i < 100; i++ {
		r.mu.Lock()
		n := r.nAll
		r.mu.Unlock()
		if n == last {
			return
		}
		last = n
		time.Sleep(quiet)
	}
}

func (r *rwConn) snapshot(id uint32) []rwFrame {
	r.mu.Lock()
	defer r.mu.Unlock()
	return append([]rwFrame(nil), r.frames[id]...)
}

func (r *rwConn) ids() []uint32 {
	r.mu.Lock()
	defer r.mu.Unlock()
	var ids []uint32
	for id := range r.frames {
		ids = append(ids, id)
	}
	sort.Slice(ids, func(i, j int) bool { return ids[i] < ids[j] })
	return ids
}

var rwTracing = make([]byte, 25)

// sendCall sends a call req (split into nframes >= 1 frames by shrinking the payload limit).
func (r *rwConn) sendCall(id uint32, ttlMs uint32, service, method string, arg2, arg3 []byte, nframes int) error {
	hdr := rawCallReqHeader(ttlMs, rwTracing, service, [][2]string{{"as", "raw"}, {"cn", "verif-raw"}})
	maxPayload := 65519
	if nframes > 1 {
		total := 1 + len(hdr) + 5 + 6 + len(method) + len(arg2) + len(arg3)
		maxPayload = total/nframes + 24
		if min := 1 + len(hdr) + 5 + 2 + len(method) + 8; maxPayload < min {
			maxPayload = min
		}
	}
	var all []byte
	for _, fr := range buildRawCallFrames(true, id, hdr, 1, [3][]byte{[]byte(method), arg2, arg3}, maxPayload) {
		all = append(all, fr...)
	}
	return r.write(all)
}

func (r *rwConn) sendCancel(id uint32) error {
	p := []byte{0, 0, 0, 0}
	p = append(p, rwTracing...)
	p = append(p, str2("cancelled by verif peer")...)
	return r.write(rawFrameBytes(0xc0, id, p))
}

// ---------------------------------------------------------------- the oracle (from the statement)

const raceWindow = 25 * time.Millisecond

// wireVerdict checks one id's sequence.  relayed: the known relay finding gets its key.
func wireVerdict(id uint32, fs []rwFrame, relayed bool) string {
	st := 0 // 0 nothing, 1 Res[more] Cont[more]*, 2 terminal seen
	var termAt int
	for i, f := range fs {
		bad := ""
		switch st {
		case 0:
			switch f.typ {
			case 0x04:
				if f.more {
					st = 1
				} else {
					st, termAt = 2, i
				}
			case 0xff:
				st, termAt = 2, i
			default:
				bad = "a continuation frame before any call res frame"
			}
		case 1:
			switch f.typ {
			case 0x14:
				if !f.more {
					st, termAt = 2, i
				}
			case 0xff:
				st, termAt = 2, i
			default:
				bad = "a second call res frame inside a response"
			}
		default:
			bad = fmt.Sprintf("%v after the terminal frame %v", f, fs[termAt])
			// the known relay race (frame looked up before the timer entombed the item, enqueued
			// after the timeout error) puts the frame right behind the error frame; a response
			// frame that arrives long after it was not discarded by the tombstone: plain failure
			if relayed && fs[termAt].typ == 0xff && fs[termAt].code == 0x01 && f.typ != 0xff &&
				f.at.Sub(fs[termAt].at) < raceWindow {
				return fmt.Sprintf("[relay:response-frame-after-timeout-error] id %d: %s (sequence %v)", id, bad, fs)
			}
			if relayed && fs[termAt].typ == 0xff && fs[termAt].code == 0x01 && f.typ != 0xff {
				bad += fmt.Sprintf(" (%v later: a late response frame was not discarded)", f.at.Sub(fs[termAt].at))
			}
		}
		if bad != "" {
			return fmt.Sprintf("id %d: %s (sequence %v)", id, bad, fs)
		}
	}
	return ""
}

func complete(fs []rwFrame) bool {
	if len(fs) == 0 {
		return false
	}
	l := fs[len(fs)-1]
	return l.typ == 0xff || !l.more
}

// ---------------------------------------------------------------- scripted handler (model cases)

const (
	opResp = iota + 1
	opArgW
	opWrite
	opBigWrite
	opFlush
	opClose
	opSysErr
	opAppErr
	opBlackhole
	opWaitDone
	opCtx
	opEnd
	opHelperOK   // arguments.go NewArgWriter(w, nil).Write(bytes): f() = Write succeeds, the helper closes the writer
	opHelperFail // NewArgWriter(w, nil).WriteJSON(a value that cannot be encoded): f() fails above the transport
)

// values json.Encoder refuses before writing a byte
type rwBadMarshaler struct{}

func (rwBadMarshaler) MarshalJSON() ([]byte, error) {
	return nil, fmt.Errorf("refuses to be marshalled")
}

func rwUnencodable(k int) interface{} {
	switch k % 3 {
	case 0:
		return map[string]float64{"ratio": math.NaN()}
	case 1:
		return rwBadMarshaler{}
	}
	return map[string]interface{}{"c": make(chan int)}
}

type hcmd struct {
	op, k int
	wait  time.Duration
}
type hres struct {
	err    bool
	ctxErr int // 0 live, 1 canceled, 2 deadline exceeded
}

type scriptedCall struct {
	cmd     chan hcmd
	res     chan hres
	started chan struct{}
}

var rwScripts sync.Map // key -> *scriptedCall

var rwBig = []byte(strings.Repeat("B", 70000))

func ctxCode(ctx context.Context) int {
	switch ctx.Err() {
	case nil:
		return 0
	case context.Canceled:
		return 1
	}
	return 2
}

func scriptedHandler(ctx context.Context, call *tchannel.InboundCall) {
	var a2, a3 []byte
	if err := tchannel.NewArgReader(call.Arg2Reader()).Read(&a2); err != nil {
		return
	}
	if err := tchannel.NewArgReader(call.Arg3Reader()).Read(&a3); err != nil {
		return
	}
	if len(a3) < 16 {
		return
	}
	v, ok := rwScripts.Load(string(a3[:16]))
	if !ok {
		return
	}
	sc := v.(*scriptedCall)
	close(sc.started)
	var resp *tchannel.InboundCallResponse
	var w tchannel.ArgWriter
	for cmd := range sc.cmd {
		r := hres{}
		func() {
			defer func() {
				if p := recover(); p != nil {
					r.err = true
					r.ctxErr = -1
				}
			}()
			switch cmd.op {
			case opResp:
				resp = call.Response()
			case opArgW:
				w2, err := tchannel.VerifRespArgWriter(resp, cmd.k)
				if err == nil {
					w = w2
				}
				r.err = err != nil
			case opWrite:
				_, err := w.Write([]byte("0123456789abcdef"))
				r.err = err != nil
			case opBigWrite: // overflows the current fragment exactly once: Write flushes it
				_, err := w.Write(rwBig)
				r.err = err != nil
			case opFlush:
				r.err = w.Flush() != nil
			case opClose:
				r.err = w.Close() != nil
			case opHelperOK:
				r.err = tchannel.NewArgWriter(w, nil).Write([]byte("helper-written")) != nil
			case opHelperFail:
				r.err = tchannel.NewArgWriter(w, nil).WriteJSON(rwUnencodable(cmd.k)) != nil
			case opSysErr:
				r.err = resp.SendSystemError(tchannel.ErrServerBusy) != nil
			case opAppErr:
				r.err = resp.SetApplicationError() != nil
			case opBlackhole:
				resp.Blackhole()
			case opWaitDone:
				select {
				case <-ctx.Done():
				case <-time.After(cmd.wait):
				}
			}
			if r.ctxErr == 0 {
				r.ctxErr = ctxCode(ctx)
			}
		}()
		if cmd.op == opEnd {
			sc.res <- r
			return
		}
		sc.res <- r
	}
}

// ---------------------------------------------------------------- model cases

type mcall struct {
	id                             uint32
	sc                             *scriptedCall
	plan                           []hcmd
	pc                             int
	started, ended                 bool
	errSeen, expired, done, misuse bool
	hasResp                        bool
	wk                             int // argument index of the open writer (0 none)
	open                           bool
	shortTTL                       bool
	rets                           []int64
	requests                       int
	sysErrNil                      bool // a SendSystemError of this call returned nil (its frame was queued)
}

type mcase struct {
	rng          *rand.Rand
	prop         bool
	labels       []int64
	nlabels      int
	calls        map[uint32]*mcall
	order        []uint32 // ids in order of first request
	reqCount     map[uint32]int
	rw           *rwConn
	conn         *tchannel.Connection
	closing      bool // server side no longer active
	protoStopped bool
	cut          bool
	infeasible   string
	hist         []string
	verdicts     []string // statement-level findings made while the script runs
}

func (m *mcase) lab(op int, a, b int64) {
	m.labels = append(m.labels, int64(op), a, b)
	m.nlabels++
}

func (m *mcase) sync() {
	if m.cut {
		return
	}
	if m.closing {
		m.rw.settle(12 * time.Millisecond)
		return
	}
	if !m.rw.barrier() {
		m.rw.settle(12 * time.Millisecond)
	}
}

// waitGone: the expiry goroutine of a call runs asynchronously; before the script goes on,
// wait until its effect (the id left the connection's exchange map) is visible, so that the
// order of actions handed to the model is the order in which they happened.
func (m *mcase) waitGone(id uint32) {
	if m.conn == nil {
		return
	}
	for i := 0; i < 400; i++ {
		if !tchannel.VerifInboundHas(m.conn, id) {
			return
		}
		time.Sleep(time.Millisecond)
	}
	// not an infeasible schedule: the implementation did not do what the label says; the
	// case goes on and the comparison with the model shows the difference
	m.hist = append(m.hist, "exchange-not-removed-after-expiry-label")
}

// markShutdown: the exchange of c was shut down (errCh notified): its expiry goroutine fires.
func (m *mcase) markShutdown(c *mcall) {
	if !c.expired {
		c.expired = true
		m.lab(32, int64(c.id), 0) // ExpireErr
		m.waitGone(c.id)
	}
}

func (m *mcase) do(c *mcall, cmd hcmd) (hres, bool) {
	select {
	case c.sc.cmd <- cmd:
	case <-time.After(3 * time.Second):
		m.infeasible = "handler does not take commands"
		return hres{}, false
	}
	select {
	case r := <-c.sc.res:
		return r, true
	case <-time.After(5 * time.Second):
		m.infeasible = "handler op did not return"
		return hres{}, false
	}
}

var rwKeySeq uint64

func (m *mcase) request(id uint32, ttlMs uint32, nframes int, plan []hcmd, shortTTL bool) {
	rwKeySeq++
	key := fmt.Sprintf("K%015d", rwKeySeq)
	sc := &scriptedCall{cmd: make(chan hcmd), res: make(chan hres, 1), started: make(chan struct{})}
	rwScripts.Store(key, sc)
	arg3 := []byte(key)
	if nframes > 1 {
		arg3 = append(arg3, []byte(strings.Repeat("x", 300*nframes))...)
	}
	if m.reqCount[id] == 0 {
		m.order = append(m.order, id)
	}
	m.reqCount[id]++
	if err := m.rw.sendCall(id, ttlMs, "svc", "m", []byte("a2"), arg3, nframes); err != nil {
		m.infeasible = "write call req: " + err.Error()
		return
	}
	old := m.calls[id]
	inflight := old != nil && old.started && !old.expired && !old.errSeen && !old.done
	switch {
	case m.closing:
		// not active: SendSystemError(ErrChannelClosed), no admission
		m.lab(1, int64(id), 0)
		m.sync()
	case inflight || m.stoppedByProto():
		// duplicate in-flight id: protocolError
		m.lab(1, int64(id), 0)
		m.lab(2, 1, 0)
		m.lab(4, 0, 0)
		m.lab(5, 0, 0)
		m.closing = true
		m.protoStopped = true
		// stopExchanges notifies every exchange still registered, and the expiry goroutine of a
		// dispatched call runs until its exchange is gone -- also when the HANDLER has already
		// returned without finishing the response (a handler whose helper write failed and that only
		// logs the error): `ended` (the script of the handler is over) says nothing about the
		// exchange; markShutdown itself skips the calls whose exchange is already gone (expired)
		for _, oid := range m.sortedIDs() {
			if oc := m.calls[oid]; oc.started {
				m.markShutdown(oc)
			}
		}
		m.sync()
	default:
		select {
		case <-sc.started:
		case <-time.After(3 * time.Second):
			m.infeasible = "handler did not start"
			return
		}
		m.lab(1, int64(id), 0)
		m.lab(2, 1, 0)
		m.lab(3, 0, 0)
		m.lab(10, int64(id), 1)
		m.calls[id] = &mcall{id: id, sc: sc, plan: plan, started: true, shortTTL: shortTTL}
	}
}

func (m *mcase) sortedIDs() []uint32 {
	var ids []uint32
	for id := range m.calls {
		ids = append(ids, id)
	}
	sort.Slice(ids, func(i, j int) bool { return ids[i] < ids[j] })
	return ids
}

// one step of the plan of call c
func (m *mcase) stepCall(c *mcall) {
	if c.pc >= len(c.plan) {
		m.endCall(c)
		return
	}
	cmd := c.plan[c.pc]
	c.pc++
	id := int64(c.id)
	// once an API call has failed only calls with a result-independent translation are made
	writerOp := cmd.op == opWrite || cmd.op == opBigWrite || cmd.op == opFlush || cmd.op == opClose || cmd.op == opHelperOK || cmd.op == opHelperFail
	if writerOp && (c.errSeen || !c.open) {
		return
	}
	if cmd.op != opResp && cmd.op != opWaitDone && cmd.op != opCtx && !c.hasResp {
		return
	}
	switch cmd.op {
	case opResp:
		if _, ok := m.do(c, cmd); !ok {
			return
		}
		c.hasResp = true
		m.lab(11, id, 0)
	case opArgW:
		r, ok := m.do(c, cmd)
		if !ok {
			return
		}
		m.lab(13, id, int64(cmd.k))
		c.rets = append(c.rets, b2i(r.err))
		if r.err {
			c.errSeen = true
			m.markShutdown(c)
		} else {
			c.wk, c.open = cmd.k, true
		}
	case opWrite:
		r, ok := m.do(c, cmd)
		if !ok {
			return
		}
		if r.err {
			c.rets = append(c.rets, 1) // the model has no action here: shows up as a disagreement
		}
	case opFlush, opBigWrite:
		r, ok := m.do(c, cmd)
		if !ok {
			return
		}
		c.rets = append(c.rets, b2i(r.err))
		m.lab(14, id, b2i(cmd.op == opBigWrite))
		if r.err {
			c.errSeen = true
			m.markShutdown(c)
		} else {
			m.lab(15, id, 1)
			m.lab(16, id, 0)
		}
	case opHelperFail:
		// ArgWriteHelper.write whose f() fails above the transport (the value cannot be encoded):
		// HHelperWrite id false -- the model records the error and touches nothing; the writer
		// stays open, the response has not failed (a system error that follows must be sent)
		r, ok := m.do(c, cmd)
		if !ok {
			return
		}
		c.rets = append(c.rets, b2i(r.err))
		m.lab(22, id, 0)
	case opClose, opHelperOK:
		r, ok := m.do(c, cmd)
		if !ok {
			return
		}
		c.rets = append(c.rets, b2i(r.err))
		if cmd.op == opHelperOK {
			m.lab(22, id, 1) // HHelperWrite id true: the helper's Close
		} else {
			m.lab(17, id, 0)
		}
		c.open = false
		if c.wk == 3 {
			if !r.err {
				m.lab(15, id, 1)
				c.done = true
			} else {
				c.errSeen = true
			}
			m.lab(18, id, 0)
			m.markShutdown(c)
		} else if r.err {
			c.errSeen = true
			m.markShutdown(c)
		}
	case opSysErr:
		// C10_syserr_step (from the statement: a handler's error is what the caller gets instead
		// of the response): no connection failure so far, the call was dispatched, its exchange is
		// still registered and its response has not failed -- then SendSystemError must queue the
		// error frame and return nil, whether the connection is active or draining after Close,
		// also when this call is the last one being drained (the send buffer is never full here)
		mustSend := !m.cut && !m.protoStopped && !c.errSeen && !c.done && !c.expired && !c.shortTTL &&
			m.conn != nil && tchannel.VerifInboundHas(m.conn, c.id)
		stBefore, _, inbBefore := m.info()
		r, ok := m.do(c, cmd)
		if !ok {
			return
		}
		c.rets = append(c.rets, b2i(r.err))
		m.lab(19, id, 0)
		if mustSend {
			m.hist = append(m.hist, fmt.Sprintf("syserr-in-flight:conn-state=%d last-exchange=%v", stBefore, inbBefore == 1))
			if r.err {
				m.verdicts = append(m.verdicts, fmt.Sprintf("id %d: SendSystemError of a dispatched call whose exchange was still registered (connection state %d, %d inbound exchanges, no connection failure) was refused: the caller does not get the handler's error", c.id, stBefore, inbBefore))
			}
		}
		if !r.err {
			c.sysErrNil = true
		}
		if c.done && !c.errSeen {
			c.misuse = true
		}
		if !c.errSeen {
			// got past the error check: doneSending ran
			c.done = true
			m.markShutdown(c)
		}
	case opAppErr:
		r, ok := m.do(c, cmd)
		if !ok {
			return
		}
		c.rets = append(c.rets, b2i(r.err))
		m.lab(20, id, 0)
		if r.err && !c.errSeen {
			c.errSeen = true
			m.markShutdown(c)
		}
	case opBlackhole:
		if _, ok := m.do(c, cmd); !ok {
			return
		}
		m.lab(21, id, 0)
		if !c.expired {
			c.expired = true
			m.lab(31, id, 0)
			m.waitGone(c.id)
		}
	case opWaitDone: // deadline overrun
		pre, ok := m.do(c, hcmd{op: opCtx})
		if !ok {
			return
		}
		if pre.ctxErr == 2 {
			m.infeasible = "deadline passed before the scripted point"
			return
		}
		r, ok := m.do(c, hcmd{op: opWaitDone, wait: 3 * time.Second})
		if !ok {
			return
		}
		if r.ctxErr == 2 {
			m.lab(30, id, 0)
			if !c.expired {
				c.expired = true
				m.lab(31, id, 0)
				m.waitGone(c.id)
			}
		}
	}
}

func (m *mcase) endCall(c *mcall) {
	if c.ended {
		return
	}
	c.ended = true
	m.do(c, hcmd{op: opEnd})
}

func (m *mcase) cancelFrame(c *mcall) {
	if m.cut {
		return
	}
	if m.closing {
		// a frame written to a connection the server has just closed is answered with a TCP reset,
		// and a reset that overtakes the observer's reads discards frames the server wrote before it
		// closed (C07's known finding c07:close-reset-loses-response, not C10's subject): let the
		// observer read what is in flight before it writes
		m.rw.settle(6 * time.Millisecond)
	}
	if m.rw.sendCancel(c.id) != nil {
		return
	}
	m.sync()
	m.lab(6, int64(c.id), 0)
	inEx := c.started && !c.expired && !c.errSeen && !c.done
	if m.prop && inEx {
		if !c.ended {
			m.do(c, hcmd{op: opWaitDone, wait: 500 * time.Millisecond})
		}
		// the cancelled context wakes the expiry goroutine, which removes the exchange
		for i := 0; i < 500; i++ {
			if !tchannel.VerifInboundHas(m.conn, c.id) {
				c.expired = true
				m.lab(31, int64(c.id), 0)
				break
			}
			time.Sleep(time.Millisecond)
		}
	}
}

func (m *mcase) info() (int, bool, int) {
	if m.conn == nil {
		return -1, false, -1
	}
	return tchannel.VerifConnInfo(m.conn)
}

func (m *mcase) quiesce() (int, bool, int) {
	time.Sleep(4 * time.Millisecond)
	a, b, c := m.info()
	for i := 0; i < 40; i++ {
		time.Sleep(4 * time.Millisecond)
		a2, b2, c2 := m.info()
		if a2 == a && b2 == b && c2 == c && i >= 1 {
			return a, b, c
		}
		a, b, c = a2, b2, c2
	}
	return a, b, c
}

func completePlan(rng *rand.Rand, nf2, nf3 int) []hcmd {
	p := []hcmd{{op: opResp}, {op: opArgW, k: 1}, {op: opClose}, {op: opArgW, k: 2}}
	if rng.Intn(2) == 0 {
		p = append(p, hcmd{op: opWrite})
	}
	for i := 0; i < nf2; i++ {
		p = append(p, hcmd{op: opFlush})
		if rng.Intn(2) == 0 {
			p = append(p, hcmd{op: opWrite})
		}
	}
	p = append(p, hcmd{op: opClose}, hcmd{op: opArgW, k: 3})
	if rng.Intn(2) == 0 {
		p = append(p, hcmd{op: opWrite})
	}
	if rng.Intn(4) == 0 {
		p = append(p, hcmd{op: opBigWrite})
	}
	for i := 0; i < nf3; i++ {
		p = append(p, hcmd{op: opFlush})
		if rng.Intn(2) == 0 {
			p = append(p, hcmd{op: opWrite})
		}
	}
	return append(p, hcmd{op: opClose})
}

// genPlan returns the handler script, whether the call needs a short ttl, and its class.
func genPlan(rng *rand.Rand) ([]hcmd, bool, string) {
	if rng.Intn(6) == 0 {
		return helperPlan(rng)
	}
	full := completePlan(rng, pick(rng, 0, 0, 1, 2), pick(rng, 0, 0, 1, 3))
	switch rng.Intn(12) {
	case 0, 1, 2:
		return full, false, "complete"
	case 3:
		return []hcmd{{op: opResp}, {op: opSysErr}}, false, "syserr"
	case 4, 5:
		cutAt := 4 + rng.Intn(len(full)-4)
		p := append(append([]hcmd{}, full[:cutAt]...), hcmd{op: opSysErr})
		if rng.Intn(3) == 0 { // the handler goes on writing after its system error: must be refused
			return append(p, full[cutAt:]...), false, "partial+syserr+keeps-writing"
		}
		return p, false, "partial+syserr"
	case 6, 7:
		at := 1 + rng.Intn(len(full)-1)
		p := append(append([]hcmd{}, full[:at]...), hcmd{op: opWaitDone})
		p = append(p, full[at:]...)
		if rng.Intn(2) == 0 {
			p = append(p, hcmd{op: opSysErr})
		}
		return p, true, "deadline-overrun"
	case 8:
		at := 1 + rng.Intn(len(full)-1)
		p := append(append([]hcmd{}, full[:at]...), hcmd{op: opBlackhole})
		if rng.Intn(2) == 0 {
			p = append(p, full[at:]...)
		}
		return p, false, "blackhole"
	case 9:
		if rng.Intn(2) == 0 {
			return append(full, hcmd{op: opSysErr}), false, "misuse:syserr-after-response"
		}
		return []hcmd{{op: opResp}, {op: opSysErr}, {op: opSysErr}}, false, "misuse:two-syserr"
	case 10:
		switch rng.Intn(3) {
		case 0: // arg3 before arg2
			return []hcmd{{op: opResp}, {op: opArgW, k: 1}, {op: opClose}, {op: opArgW, k: 3}, {op: opSysErr}}, false, "out-of-order"
		case 1: // application error flag too late
			p := append(append([]hcmd{}, full[:len(full)-2]...), hcmd{op: opAppErr})
			return append(p, full[len(full)-2:]...), false, "out-of-order"
		default: // arg1 twice
			return []hcmd{{op: opResp}, {op: opArgW, k: 1}, {op: opClose}, {op: opArgW, k: 1}, {op: opSysErr}}, false, "out-of-order"
		}
	default:
		p := append([]hcmd{{op: opResp}, {op: opAppErr}}, full[1:]...)
		return p, false, "complete+apperr"
	}
}

// helperPlan: handlers written with the arg helpers (arguments.go NewArgWriter(..).Write / WriteJSON),
// the way an ErrorHandlerFunc is: the first error ends the handler and is answered with ONE system
// error.  The failing encode hits arg2 or arg3, with 0..2 fragments of the argument flushed before.
func helperPlan(rng *rand.Rand) ([]hcmd, bool, string) {
	p := []hcmd{{op: opResp}, {op: opArgW, k: 1}, {op: opClose}, {op: opArgW, k: 2}}
	pre := func(n int) {
		for i := 0; i < n; i++ {
			p = append(p, hcmd{op: opWrite}, hcmd{op: opFlush})
		}
	}
	fail := hcmd{op: opHelperFail, k: rng.Intn(3)}
	switch rng.Intn(7) {
	case 0:
		pre(pick(rng, 0, 0, 1))
		p = append(p, hcmd{op: opHelperOK}, hcmd{op: opArgW, k: 3})
		pre(pick(rng, 0, 0, 1, 2))
		return append(p, hcmd{op: opHelperOK}), false, "helper:complete"
	case 1:
		pre(pick(rng, 0, 0, 1))
		return append(p, fail, hcmd{op: opSysErr}), false, "helper:arg2-encode-fails+syserr"
	case 2: // the application retries with a fallback body on the writer it still holds
		p = append(p, hcmd{op: opHelperOK}, hcmd{op: opArgW, k: 3})
		pre(pick(rng, 0, 1))
		return append(p, fail, hcmd{op: opHelperOK}), false, "helper:arg3-encode-fails+fallback-body"
	case 3: // a layer that only logs the error (json.Register): nothing more is sent
		p = append(p, hcmd{op: opHelperOK}, hcmd{op: opArgW, k: 3})
		return append(p, fail), false, "helper:arg3-encode-fails+silent"
	case 4: // the deadline passes, then the helper's Close fails, the handler answers with a system error (refused)
		p = append(p, hcmd{op: opHelperOK}, hcmd{op: opArgW, k: 3}, hcmd{op: opWaitDone}, hcmd{op: opHelperOK}, hcmd{op: opSysErr})
		return p, true, "helper:deadline-then-close-fails+syserr"
	default:
		p = append(p, hcmd{op: opHelperOK}, hcmd{op: opArgW, k: 3})
		pre(pick(rng, 0, 0, 1, 2))
		return append(p, fail, hcmd{op: opSysErr}), false, "helper:arg3-encode-fails+syserr"
	}
}

func (m *mcase) stoppedByProto() bool { return m.protoStopped }

// runModelCase runs one scripted connection and returns (input, observation, verdict, classes).
func runModelCase(rng *rand.Rand, servers [2]*tchannel.Channel, caseNo int) (in, obs []int64, verdict string, classes []string, infeasible string) {
	prop := rng.Intn(2) == 1
	srv := servers[b2i(prop)]
	rw, err := dialRW(srv.PeerInfo().HostPort)
	if err != nil {
		return nil, nil, "", nil, "dial: " + err.Error()
	}
	defer rw.c.Close()
	m := &mcase{rng: rng, prop: prop, calls: map[uint32]*mcall{}, reqCount: map[uint32]int{}, rw: rw}
	if !rw.barrier() {
		return nil, nil, "", nil, "no ping response"
	}
	m.conn = tchannel.VerifFindConn(srv, rw.c.LocalAddr().String())
	if m.conn == nil {
		return nil, nil, "", nil, "server connection not found"
	}
	ncalls := 1 + rng.Intn(3)
	baseID := uint32(2 + rng.Intn(1000))
	event := pick(rng, 0, 0, 0, 1, 2, 3, 3, 4, 5) // 0 none 1 graceful close 2 peer cut 3 duplicate id 4 undecodable req 5 request after close
	eventAt := 2 + rng.Intn(14)
	var cancelAt = -1
	if rng.Intn(3) == 0 {
		cancelAt = 3 + rng.Intn(12)
	}
	var forcePlan []hcmd
	if caseNo%8 == 5 {
		// forced in every 8th case: the system error of the LAST call being drained.  One call,
		// Close while its handler is running (after 0..n response fragments), then
		// SendSystemError: removing the exchange closes the connection, the error frame must
		// have been queued before (inbound.go SendSystemError as repaired)
		ncalls, event, cancelAt = 1, 1, -1
		full := completePlan(rng, pick(rng, 0, 0, 1, 2), pick(rng, 0, 1, 2))
		cutAt := pick(rng, 1, 1, 4+rng.Intn(len(full)-4))
		forcePlan = append(append([]hcmd{}, full[:cutAt]...), hcmd{op: opSysErr})
		eventAt = 1 + rng.Intn(len(forcePlan)-1)
	}
	started := 0
	nextID := baseID
	newCall := func() {
		plan, short, class := genPlan(rng)
		if forcePlan != nil {
			plan, short, class = forcePlan, false, "forced:syserr-of-last-drained-call"
		} else if caseNo%8 == 1 && started == 0 {
			// forced in every 8th case: a handler written with the arg helpers
			plan, short, class = helperPlan(rng)
		}
		classes = append(classes, class)
		ttl := uint32(60000)
		if short {
			ttl = uint32(120 + rng.Intn(80))
		}
		id := nextID
		nextID += uint32(1 + rng.Intn(5))
		m.request(id, ttl, pick(rng, 1, 1, 1, 2, 3), plan, short)
		started++
	}
	newCall()
	raceAt := -1
	if rng.Intn(8) == 0 {
		raceAt = 1 + rng.Intn(10)
	}
	if forcePlan != nil {
		raceAt = -1
	}
	if caseNo%8 == 3 {
		// the close-vs-admission window is forced in every 8th case, early enough that the
		// script is still running and before any other connection-level event: it never
		// depends on the draw above
		raceAt = 1
		if eventAt <= raceAt {
			eventAt = raceAt + 1
		}
	}
	for step := 0; step < 200 && m.infeasible == ""; step++ {
		if step == raceAt && !m.closing && !m.cut {
			// Close between newExchange and the state re-check of handleCallReq (schedule
			// point inbound.afterNewExchange): the call is declined (error frame), the exchange
			// is shut down, no handler runs
			classes = append(classes, "event:close-vs-admission")
			id := nextID + 300
			s := NewSched()
			k := key("inbound.afterNewExchange", id)
			s.ParkAtID("inbound.afterNewExchange", id)
			m.order = append(m.order, id)
			m.reqCount[id]++
			rw.sendCall(id, 60000, "svc", "m", []byte("a2"), []byte("no-script-key-16"), 1)
			if !s.WaitArrived(k, 1, 2*time.Second) {
				m.infeasible = "reader did not reach inbound.afterNewExchange"
				s.Close()
				break
			}
			m.lab(1, int64(id), 0)
			m.lab(2, 1, 0)
			m.conn.Close()
			m.lab(40, 0, 0)
			s.Release(k)
			m.lab(3, 0, 0)
			m.closing = true
			m.waitGone(id)
			s.Close()
			continue
		}
		if step == eventAt {
			switch event {
			case 1, 5:
				classes = append(classes, "event:graceful-close")
				m.conn.Close()
				m.lab(40, 0, 0)
				m.closing = true
				if event == 5 {
					classes = append(classes, "event:request-after-close")
					st, _, _ := m.info()
					if st != 3 {
						m.request(nextID+100, 60000, 1, nil, false)
					}
				}
			case 2:
				classes = append(classes, "event:peer-cut")
				m.sync()
				if st, _, _ := m.info(); st == 3 {
					// already closed (and the network closed) by the server: a read error
					// after closeNetwork is ignored by readFrames, nothing happens
					time.Sleep(5 * time.Millisecond)
					m.cut = true
					rw.c.Close()
					break
				}
				m.cut = true
				rw.c.Close()
				ok := false
				for i := 0; i < 500; i++ {
					if st, _, _ := m.info(); st == 3 {
						ok = true
						break
					}
					time.Sleep(2 * time.Millisecond)
				}
				if !ok {
					m.infeasible = "server connection did not close after the peer cut"
					break
				}
				m.lab(40, 0, 0)
				m.lab(41, 0, 0)
				for _, id := range m.sortedIDs() {
					if c := m.calls[id]; c.started {
						m.markShutdown(c)
					}
				}
				m.lab(42, 0, 0)
				m.closing = true
			case 3:
				// a second call req for an id that is still in flight (re-use of an id
				// after its call ended is a different call with the same number: not generated)
				var ids []uint32
				for _, id := range m.sortedIDs() {
					if oc := m.calls[id]; oc.started && !oc.expired && !oc.errSeen && !oc.done {
						ids = append(ids, id)
					}
				}
				if len(ids) > 0 && !m.closing && !m.cut {
					classes = append(classes, "event:duplicate-id")
					m.request(ids[rng.Intn(len(ids))], 60000, 1, nil, false)
				} else if !m.closing && !m.cut && eventAt < 40 {
					eventAt = step + 1 // no call in flight right now: try again at the next step
				}
			case 4:
				if !m.closing && !m.cut {
					classes = append(classes, "event:undecodable-req")
					id := nextID + 200
					if m.reqCount[id] == 0 {
						m.order = append(m.order, id)
					}
					m.reqCount[id]++
					rw.write(rawFrameBytes(0x03, id, []byte{0, 0, 0}))
					m.sync()
					m.lab(1, int64(id), 0)
					m.lab(2, 0, 0)
				}
			}
		}
		// pick something to do
		var live []*mcall
		for _, id := range m.sortedIDs() {
			if c := m.calls[id]; c.started && !c.ended {
				live = append(live, c)
			}
		}
		if step == cancelAt && len(m.calls) > 0 {
			ids := m.sortedIDs()
			classes = append(classes, "event:cancel-frame")
			m.cancelFrame(m.calls[ids[rng.Intn(len(ids))]])
			continue
		}
		if started < ncalls && !m.closing && !m.cut && (len(live) == 0 || rng.Intn(4) == 0) {
			newCall()
			continue
		}
		if len(live) == 0 {
			if step > eventAt && step > cancelAt {
				break
			}
			continue
		}
		m.stepCall(live[rng.Intn(len(live))])
	}
	for _, id := range m.sortedIDs() {
		if c := m.calls[id]; c.started && !c.ended {
			if m.infeasible != "" { // unblock the handler goroutine
				select {
				case c.sc.cmd <- hcmd{op: opEnd}:
					<-c.sc.res
				case <-time.After(200 * time.Millisecond):
				}
				c.ended = true
			} else {
				m.endCall(c)
			}
		}
	}
	if m.infeasible != "" {
		return nil, nil, "", classes, m.infeasible
	}
	m.sync()
	cst, stopped, inb := m.quiesce()
	if !m.cut {
		m.rw.settle(6 * time.Millisecond)
	}
	for _, h := range m.hist {
		classes = append(classes, "note:"+h)
	}
	in = append([]int64{b2i(prop), int64(m.nlabels)}, m.labels...)
	obs = []int64{int64(cst), b2i(stopped), int64(inb), int64(len(m.order))}
	var verdicts []string
	for _, id := range m.order {
		fs := rw.snapshot(id)
		obs = append(obs, int64(id), int64(len(fs)))
		for _, f := range fs {
			obs = append(obs, f.kind())
		}
		c := m.calls[id]
		if c != nil {
			obs = append(obs, int64(len(c.rets)))
			obs = append(obs, c.rets...)
		} else {
			obs = append(obs, 0)
		}
		// the property's quantifier: ids requested once, handlers that do not misuse SendSystemError
		if m.reqCount[id] == 1 && (c == nil || !c.misuse) {
			if v := wireVerdict(id, fs, false); v != "" {
				verdicts = append(verdicts, v)
			} else if c != nil && c.sysErrNil && !m.cut {
				// C10_syserr_delivered: the handler's SendSystemError returned nil and the peer
				// did not cut the connection: exactly one error frame, and it ends the id's frames
				nerr := 0
				for _, f := range fs {
					if f.typ == 0xff {
						nerr++
					}
				}
				if nerr != 1 || fs[len(fs)-1].typ != 0xff {
					verdicts = append(verdicts, fmt.Sprintf("id %d: SendSystemError returned nil but the caller received %v: not exactly one error frame at the end", id, fs))
				}
			}
		}
	}
	verdicts = append(verdicts, m.verdicts...)
	for _, id := range rw.ids() {
		if m.reqCount[id] == 0 && id != 0xffffffff {
			verdicts = append(verdicts, fmt.Sprintf("frames %v for id %d which was never requested", rw.snapshot(id), id))
		}
	}
	return in, obs, strings.Join(verdicts, "; "), classes, ""
}

// ---------------------------------------------------------------- free-running handler (oracle cases)

// behaviour encoded in arg2: [kind, nflush, sleepMs/10, late, big]
//
//	kind 0 complete  1 system error at once  2 partial response then system error
//	     3 overrun the deadline then try to respond  4 blackhole  5 slow complete
//	     6 partial response, one system error, then further writes on the held writer
func freeHandler(ctx context.Context, call *tchannel.InboundCall) {
	var a2, a3 []byte
	if err := tchannel.NewArgReader(call.Arg2Reader()).Read(&a2); err != nil {
		return
	}
	if err := tchannel.NewArgReader(call.Arg3Reader()).Read(&a3); err != nil {
		return
	}
	if len(a2) < 5 {
		return
	}
	kind, nflush, sleep, late, big := int(a2[0]), int(a2[1]), time.Duration(a2[2])*10*time.Millisecond, int(a2[3]), int(a2[4])
	resp := call.Response()
	var held tchannel.ArgWriter
	respond := func(upto int, pause time.Duration) error { // upto < 0: the whole response
		w, err := resp.Arg2Writer()
		if err != nil {
			return err
		}
		if _, err := w.Write([]byte("res-arg2")); err != nil {
			return err
		}
		if err := w.Close(); err != nil {
			return err
		}
		w, err = resp.Arg3Writer()
		if err != nil {
			return err
		}
		held = w
		chunk := []byte(strings.Repeat("r", 100))
		if big > 0 {
			chunk = []byte(strings.Repeat("R", 40000*big)) // overflows the fragment: Write flushes
		}
		for i := 0; i < nflush; i++ {
			if _, err := w.Write(chunk); err != nil {
				return err
			}
			if err := w.Flush(); err != nil {
				return err
			}
			if upto >= 0 && i+1 >= upto {
				return nil
			}
			if pause > 0 {
				time.Sleep(pause)
			}
		}
		if _, err := w.Write(chunk); err != nil {
			return err
		}
		if upto >= 0 {
			return nil
		}
		return w.Close()
	}
	switch kind {
	case 0:
		if err := respond(-1, 0); err != nil {
			resp.SendSystemError(err)
		}
	case 1:
		resp.SendSystemError(tchannel.ErrServerBusy)
	case 2:
		respond(1+nflush/2, 0)
		resp.SendSystemError(tchannel.NewSystemError(tchannel.ErrCodeUnexpected, "gave up"))
	case 6: // one system error, after which the handler keeps using its writer: must be refused
		respond(1+nflush/2, 0)
		resp.SendSystemError(tchannel.NewSystemError(tchannel.ErrCodeUnexpected, "gave up"))
		if held != nil {
			held.Write([]byte("more"))
			held.Flush()
			held.Close()
		}
	case 3:
		select {
		case <-ctx.Done():
		case <-time.After(3 * time.Second):
		}
		time.Sleep(sleep)
		if late == 0 {
			if err := respond(-1, 0); err != nil {
				resp.SendSystemError(err)
			}
		} else {
			resp.SendSystemError(tchannel.ErrServerBusy)
		}
	case 4:
		resp.Blackhole()
	default:
		if err := respond(-1, sleep); err != nil {
			resp.SendSystemError(err)
		}
	}
}

type freeReq struct {
	id      uint32
	kind    int
	nflush  int
	sleep10 int
	late    int
	big     int
	ttlMs   uint32
	nframes int
	cancel  time.Duration // > 0: send a cancel frame this long after the request
	sentAt  time.Time
}

func (q freeReq) arg2() []byte {
	return []byte{byte(q.kind), byte(q.nflush), byte(q.sleep10), byte(q.late), byte(q.big)}
}

func (q freeReq) String() string {
	return fmt.Sprintf("{id %d kind %d nflush %d sleep %dms late %d big %d ttl %dms reqframes %d cancel %v}", q.id, q.kind, q.nflush, q.sleep10*10, q.late, q.big, q.ttlMs, q.nframes, q.cancel)
}

func genFree(rng *rand.Rand, id uint32, relayed bool) freeReq {
	q := freeReq{id: id, kind: pick(rng, 0, 0, 0, 1, 2, 2, 3, 3, 4, 5, 5, 6), nflush: pick(rng, 0, 0, 1, 2, 5), ttlMs: 5000, nframes: pick(rng, 1, 1, 1, 2, 4)}
	if rng.Intn(6) == 0 {
		q.big = 1 + rng.Intn(2)
		if q.nflush > 2 {
			q.nflush = 2
		}
	}
	switch q.kind {
	case 3:
		q.ttlMs = uint32(pick(rng, 30, 50, 80))
		q.sleep10 = pick(rng, 0, 1, 3)
		q.late = rng.Intn(2)
	case 5:
		q.sleep10 = pick(rng, 1, 2, 4)
		if q.nflush == 0 {
			q.nflush = 2
		}
		if rng.Intn(3) == 0 {
			q.ttlMs = uint32(pick(rng, 30, 60))
		}
	}
	if relayed && rng.Intn(3) == 0 && q.kind != 3 {
		q.ttlMs = uint32(pick(rng, 40, 90, 400)) // some above the relay's maximum
	}
	if !relayed && rng.Intn(6) == 0 {
		q.cancel = time.Duration(pick(rng, 0, 5, 20, 45)) * time.Millisecond
	}
	return q
}

// runFreeBatch sends the requests concurrently on one raw connection and returns the frames.
// cutAfter > 0: the peer closes the connection that long after the last request.
func runFreeBatch(addr string, reqs []freeReq, cutAfter time.Duration, wait time.Duration) (*rwConn, []freeReq, string) {
	rw, err := dialRW(addr)
	if err != nil {
		return nil, nil, "harness: dial: " + err.Error()
	}
	var wg sync.WaitGroup
	for i := range reqs {
		q := &reqs[i]
		q.sentAt = time.Now()
		if err := rw.sendCall(q.id, q.ttlMs, "svc", "f", q.arg2(), []byte(strings.Repeat("q", 40+300*(q.nframes-1))), q.nframes); err != nil {
			return rw, reqs, ""
		}
		if q.cancel > 0 {
			wg.Add(1)
			go func(q *freeReq) {
				defer wg.Done()
				time.Sleep(q.cancel)
				rw.sendCancel(q.id)
			}(q)
		}
	}
	if cutAfter > 0 {
		time.Sleep(cutAfter)
		wg.Wait()
		rw.c.Close()
		<-rw.closed
		return rw, reqs, ""
	}
	wg.Wait()
	deadline := time.Now().Add(wait)
	for time.Now().Before(deadline) {
		all := true
		for _, q := range reqs {
			if !complete(rw.snapshot(q.id)) && q.kind != 4 && q.kind != 3 && q.cancel == 0 && q.ttlMs >= 1000 {
				all = false
			}
		}
		if all && time.Since(reqs[len(reqs)-1].sentAt) > 250*time.Millisecond {
			break
		}
		time.Sleep(5 * time.Millisecond)
	}
	rw.barrier()
	return rw, reqs, ""
}

// ---------------------------------------------------------------- engine

func engineRespWire(rng *rand.Rand, n int, tier string, o *Out) {
	mk := func(name string, opts *tchannel.ChannelOptions) *tchannel.Channel {
		ch, err := tchannel.NewChannel(name, opts)
		if err != nil {
			panic(err)
		}
		ch.Register(tchannel.HandlerFunc(scriptedHandler), "m")
		ch.Register(tchannel.HandlerFunc(freeHandler), "f")
		if err := ch.ListenAndServe("127.0.0.1:0"); err != nil {
			panic(err)
		}
		return ch
	}
	srvPlain := mk("svc", nil)
	srvProp := mk("svc", &tchannel.ChannelOptions{DefaultConnectionOptions: tchannel.ConnectionOptions{PropagateCancel: true}})
	defer srvPlain.Close()
	defer srvProp.Close()
	servers := [2]*tchannel.Channel{srvPlain, srvProp}

	nModel := n * 2 / 7
	nDirect := n * 3 / 7
	nRelay := n - nModel - nDirect
	if nModel < 1 {
		nModel = 1
	}

	// ---- 1. scripted connections, compared with the model
	infeasible := 0
	for c := 0; c < nModel; c++ {
		in, obs, verdict, classes, inf := runModelCase(rng, servers, c)
		for _, cl := range classes {
			o.Hist("script:" + cl)
		}
		if inf != "" {
			infeasible++
			o.Hist("script:infeasible: " + inf)
			continue
		}
		if c < 2 {
			o.Sample(map[string]interface{}{"sub": "respwire", "handlers": classes, "labels": (len(in) - 2) / 3, "observed": obs})
		}
		o.Case("respwire", fmt.Sprintf("s%d", c), in, obs, true, verdict)
	}
	if infeasible*4 > nModel+3 {
		o.Oracle("respwire-script", "infeasible", false, "", fmt.Sprintf("harness: %d of %d scripted cases could not be forced", infeasible, nModel))
	}

	// ---- 2. many concurrent ids on a few connections, free-running handlers (oracle only)
	judge := func(sub, cid string, rw *rwConn, reqs []freeReq, relayed bool, expectComplete bool) {
		requested := map[uint32]bool{}
		for _, q := range reqs {
			requested[q.id] = true
			fs := rw.snapshot(q.id)
			v := wireVerdict(q.id, fs, relayed)
			if v == "" && expectComplete && q.kind != 4 && q.kind != 3 && q.cancel == 0 && q.ttlMs >= 1000 && !complete(fs) {
				v = fmt.Sprintf("id %d: handler %v finished but the response is neither complete nor ended by an error frame: %v", q.id, q, fs)
			}
			o.Hist(fmt.Sprintf("%s:handler-kind=%d", sub, q.kind))
			o.Hist(fmt.Sprintf("%s:frames=%d", sub, imin(len(fs), 4)))
			o.Oracle(sub, fmt.Sprintf("%s-%d", cid, q.id), true, fmt.Sprint(q.kind, q.nflush, q.sleep10, q.late, q.big, q.ttlMs, q.nframes, q.cancel), v)
		}
		for _, id := range rw.ids() {
			if !requested[id] && id != 0xffffffff {
				o.Oracle(sub, fmt.Sprintf("%s-unrequested-%d", cid, id), true, "", fmt.Sprintf("frames %v for id %d which was never requested on this connection", rw.snapshot(id), id))
			}
		}
		rw.mu.Lock()
		other := append([]string(nil), rw.other...)
		rw.mu.Unlock()
		if len(other) > 0 {
			o.Hist(sub + ":unexpected-frame-types")
		}
	}
	perConn := 30
	sampled := false
	for b := 0; nDirect > 0; b++ {
		k := imin(perConn, nDirect)
		nDirect -= k
		prop := b%2 == 1
		var reqs []freeReq
		ids := rng.Perm(4 * k)
		for i := 0; i < k; i++ {
			reqs = append(reqs, genFree(rng, uint32(10+ids[i]), false))
		}
		cut := time.Duration(0)
		if b%3 == 2 {
			cut = time.Duration(pick(rng, 5, 20, 60)) * time.Millisecond
		}
		rw, reqs, herr := runFreeBatch(servers[b2i(prop)].PeerInfo().HostPort, reqs, cut, 2500*time.Millisecond)
		if herr != "" {
			o.Oracle("respwire-direct", fmt.Sprintf("d%d", b), false, "", herr)
			continue
		}
		if !sampled {
			sampled = true
			o.Sample(map[string]interface{}{"sub": "respwire-direct", "connection": b, "propagateCancel": prop, "cutAfter": cut.String(), "first_requests": fmt.Sprint(reqs[:imin(3, len(reqs))])})
		}
		o.Hist(fmt.Sprintf("respwire-direct:conn propagate=%v cut=%v", prop, cut > 0))
		judge("respwire-direct", fmt.Sprintf("d%d", b), rw, reqs, false, cut == 0)
		rw.c.Close()
	}

	// ---- 3. duplicate in-flight id on its own connection (classified separately)
	for d := 0; d < 3; d++ {
		rw, err := dialRW(srvPlain.PeerInfo().HostPort)
		if err != nil {
			continue
		}
		slow := freeReq{id: 77, kind: 5, nflush: 3, sleep10: 4, ttlMs: 5000, nframes: 1}
		other := freeReq{id: 78, kind: 0, nflush: d, ttlMs: 5000, nframes: 1}
		rw.sendCall(other.id, other.ttlMs, "svc", "f", other.arg2(), []byte("q"), 1)
		rw.sendCall(slow.id, slow.ttlMs, "svc", "f", slow.arg2(), []byte("q"), 1)
		time.Sleep(time.Duration(10+30*d) * time.Millisecond)
		rw.sendCall(slow.id, slow.ttlMs, "svc", "f", slow.arg2(), []byte("q"), 1)
		closedByServer := false
		select {
		case <-rw.closed:
			closedByServer = true
		case <-time.After(1500 * time.Millisecond):
		}
		fs := rw.snapshot(slow.id)
		proto := 0
		for _, f := range fs {
			if f.typ == 0xff && f.code == 0xff {
				proto++
			}
		}
		o.Hist(fmt.Sprintf("respwire-dup:protocol-error-frames=%d torn-down=%v", proto, closedByServer))
		// the id that was requested once on the same connection is still inside the quantifier
		o.Oracle("respwire-dup", fmt.Sprintf("dup%d-other", d), true, fmt.Sprint(d), wireVerdict(other.id, rw.snapshot(other.id), false))
		rw.c.Close()
	}

	// ---- 4. the same observer in front of a real relay
	engineRespWireRelay(rng, nRelay, o, judge)

	// ---- 5. C10, strengthening V10: a call req declined by the re-check of handleCallReq (Close
	// raced with its admission while another call keeps the connection draining) whose handler
	// would answer with a system error (engine_c10admit.go)
	c10AdmitCases(rng, tier, o)
}

func engineRespWireRelay(rng *rand.Rand, nRelay int, o *Out, judge func(sub, cid string, rw *rwConn, reqs []freeReq, relayed bool, expectComplete bool)) {
	const relayMax = 150 * time.Millisecond
	const slack = 400 * time.Millisecond
	server, err := tchannel.NewChannel("svc", nil)
	if err != nil {
		panic(err)
	}
	defer server.Close()
	server.Register(tchannel.HandlerFunc(freeHandler), "f")
	if err := server.ListenAndServe("127.0.0.1:0"); err != nil {
		panic(err)
	}
	rh := relaytest.NewStubRelayHost()
	rly, err := tchannel.NewChannel("relay", &tchannel.ChannelOptions{RelayHost: rh, RelayMaxTimeout: relayMax})
	if err != nil {
		panic(err)
	}
	defer rly.Close()
	if err := rly.ListenAndServe("127.0.0.1:0"); err != nil {
		panic(err)
	}
	rh.Add("svc", server.PeerInfo().HostPort)

	clamp := func(q freeReq) time.Duration {
		d := time.Duration(q.ttlMs) * time.Millisecond
		if d > relayMax {
			d = relayMax
		}
		return d
	}
	// timeoutVerdict: "" or why the call did not get its timeout error in time
	timeoutVerdict := func(q freeReq, fs []rwFrame) string {
		limit := q.sentAt.Add(clamp(q) + slack)
		for _, f := range fs {
			if f.typ == 0xff || !f.more {
				if f.at.After(limit) {
					return fmt.Sprintf("id %d: terminal frame %v arrived %v after the request, clamped ttl is %v", q.id, f, f.at.Sub(q.sentAt), clamp(q))
				}
				return ""
			}
		}
		return fmt.Sprintf("id %d: response not finished and no timeout error frame %v after the request (clamped ttl %v): %v", q.id, time.Since(q.sentAt), clamp(q), fs)
	}
	perConn := 20
	sampled := false
	for b := 0; nRelay > 0; b++ {
		k := imin(perConn, nRelay)
		nRelay -= k
		var reqs []freeReq
		ids := rng.Perm(4 * k)
		for i := 0; i < k; i++ {
			q := genFree(rng, uint32(10+ids[i]), true)
			reqs = append(reqs, q)
		}
		rw, reqs, herr := runFreeBatch(rly.PeerInfo().HostPort, reqs, 0, relayMax+slack+150*time.Millisecond)
		if herr != "" {
			o.Oracle("respwire-relay", fmt.Sprintf("r%d", b), false, "", herr)
			continue
		}
		// every call is past min(ttl, max) + slack now
		if rem := time.Until(reqs[len(reqs)-1].sentAt.Add(relayMax + slack + 50*time.Millisecond)); rem > 0 {
			time.Sleep(rem)
		}
		rw.barrier()
		if !sampled {
			sampled = true
			o.Sample(map[string]interface{}{"sub": "respwire-relay", "relayMaxTimeout": relayMax.String(), "first_requests": fmt.Sprint(reqs[:imin(3, len(reqs))])})
		}
		judge("respwire-relay", fmt.Sprintf("r%d", b), rw, reqs, true, false)
		for _, q := range reqs {
			fs := rw.snapshot(q.id)
			v := timeoutVerdict(q, fs)
			timedOut := len(fs) > 0 && fs[len(fs)-1].typ == 0xff && fs[len(fs)-1].code == 0x01
			o.Hist(fmt.Sprintf("respwire-relay:timeout-error=%v", timedOut))
			if timedOut {
				n := 0
				for _, f := range fs {
					if f.typ == 0xff {
						n++
					}
				}
				if n != 1 {
					v = fmt.Sprintf("id %d: %d error frames for a timed-out call: %v", q.id, n, fs)
				}
			}
			if v != "" {
				// timing-sensitive: alarm only if the same call fails 3 times out of 3
				fails := 1
				for rep := 0; rep < 2; rep++ {
					q2 := q
					q2.id = q.id + uint32(1000*(rep+1))
					rw2, r2, _ := runFreeBatch(rly.PeerInfo().HostPort, []freeReq{q2}, 0, relayMax+slack+150*time.Millisecond)
					if rw2 == nil {
						break
					}
					if rem := time.Until(r2[0].sentAt.Add(relayMax + slack + 50*time.Millisecond)); rem > 0 {
						time.Sleep(rem)
					}
					rw2.barrier()
					if timeoutVerdict(r2[0], rw2.snapshot(q2.id)) != "" {
						fails++
					}
					rw2.c.Close()
				}
				if fails < 3 {
					o.Hist("respwire-relay:timeout-late-once-not-reproduced")
					v = ""
				} else {
					v += " (3 of 3 runs)"
				}
			}
			o.Oracle("respwire-relay-timeout", fmt.Sprintf("r%d-%d", b, q.id), true, fmt.Sprint(q.kind, q.ttlMs, q.nflush, q.sleep10), v)
		}
		rw.c.Close()
	}

	// ---- destination failure: the relay's destination is a raw peer that answers with one
	// response fragment and then drops the connection
	ln, err := net.Listen("tcp", "127.0.0.1:0")
	if err != nil {
		return
	}
	defer ln.Close()
	go func() {
		for {
			conn, err := ln.Accept()
			if err != nil {
				return
			}
			go func(conn net.Conn) {
				defer conn.Close()
				if _, _, err := rawServerHandshake(conn); err != nil {
					return
				}
				n := 0
				for {
					f, err := readRawFrame(conn, 2*time.Second)
					if err != nil {
						return
					}
					if f.Type != 0x03 {
						continue
					}
					n++
					pc, err := parseRawCall(0x03, f.Payload)
					if err != nil {
						return
					}
					hdr := rawCallResHeader(0, pc.Tracing, [][2]string{{"as", "raw"}})
					frs := buildRawCallFrames(false, f.ID, hdr, 1, [3][]byte{{}, []byte("a2"), []byte(strings.Repeat("z", 3000))}, 1200)
					conn.Write(frs[0]) // Res[more] only
					if n >= 3 {
						time.Sleep(20 * time.Millisecond)
						return // cut with three calls in flight
					}
				}
			}(conn)
		}
	}()
	// a destination that answers only after the (clamped) ttl: everything it sends late
	// must be swallowed by the relay; mode 1 sends the first fragment in time
	lnLate, err := net.Listen("tcp", "127.0.0.1:0")
	if err != nil {
		return
	}
	defer lnLate.Close()
	go func() {
		for {
			conn, err := lnLate.Accept()
			if err != nil {
				return
			}
			go func(conn net.Conn) {
				defer conn.Close()
				if _, _, err := rawServerHandshake(conn); err != nil {
					return
				}
				var wmu sync.Mutex
				for {
					f, err := readRawFrame(conn, 3*time.Second)
					if err != nil {
						return
					}
					if f.Type != 0x03 {
						continue
					}
					pc, err := parseRawCall(0x03, f.Payload)
					if err != nil {
						return
					}
					args := collectArgs([]*rawCall{pc})
					mode := 0
					if len(args) > 1 && len(args[1]) > 0 {
						mode = int(args[1][0])
					}
					hdr := rawCallResHeader(0, pc.Tracing, [][2]string{{"as", "raw"}})
					frs := buildRawCallFrames(false, f.ID, hdr, 1, [3][]byte{{}, []byte("a2"), []byte(strings.Repeat("z", 3000))}, 1200)
					go func(mode int, frs [][]byte) {
						if mode == 1 {
							wmu.Lock()
							conn.Write(frs[0])
							wmu.Unlock()
							frs = frs[1:]
						}
						time.Sleep(relayMax + 60*time.Millisecond)
						wmu.Lock()
						for _, fr := range frs {
							conn.Write(fr)
						}
						wmu.Unlock()
					}(mode, frs)
				}
			}(conn)
		}
	}()
	rh.Add("late", lnLate.Addr().String())
	for d := 0; d < 2; d++ {
		rw, err := dialRW(rly.PeerInfo().HostPort)
		if err != nil {
			continue
		}
		var reqs []freeReq
		for i := 0; i < 4; i++ {
			q := freeReq{id: uint32(700 + 10*d + i), kind: i % 2, ttlMs: uint32(pick(rng, 100, 400)), nframes: 1}
			q.sentAt = time.Now()
			hdr := rawCallReqHeader(q.ttlMs, rwTracing, "late", [][2]string{{"as", "raw"}, {"cn", "verif-raw"}})
			for _, fr := range buildRawCallFrames(true, q.id, hdr, 1, [3][]byte{[]byte("f"), {byte(q.kind)}, []byte("q")}, 65519) {
				rw.write(fr)
			}
			reqs = append(reqs, q)
		}
		time.Sleep(relayMax + slack)
		rw.barrier()
		for _, q := range reqs {
			fs := rw.snapshot(q.id)
			v := wireVerdict(q.id, fs, true)
			if v == "" {
				v = timeoutVerdict(q, fs)
			}
			if v == "" && (fs[len(fs)-1].typ != 0xff || fs[len(fs)-1].code != 0x01) {
				v = fmt.Sprintf("id %d: the destination answered only after the clamped ttl, the caller must get one timeout error frame: %v", q.id, fs)
			}
			o.Hist(fmt.Sprintf("respwire-relay:late-destination mode=%d frames=%d", q.kind, len(fs)))
			o.Oracle("respwire-relay-late", fmt.Sprintf("late%d-%d", d, q.id), true, fmt.Sprint(d, q.id, q.kind), v)
		}
		rw.c.Close()
	}

	// ---- the known relay race, forced once with the schedule points: the relay looks a
	// non-final response frame up (relay.Receive.afterGet), the timeout fires and sends its
	// error frame, then the frame is enqueued behind it.  Shows that the observer sees the
	// finding and files it under its key.
	func() {
		s := NewSched()
		defer s.Close()
		id := uint32(900)
		k := key("relay.Receive.afterGet", id)
		s.ParkAtID("relay.Receive.afterGet", id)
		rw, err := dialRW(rly.PeerInfo().HostPort)
		if err != nil {
			return
		}
		defer rw.c.Close()
		hdr := rawCallReqHeader(100, rwTracing, "late", [][2]string{{"as", "raw"}, {"cn", "verif-raw"}})
		for _, fr := range buildRawCallFrames(true, id, hdr, 1, [3][]byte{[]byte("f"), {1}, []byte("q")}, 65519) {
			rw.write(fr)
		}
		if !s.WaitArrived(k, 1, 2*time.Second) {
			o.Hist("respwire-relay:forced-race infeasible (frame never reached the point)")
			return
		}
		gotErr := false
		for i := 0; i < 1000 && !gotErr; i++ {
			for _, f := range rw.snapshot(id) {
				gotErr = gotErr || f.typ == 0xff
			}
			time.Sleep(time.Millisecond)
		}
		s.Release(k)
		s.Unpark(k)
		time.Sleep(40 * time.Millisecond)
		rw.barrier()
		fs := rw.snapshot(id)
		v := wireVerdict(id, fs, true)
		o.Hist(fmt.Sprintf("respwire-relay:forced-race timeout-error-first=%v frames=%d known-finding=%v", gotErr, len(fs), strings.HasPrefix(v, "[relay:response-frame-after-timeout-error]")))
		o.Oracle("respwire-relay-race", "race0", true, "race0", v)
	}()

	rh.Add("flaky", ln.Addr().String())
	for d := 0; d < 2; d++ {
		rw, err := dialRW(rly.PeerInfo().HostPort)
		if err != nil {
			continue
		}
		var reqs []freeReq
		for i := 0; i < 3; i++ {
			q := freeReq{id: uint32(500 + 10*d + i), kind: 0, ttlMs: 120, nframes: 1}
			q.sentAt = time.Now()
			hdr := rawCallReqHeader(q.ttlMs, rwTracing, "flaky", [][2]string{{"as", "raw"}, {"cn", "verif-raw"}})
			for _, fr := range buildRawCallFrames(true, q.id, hdr, 1, [3][]byte{[]byte("f"), q.arg2(), []byte("q")}, 65519) {
				rw.write(fr)
			}
			reqs = append(reqs, q)
		}
		time.Sleep(relayMax + slack)
		rw.barrier()
		for _, q := range reqs {
			fs := rw.snapshot(q.id)
			v := wireVerdict(q.id, fs, true)
			if v == "" && !complete(fs) {
				v = fmt.Sprintf("id %d: destination dropped the connection mid-response but the caller got no terminal frame within ttl + slack: %v", q.id, fs)
			}
			o.Hist(fmt.Sprintf("respwire-relay:destination-failure frames=%d", len(fs)))
			o.Oracle("respwire-relay-destfail", fmt.Sprintf("df%d-%d", d, q.id), true, fmt.Sprint(d, q.id), v)
		}
		rw.c.Close()
	}
}
