package main

// Engine "c14drain" (property C14, clause d, on connections that are NOT active): the scripts of
// engine cancelprop (same executor, runCancelCase) with one more kind of step: a party -- the
// server, the caller's channel, a relay hop, or several of them -- starts a graceful Close
// (Channel.Close: its connections go to connectionStartClose, the caller's, which has no inbound
// call, on to connectionInboundClosed) WHILE THE CALL IS IN FLIGHT, and only then the caller
// cancels / the deadline passes / the connection fails / the handler completes.  Observables as
// in cancelprop, compared with Model/C14DrainCancel.v (run_c14drain), whose cancel path consults
// the decisions regenerated from the Go source with the connection states as arguments.
// Oracle from the statement: with propagation enabled on every hop a caller cancellation seen by
// a caller wait ends the handler's context (Canceled) within the usual bound, draining or not.

import (
	"fmt"
	"math/rand"
	"sort"
	"strings"
	"sync"
	"time"

	tchannel "github.com/uber/tchannel-go"
)

func init() { engines["c14drain"] = engineC14Drain }

const c14dcDrainBase = 10 // label 10 = the server, 11 = the caller's channel, 12+i = relay hop i

func c14dcLabelName(l int) string {
	switch who := l - c14dcDrainBase; {
	case who == 0:
		return "CloseServer"
	case who == 1:
		return "CloseCaller"
	default:
		return fmt.Sprintf("CloseHop%d", who-2)
	}
}

// c14dcConnStates: the states of the channel's connections that are not active, sorted ("" = none)
func c14dcConnStates(ch *tchannel.Channel) string {
	st := ch.IntrospectState(&tchannel.IntrospectionOptions{})
	var out []string
	for _, c := range st.InactiveConnections { // the connections of the channel that are not active
		out = append(out, strings.TrimPrefix(c.ConnectionState, "connection"))
	}
	sort.Strings(out)
	return strings.Join(out, ",")
}

// oracle from the property statement, for the scripts with a graceful Close
func c14dcOracle(c *cpCase, obs []int64, f *cpFacts) string {
	if len(obs) != 4 || len(f.c14dcDrained) == 0 {
		return ""
	}
	if f.started && f.cancelSeenLive && c.allFlags() && obs[0] != 2 {
		var who []string
		for i, w := range f.c14dcDrained {
			who = append(who, fmt.Sprintf("%s[%s]", c14dcLabelName(w+c14dcDrainBase), f.c14dcStates[i]))
		}
		return fmt.Sprintf("caller's wait ended with 'cancelled' while the handler was running, cancel propagation is enabled on every hop and a graceful Close was in progress on %s: the handler context is %d (0 live, 1 deadline) 350 ms later, not Canceled (cancels requested/honoured at the server: %d/%d)",
			strings.Join(who, " "), obs[0], obs[2], obs[3])
	}
	return ""
}

// c14dcInsert puts the Close steps of the parties right after position pos
func c14dcInsert(base []int, pos int, who []int) []int {
	out := append([]int{}, base[:pos]...)
	for _, w := range who {
		out = append(out, c14dcDrainBase+w)
	}
	return append(out, base[pos:]...)
}

func c14dcParties(nhops int) [][]int {
	sets := [][]int{{0}, {1}}
	all := []int{0}
	for i := 0; i < nhops; i++ {
		sets = append(sets, []int{2 + i})
		all = append(all, 2+i)
	}
	if nhops > 0 {
		sets = append(sets, all)
	}
	sets = append(sets, append(append([]int{}, all...), 1))
	return sets
}

// c14dcGen: a random script of the family: request (0..2 non-final fragments), optionally the
// first response fragments, the Close steps somewhere between the dispatch of the handler and the
// cancellation, the cancellation while the caller writes / waits / reads, then the caller goes on
func c14dcGen(rng *rand.Rand) *cpCase {
	c := &cpCase{sendCancel: true, srvProp: true}
	switch rng.Intn(4) {
	case 1, 2:
		c.hops = []bool{true}
	case 3:
		c.hops = []bool{true, true}
	}
	if rng.Intn(4) == 0 { // some option off: only the server closes (see engineC14Drain)
		c.sendCancel, c.srvProp = rng.Intn(2) == 0, rng.Intn(2) == 0
		for i := range c.hops {
			c.hops[i] = rng.Intn(2) == 0
		}
	}
	ls := []int{lBegin}
	var after []int
	switch rng.Intn(3) {
	case 0: // cancelled while writing the request
		for i := rng.Intn(2); i >= 0; i-- {
			ls = append(ls, lWFrag)
		}
		after = [][]int{{lWFrag}, {lWClose}, {lWFrag, lWClose}}[rng.Intn(3)]
	case 1: // while waiting for the response
		for i := rng.Intn(3); i > 0; i-- {
			ls = append(ls, lWFrag)
		}
		ls = append(ls, lWClose)
		after = []int{lRead}
	default: // while reading a multi-frame response
		for i := rng.Intn(2); i > 0; i-- {
			ls = append(ls, lWFrag)
		}
		ls = append(ls, lWClose)
		for i := rng.Intn(2); i >= 0; i-- {
			ls = append(ls, lHFrag, lRead)
		}
		after = []int{lRead}
	}
	pos := 2 + rng.Intn(len(ls)-1) // after the frame that dispatches the handler, up to the end
	sets := [][]int{{0}}
	if c.allFlags() {
		sets = c14dcParties(len(c.hops))
	}
	ls = c14dcInsert(ls, pos, sets[rng.Intn(len(sets))])
	ls = append(ls, lCancel)
	if rng.Intn(5) == 0 {
		ls = append(ls, lCancel)
	}
	c.labels = append(ls, after...)
	return c
}

func engineC14Drain(rng *rand.Rand, n int, tier string, o *Out) {
	// Scope.  Once the call is over at a party that is closing, its connection closes, which the
	// next party sees as a connection failure (a cause of its own for the handler's context to end,
	// and a network error for a caller that is not cancelled yet).  The scripts therefore end with
	// the event, and parties other than the server close only when propagation is enabled on every
	// hop (the clause under test), where the cancel ends the handler's context first.
	// fixed matrix: {script, position of the Close steps}
	type script struct {
		ls     []int
		pos    int
		cancel bool
	}
	fixed := []script{
		{[]int{lBegin, lWFrag, lCancel, lWFrag}, 2, true},
		{[]int{lBegin, lWFrag, lCancel, lWClose}, 2, true},
		{[]int{lBegin, lWClose, lCancel, lRead}, 2, true},
		{[]int{lBegin, lWClose, lHFrag, lRead, lCancel, lRead}, 4, true},
		{[]int{lBegin, lWFrag, lWFrag, lCancel, lWClose}, 2, true},
		{[]int{lBegin, lWFrag, lCancel, lCancel, lWFrag}, 2, true},
		{[]int{lBegin, lWClose, lDeadline, lRead}, 2, false},
		{[]int{lBegin, lWFrag, lConnFail, lWClose}, 2, false},
	}
	var fixedCases []*cpCase
	for m := 3; m >= 0; m-- {
		for _, hops := range [][]bool{nil, {true}, {true, true}, {false}} {
			for j, sc := range fixed {
				all := m == 3 && allTrue(hops)
				sets := [][]int{{0}}
				if all && sc.cancel {
					sets = c14dcParties(len(hops))
				}
				for k, who := range sets {
					// the all-enabled column is complete, the rest thinned out
					if all || (j+k+m)%3 == 0 {
						fixedCases = append(fixedCases, &cpCase{sendCancel: m&1 != 0, srvProp: m&2 != 0, hops: hops, labels: c14dcInsert(sc.ls, sc.pos, who)})
					}
				}
			}
		}
	}
	cases := make([]*cpCase, n)
	k := 0
	for ; k < len(fixedCases) && k < (3*n)/4; k++ {
		cases[k] = fixedCases[k]
	}
	for ; k < n; k++ {
		cases[k] = c14dcGen(rng)
	}
	type result struct {
		obs   []int64
		facts cpFacts
		verd  string
	}
	results := make([]result, n)
	asyncs := make([]bool, n)
	for i := range asyncs {
		asyncs[i] = rng.Intn(2) == 0
	}
	var wg sync.WaitGroup
	sem := make(chan struct{}, 12)
	for i := range cases {
		wg.Add(1)
		sem <- struct{}{}
		go func(i int) {
			defer wg.Done()
			defer func() { <-sem }()
			c := cases[i]
			T := 30 * time.Second
			if containsLabel(c.labels, lDeadline) {
				T = 700 * time.Millisecond
			}
			var r result
			for attempt := 0; attempt < 3; attempt++ {
				r.obs, r.facts = runCancelCase(c, T, asyncs[i])
				if r.facts.harnessErr != "" || r.facts.timingInvalid {
					T *= 2
					continue
				}
				if r.verd = c14dcOracle(c, r.obs, &r.facts); r.verd == "" {
					r.verd = cpOracle(c, r.obs, &r.facts)
				}
				if r.verd == "" {
					break
				}
			}
			if r.facts.harnessErr != "" {
				r.verd = "harness: " + r.facts.harnessErr
				if r.obs == nil {
					r.obs = []int64{-2}
				}
			} else if r.facts.timingInvalid {
				r.verd = "harness: steps before the deadline did not finish in time (3 attempts)"
			}
			results[i] = r
		}(i)
	}
	wg.Wait()
	for i, c := range cases {
		r := results[i]
		o.Hist(fmt.Sprintf("hops=%d", len(c.hops)))
		o.Hist(fmt.Sprintf("all_enabled=%v", c.allFlags()))
		var who []string
		for j, w := range r.facts.c14dcDrained {
			who = append(who, c14dcLabelName(w+c14dcDrainBase))
			o.Hist("states_after_" + c14dcLabelName(w+c14dcDrainBase) + "=" + r.facts.c14dcStates[j])
		}
		o.Hist("closing=" + fmt.Sprint(who))
		evs := []string{}
		for _, l := range []int{lCancel, lDeadline, lConnFail, lHBlackhole, lHClose} {
			if containsLabel(c.labels, l) {
				evs = append(evs, cpLabelNames[l])
			}
		}
		o.Hist("events=" + fmt.Sprint(evs))
		if len(r.obs) == 4 {
			o.Hist(fmt.Sprintf("handler_ctx=%d", r.obs[0]))
			o.Hist(fmt.Sprintf("caller_result=%d", r.obs[1]))
		}
		if i < 2 || i == n-1 {
			o.Sample(map[string]interface{}{"sub": "c14drain", "case": c.String(), "closing": who, "states": r.facts.c14dcStates, "obs(handler_ctx,caller,requested,honoured)": r.obs})
		}
		// non-trivial: a graceful Close really started with the handler running
		nontrivial := len(r.obs) == 4 && r.obs[0] != 9 && len(r.facts.c14dcDrained) > 0
		o.Case("c14drain", fmt.Sprintf("d%d", i), c.encode(), r.obs, nontrivial, r.verd)
	}
}
