package main

// Engine "loadnet" (property C15): the load of a peer over REAL connections.
//
// A hub channel and 2..4 remote channels on the loopback.  Each remote is connected to the hub
// by a connection IT dialled (inbound at the hub), one the hub dialled (outbound), both, or none.
// Random steps start / finish calls the hub makes to a remote (the handler holds the call until
// released) -- over whatever connection the peer has, i.e. often "calling back" over a connection
// the peer dialled -- and calls a remote makes to the hub (the peer's own calls, which are not
// load).  The harness tracks the calls it started and finished itself.  After every step, once
// the exchange sets have the sizes the harness expects (read field by field through the overlay),
//   * NumPendingOutbound of every peer = the number of OUR calls in flight to it,
//   * hub.Peers().Get(nil) returns a peer with minimum (tier, pending): tier 0 = the peer has a
//     connection it dialled, 1 = connected, 2 = unconnected (default strategy),
//   * the isolated sub-channel's list (least-pending strategy): minimum (connected?, pending),
// and every peer's real connection loads go through the model as a "peerload" case.
// A step whose expected exchange-set sizes do not show up within 3 s is counted as infeasible
// (timing), never as a failure.

import (
	"fmt"
	"math/rand"
	"sync"
	"time"

	tchannel "github.com/uber/tchannel-go"
	"github.com/uber/tchannel-go/raw"
	"golang.org/x/net/context"
)

type c15lnHold struct {
	mu      sync.Mutex
	gates   map[string]chan struct{}
	arrived chan string
}

func newC15lnHold() *c15lnHold {
	return &c15lnHold{gates: map[string]chan struct{}{}, arrived: make(chan string, 256)}
}

func (h *c15lnHold) gate(tok string) chan struct{} {
	h.mu.Lock()
	defer h.mu.Unlock()
	g, ok := h.gates[tok]
	if !ok {
		g = make(chan struct{})
		h.gates[tok] = g
	}
	return g
}

func (h *c15lnHold) OnError(ctx context.Context, err error) {}

func (h *c15lnHold) Handle(ctx context.Context, args *raw.Args) (*raw.Res, error) {
	tok := string(args.Arg2)
	g := h.gate(tok)
	h.arrived <- tok
	select {
	case <-g:
	case <-ctx.Done():
	}
	return &raw.Res{Arg2: args.Arg2}, nil
}

type c15lnCall struct {
	peer int
	tok  string
	done chan error
}

func init() { engines["loadnet"] = engineLoadNet }

func engineLoadNet(rng *rand.Rand, n int, tier string, o *Out) {
	for c := 0; c < n; c++ {
		verdict, key, infeasible := c15lnScenario(rng, c, o)
		if infeasible {
			o.Hist("scenario-infeasible(timing)")
		}
		if c < 2 {
			o.Sample(map[string]interface{}{"case": fmt.Sprintf("ln%d", c), "setup": key, "verdict": verdict})
		}
		o.Oracle("loadnet", fmt.Sprintf("ln%d", c), true, key, verdict)
	}
}

func c15lnScenario(rng *rand.Rand, c int, o *Out) (verdict string, key string, infeasible bool) {
	var closers []func()
	defer func() {
		for i := len(closers) - 1; i >= 0; i-- {
			closers[i]()
		}
	}()
	defer func() {
		if r := recover(); r != nil {
			verdict = fmt.Sprintf("panic: %v", r)
		}
	}()
	mkch := func(name string, h *c15lnHold) *tchannel.Channel {
		ch, err := tchannel.NewChannel(name, &tchannel.ChannelOptions{Logger: tchannel.NullLogger})
		if err != nil {
			panic(err)
		}
		ch.Register(raw.Wrap(h), "hold")
		if err := ch.ListenAndServe("127.0.0.1:0"); err != nil {
			panic(err)
		}
		closers = append(closers, ch.Close)
		return ch
	}
	hubHold := newC15lnHold()
	hub := mkch("hub", hubHold)
	hubHP := hub.PeerInfo().HostPort
	iso := hub.GetSubChannel("iso", tchannel.Isolated)
	tchannel.VerifSetPeerListRng(hub.Peers(), &c15Src{})
	tchannel.VerifSetPeerListRng(iso.Peers(), &c15Src{})

	k := 2 + rng.Intn(3)
	remotes := make([]*tchannel.Channel, k)
	holds := make([]*c15lnHold, k)
	hps := make([]string, k)
	peers := make([]*tchannel.Peer, k)
	hasIn, hasOut := make([]bool, k), make([]bool, k)
	ours, theirs := make([]int, k), make([]int, k)
	ctx, cancel := tchannel.NewContextBuilder(30 * time.Second).Build()
	defer cancel()
	// release every held call before the channels close
	var live []*c15lnCall
	var liveTheirs []*c15lnCall
	defer func() {
		for _, cl := range live {
			close(holds[cl.peer].gate(cl.tok))
		}
		for _, cl := range liveTheirs {
			close(hubHold.gate(cl.tok))
		}
		for _, cl := range append(live, liveTheirs...) {
			select {
			case <-cl.done:
			case <-time.After(2 * time.Second):
			}
		}
	}()

	setup := ""
	for i := 0; i < k; i++ {
		holds[i] = newC15lnHold()
		remotes[i] = mkch("svc", holds[i])
		hps[i] = remotes[i].PeerInfo().HostPort
		mode := rng.Intn(5) // 0,1 the peer dialled us; 2 we dialled; 3 both; 4 unconnected
		if mode <= 1 || mode == 3 {
			if _, err := remotes[i].Connect(ctx, hubHP); err != nil {
				return "harness: " + err.Error(), "", false
			}
			hasIn[i] = true
		}
		if mode == 2 || mode == 3 {
			if _, err := hub.Connect(ctx, hps[i]); err != nil {
				return "harness: " + err.Error(), "", false
			}
			hasOut[i] = true
		}
		peers[i] = hub.Peers().Add(hps[i])
		iso.Peers().Add(hps[i])
		setup += fmt.Sprintf("%d", mode)
	}
	key = fmt.Sprintf("%d/%s", c, setup)

	state := func() string {
		s := ""
		for i := 0; i < k; i++ {
			s += fmt.Sprintf(" [peer %d %s inboundConn=%v outboundConn=%v ourPending=%d theirCalls=%d]", i, hps[i], hasIn[i], hasOut[i], ours[i], theirs[i])
		}
		return s
	}
	// wait until the exchange sets of the real connections have the expected sizes
	settle := func() bool {
		deadline := time.Now().Add(3 * time.Second)
		for {
			ok := true
			for i := 0; i < k && ok; i++ {
				in, out := tchannel.VerifPeerConnLoads(peers[i])
				so, si := 0, 0
				for _, l := range append(append([]tchannel.VerifConnLoad{}, in...), out...) {
					so += l.Out
					si += l.In
				}
				ok = (len(in) > 0) == hasIn[i] && (len(out) > 0) == hasOut[i] && so == ours[i] && si == theirs[i]
			}
			if ok {
				return true
			}
			if time.Now().After(deadline) {
				return false
			}
			time.Sleep(2 * time.Millisecond)
		}
	}
	rank := func(i int, isolated bool) [2]uint64 {
		switch {
		case !hasIn[i] && !hasOut[i]:
			if isolated {
				return [2]uint64{1, 0}
			}
			return [2]uint64{2, 0}
		case isolated || hasIn[i]:
			return [2]uint64{0, uint64(ours[i])}
		}
		return [2]uint64{1, uint64(ours[i])}
	}
	judge := func(step int, what string) string {
		pendV := ""
		for i := 0; i < k; i++ {
			if got := peers[i].NumPendingOutbound(); got != ours[i] && pendV == "" {
				pendV = fmt.Sprintf("step %d (%s): NumPendingOutbound(peer %d) = %d, the hub has %d calls in flight to it;%s", step, what, i, got, ours[i], state())
			}
			in, out := tchannel.VerifPeerConnLoads(peers[i])
			cin := []int64{0, int64(len(in))}
			for _, l := range in {
				cin = append(cin, int64(l.In), int64(l.Out))
			}
			cin = append(cin, int64(len(out)))
			for _, l := range out {
				cin = append(cin, int64(l.In), int64(l.Out))
			}
			gi, go_ := peers[i].NumConnections()
			sc := tchannel.VerifScoreCalculator(0).GetScore(peers[i])
			o.Case("peerload", fmt.Sprintf("ln%d-s%d-p%d", c, step, i), cin,
				[]int64{int64(gi), int64(go_), int64(peers[i].NumPendingOutbound()), int64(sc)}, len(in)+len(out) > 0, "")
		}
		for li, pl := range []*tchannel.PeerList{hub.Peers(), iso.Peers()} {
			for rep := 0; rep < 2; rep++ {
				p, err := pl.Get(nil)
				if err != nil {
					return fmt.Sprintf("step %d (%s): Get(nil) = %v;%s", step, what, err, state())
				}
				sel := -1
				for i := 0; i < k; i++ {
					if hps[i] == p.HostPort() {
						sel = i
					}
				}
				if sel < 0 {
					return fmt.Sprintf("step %d: selected %q which is not a member", step, p.HostPort())
				}
				for i := 0; i < k; i++ {
					if c15KeyLess(rank(i, li == 1), rank(sel, li == 1)) {
						v := fmt.Sprintf("step %d (%s): list %d (0 default strategy, 1 isolated/least-pending) selected peer %d with (tier, pending) = %v although peer %d has %v;%s",
							step, what, li, sel, rank(sel, li == 1), i, rank(i, li == 1), state())
						if pendV != "" {
							v += " -- " + pendV
						}
						return v
					}
				}
				o.Hist("selection-judged")
			}
		}
		return pendV
	}

	if !settle() {
		return "", key, true
	}
	if v := judge(0, "after setup"); v != "" {
		return v, key, false
	}
	nsteps := 8 + rng.Intn(10)
	tokn := 0
	for step := 1; step <= nsteps; step++ {
		i := rng.Intn(k)
		what := ""
		switch x := rng.Intn(10); {
		case x < 5 || (len(live) == 0 && len(liveTheirs) == 0): // the hub calls peer i
			tokn++
			cl := &c15lnCall{peer: i, tok: fmt.Sprintf("o%d", tokn), done: make(chan error, 1)}
			call, err := peers[i].BeginCall(ctx, "svc", "hold", nil)
			if err != nil {
				return fmt.Sprintf("harness: BeginCall to peer %d: %v", i, err), key, false
			}
			if !hasIn[i] && !hasOut[i] {
				hasOut[i] = true // the call dialled the peer
			}
			go func() {
				_, _, _, err := raw.WriteArgs(call, []byte(cl.tok), nil)
				cl.done <- err
			}()
			select {
			case <-holds[i].arrived:
			case <-time.After(5 * time.Second):
				return "", key, true
			}
			ours[i]++
			live = append(live, cl)
			what = fmt.Sprintf("hub started a call to peer %d", i)
			if hasIn[i] && !hasOut[i] {
				o.Hist("our-call-over-connection-the-peer-dialled")
			} else {
				o.Hist("our-call-over-other-connections")
			}
		case x < 8 && len(live) > 0: // one of the hub's calls finishes
			j := rng.Intn(len(live))
			cl := live[j]
			live = append(live[:j], live[j+1:]...)
			close(holds[cl.peer].gate(cl.tok))
			select {
			case err := <-cl.done:
				if err != nil {
					return fmt.Sprintf("harness: call %s failed: %v", cl.tok, err), key, false
				}
			case <-time.After(5 * time.Second):
				return "", key, true
			}
			ours[cl.peer]--
			what = fmt.Sprintf("the hub's call %s to peer %d finished", cl.tok, cl.peer)
			o.Hist("our-call-finished")
		case x < 9 || len(liveTheirs) == 0: // peer i calls the hub (not load)
			tokn++
			cl := &c15lnCall{peer: i, tok: fmt.Sprintf("t%d", tokn), done: make(chan error, 1)}
			call, err := remotes[i].RootPeers().GetOrAdd(hubHP).BeginCall(ctx, "hub", "hold", nil)
			if err != nil {
				return fmt.Sprintf("harness: peer %d BeginCall to the hub: %v", i, err), key, false
			}
			if !hasIn[i] && !hasOut[i] {
				hasIn[i] = true // the peer dialled the hub for this call
			}
			go func() {
				_, _, _, err := raw.WriteArgs(call, []byte(cl.tok), nil)
				cl.done <- err
			}()
			select {
			case <-hubHold.arrived:
			case <-time.After(5 * time.Second):
				return "", key, true
			}
			theirs[i]++
			liveTheirs = append(liveTheirs, cl)
			what = fmt.Sprintf("peer %d started a call to the hub", i)
			o.Hist("their-call")
		default: // one of the peers' own calls finishes
			j := rng.Intn(len(liveTheirs))
			cl := liveTheirs[j]
			liveTheirs = append(liveTheirs[:j], liveTheirs[j+1:]...)
			close(hubHold.gate(cl.tok))
			select {
			case err := <-cl.done:
				if err != nil {
					return fmt.Sprintf("harness: call %s failed: %v", cl.tok, err), key, false
				}
			case <-time.After(5 * time.Second):
				return "", key, true
			}
			theirs[cl.peer]--
			what = fmt.Sprintf("peer %d's call %s to the hub finished", cl.peer, cl.tok)
			o.Hist("their-call-finished")
		}
		if !settle() {
			return "", key, true
		}
		if v := judge(step, what); v != "" {
			return v, key, false
		}
	}
	return "", key, false
}
