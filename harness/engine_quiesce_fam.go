package main

// Property C11, engine "quiesce": two further HISTORY FAMILIES (called from engineQuiesce).
//
// A' (c11Mitm*): caller -> relay -> frame-level man-in-the-middle -> callee.  The man-in-the-middle
// forwards every frame but damages call res / call res continue frames of chosen calls on their
// way back to the relay: truncated to the flags byte or to a few bytes, filled with 0xff after the
// flags byte, one byte flipped, more-fragments flag cleared on a non-final frame or set on the
// final one, dropped -- applied to the first, the second or the final frame of a response of one,
// two or three frames.  The connection between relay and callee stays up.  Then the oracle of the
// statement: no exchanges, no live relay items, no pending relayed calls (polled up to 2 s), no
// tombstones after the tombstone period, and the channels can be closed (every other world: the
// relay first, with caller and callee still connected).  Variant "caller-not-reading": during a
// call with a three-frame response the relay's writes towards the caller stall and its send
// buffers hold one frame, so the relay cannot queue the last frames and fails the call
// (source connection slow) on the path that had stopped the timer; then the caller reads again.
//
// B' (c11Stall*): the writer of a call is blocked handing a fragment to a FULL send buffer (small
// SendBufferSize, the peer does not read: writes of the wrapped socket stall) when the call's
// deadline passes / the call is cancelled; then the peer recovers, a further call shows that the
// connection survived, and the usual oracle follows (no exchanges ... the client channel closes
// gracefully while its peers stay alive).  Variants: request writer of the caller (arg2 or arg3
// large, one or two calls at once, cancel instead of deadline, cancel message enabled, through a
// relay) and response writer of a handler (the callee's socket stalls); the socket is CUT while the
// writer is held (the select's error-latch clause); no stall at all but the call cancelled
// BETWEEN two fragments (forced with the schedule point reqres.flushFragment.sent, so that the
// next newFragment meets the cancelled context).

import (
	"fmt"
	"math/rand"
	"net"
	"strings"
	"sync"
	"sync/atomic"
	"time"

	tchannel "github.com/uber/tchannel-go"
	"github.com/uber/tchannel-go/relay/relaytest"
)

// ---------------------------------------------------------------- frame-level man-in-the-middle

// which response frame of a call is damaged: 0 = the call res, 1 = the first continuation,
// -1 = the final frame (no more-fragments flag)
type c11MitmRule struct {
	which int
	how   int
}

var c11MitmHow = []string{"truncate-to-flags", "truncate-to-6-bytes", "ff-after-flags", "flip-a-byte",
	"clear-more-fragments", "set-more-fragments", "drop", "intact"}

func (r c11MitmRule) String() string {
	w := map[int]string{0: "callres", 1: "second-frame", -1: "final-frame"}[r.which]
	return w + "/" + c11MitmHow[r.how]
}

type c11Mitm struct {
	ln      net.Listener
	target  string
	mu      sync.Mutex
	rules   []c11MitmRule
	ordinal map[uint32]int // call id (relay -> callee) -> ordinal of the call
	seen    map[uint32]int // call id -> response frames seen so far
	damaged int32
	final   int32 // damaged frames that were final frames
}

// the listener and the sockets of the man-in-the-middle are closed with the world's raw peers
func c11NewMitm(w *c11World, target string, rules []c11MitmRule) *c11Mitm {
	ln, err := net.Listen("tcp", "127.0.0.1:0")
	if err != nil {
		panic(err)
	}
	w.rawMu.Lock()
	w.rawLns = append(w.rawLns, ln)
	w.rawMu.Unlock()
	m := &c11Mitm{ln: ln, target: target, rules: rules, ordinal: map[uint32]int{}, seen: map[uint32]int{}}
	go func() {
		for {
			c, err := ln.Accept()
			if err != nil {
				return
			}
			d, err := net.DialTimeout("tcp", target, time.Second)
			if err != nil {
				c.Close()
				continue
			}
			w.addRaw(c)
			w.addRaw(d)
			go m.pump(c, d, false)
			go m.pump(d, c, true)
		}
	}()
	return m
}

func (m *c11Mitm) addr() string { return m.ln.Addr().String() }

// pump copies frames from src to dst; fromCallee: src is the callee's side
func (m *c11Mitm) pump(src, dst net.Conn, fromCallee bool) {
	defer src.Close()
	defer dst.Close()
	for {
		f, err := readRawFrame(src, time.Hour)
		if err != nil {
			return
		}
		payload := f.Payload
		drop := false
		if !fromCallee && f.Type == 0x03 {
			m.mu.Lock()
			if _, ok := m.ordinal[f.ID]; !ok {
				m.ordinal[f.ID] = len(m.ordinal)
			}
			m.mu.Unlock()
		}
		if fromCallee && (f.Type == 0x04 || f.Type == 0x14) && len(payload) > 0 {
			m.mu.Lock()
			ord, known := m.ordinal[f.ID]
			idx := m.seen[f.ID]
			m.seen[f.ID] = idx + 1
			m.mu.Unlock()
			if known && len(m.rules) > 0 {
				rule := m.rules[ord%len(m.rules)]
				isFinal := payload[0]&1 == 0
				hit := (rule.which == -1 && isFinal) || (rule.which >= 0 && rule.which == idx)
				if hit && rule.how != 7 {
					payload, drop = c11Damage(payload, rule.how)
					atomic.AddInt32(&m.damaged, 1)
					if isFinal {
						atomic.AddInt32(&m.final, 1)
					}
				}
			}
		}
		if drop {
			continue
		}
		b := rawFrameBytes(f.Type, f.ID, payload)
		b[3] = f.Res1
		copy(b[8:16], f.Res8)
		dst.SetWriteDeadline(time.Now().Add(5 * time.Second))
		if _, err := dst.Write(b); err != nil {
			return
		}
	}
}

func c11Damage(p []byte, how int) ([]byte, bool) {
	q := append([]byte(nil), p...)
	switch how {
	case 0:
		return q[:1], false
	case 1:
		if len(q) > 6 {
			q = q[:6]
		}
		return q, false
	case 2:
		for i := 1; i < len(q); i++ {
			q[i] = 0xff
		}
		return q, false
	case 3:
		q[len(q)-1-len(q)/3] ^= 0x5a
		return q, false
	case 4:
		q[0] &^= 1
		return q, false
	case 5:
		q[0] |= 1
		return q, false
	case 6:
		return nil, true
	}
	return q, false
}

// a call made by the family worlds: the caller drives it to completion or to its first error
type c11FamResult struct {
	err error
	dur time.Duration
}

func (w *c11World) famCall(method string, timeout time.Duration, arg2, arg3 int, cancelAfter time.Duration) chan c11FamResult {
	res := make(chan c11FamResult, 1)
	w.wg.Add(1)
	go func() {
		defer w.wg.Done()
		start := time.Now()
		err := func() error {
			ctx, cancel := tchannel.NewContext(timeout)
			defer cancel()
			if cancelAfter > 0 {
				go func() { time.Sleep(cancelAfter); cancel() }()
			}
			call, err := w.client.BeginCall(ctx, w.target, "svc", method, nil)
			if err != nil {
				return err
			}
			if err := tchannel.NewArgWriter(call.Arg2Writer()).Write(make([]byte, arg2)); err != nil {
				return err
			}
			if err := tchannel.NewArgWriter(call.Arg3Writer()).Write(make([]byte, arg3)); err != nil {
				return err
			}
			var b []byte
			if err := tchannel.NewArgReader(call.Response().Arg2Reader()).Read(&b); err != nil {
				return err
			}
			return tchannel.NewArgReader(call.Response().Arg3Reader()).Read(&b)
		}()
		res <- c11FamResult{err, time.Since(start)}
	}()
	return res
}

func c11ErrName(err error) string {
	if err == nil {
		return "ok"
	}
	s := err.Error()
	if len(s) > 40 {
		s = s[:40]
	}
	return strings.ReplaceAll(s, " ", "_")
}

// ---------------------------------------------------------------- family A'

type c11MitmCall struct {
	method string
	arg3   int
	rule   c11MitmRule
	// slowCaller: while this call runs the CALLER does not read (the relay's writes towards it
	// stall; the relay's send buffers hold one frame): the relay cannot queue the last frames of
	// the response and fails the call ("source connection slow"); then the caller reads again
	slowCaller bool
}

// every run covers these: the response is ONE frame, so the damaged call res is also the final
// frame of the call; a damaged non-final call res; a damaged final continuation; ...
var c11MitmScripts = [][]c11MitmCall{
	{{"echo", 10, c11MitmRule{-1, 0}, false}, {"big", 10, c11MitmRule{0, 0}, false}, {"big", 10, c11MitmRule{-1, 0}, false}},
	{{"echo", 10, c11MitmRule{0, 2}, false}, {"big", 10, c11MitmRule{1, 0}, false}, {"echo", 70000, c11MitmRule{-1, 1}, false}},
	{{"apperr", 10, c11MitmRule{-1, 1}, false}, {"echo", 10, c11MitmRule{0, 6}, false}, {"big", 10, c11MitmRule{-1, 5}, false}, {"echo", 10, c11MitmRule{0, 7}, false}},
	{{"echo", 10, c11MitmRule{0, 7}, false}, {"big", 10, c11MitmRule{0, 7}, true}, {"echo", 10, c11MitmRule{0, 7}, false}, {"big", 10, c11MitmRule{-1, 0}, true}},
}

func c11MitmWorld(rng *rand.Rand, name string, calls []c11MitmCall, sites *c11Sites) (*c11World, *c11Mitm) {
	w := &c11World{name: name, socks: &c11Sockets{}, conns: map[*tchannel.Connection]*tchannel.Channel{}, sites: sites}
	w.baseline = c11Baseline()
	mk := func(svc string, opts *tchannel.ChannelOptions, role string) *tchannel.Channel {
		ch, err := tchannel.NewChannel(svc, opts)
		if err != nil {
			panic(err)
		}
		w.chans = append(w.chans, ch)
		if role != "" {
			ln, err := net.Listen("tcp", "127.0.0.1:0")
			if err != nil {
				panic(err)
			}
			ch.Serve(&c11Listener{Listener: ln, socks: w.socks, role: role})
		}
		return ch
	}
	w.server = mk("svc", nil, "server")
	w.registerHandlers(w.server)
	rules := make([]c11MitmRule, len(calls))
	for i, c := range calls {
		rules[i] = c.rule
	}
	mitm := c11NewMitm(w, w.server.PeerInfo().HostPort, rules)
	rh := relaytest.NewStubRelayHost()
	ropts := &tchannel.ChannelOptions{RelayHost: rh, RelayMaxTimeout: time.Duration(pick(rng, 150, 250)) * time.Millisecond,
		Dialer: w.socks.dialer("relay-out")}
	ropts.DefaultConnectionOptions.PropagateCancel = rng.Intn(2) == 0
	for _, c := range calls {
		if c.slowCaller {
			ropts.DefaultConnectionOptions.SendBufferSize = 1
		}
	}
	w.relay = mk("relay", ropts, "relay-in")
	rh.Add("svc", mitm.addr())
	w.target = w.relay.PeerInfo().HostPort
	w.client = mk("client", &tchannel.ChannelOptions{Dialer: w.socks.dialer("client")}, "")
	w.ops = append(w.ops, "relay", "man-in-the-middle between relay and callee (connection kept up)")
	return w, mitm
}

func c11RandMitmCalls(rng *rand.Rand) []c11MitmCall {
	n := 2 + rng.Intn(3)
	var out []c11MitmCall
	for i := 0; i < n; i++ {
		c := c11MitmCall{rule: c11MitmRule{which: pick(rng, 0, 0, 1, -1, -1), how: rng.Intn(8)}}
		switch rng.Intn(4) {
		case 0:
			c.method, c.arg3 = "big", 10 // three response frames
		case 1:
			c.method, c.arg3 = "echo", 70000 // two response frames
		case 2:
			c.method, c.arg3 = pickStr(rng, "apperr", "echo"), 1000
		default:
			c.method, c.arg3 = "echo", 10 // one response frame: the call res is the final frame
		}
		if i > 0 && c.method == "big" && rng.Intn(4) == 0 {
			c.slowCaller = true
		}
		out = append(out, c)
	}
	return out
}

// runs the calls one after the other (the ordinal of a call selects its rule) and judges the
// channels while they are open; then the world is either closed (closeNow) or handed back for
// the tombstone-period judgement and the common close
func c11MitmHistory(rng *rand.Rand, name string, calls []c11MitmCall, closeNow bool, sites *c11Sites, o *Out) (*c11World, *c11Mitm) {
	w, mitm := c11MitmWorld(rng, name, calls, sites)
	for _, c := range calls {
		timeout := time.Duration(pick(rng, 120, 200, 300)) * time.Millisecond
		var stalled []*c11Conn
		if c.slowCaller {
			for _, sk := range w.socks.all() {
				if sk.role == "relay-in" && !sk.closedByLib.Load() {
					sk.Stall()
					stalled = append(stalled, sk)
				}
			}
		}
		r := <-w.famCall(c.method, timeout, 10, c.arg3, 0)
		for _, sk := range stalled {
			sk.recoverWrites()
		}
		w.ops = append(w.ops, fmt.Sprintf("call:%s arg3=%d timeout=%v damage=%s caller-not-reading=%v -> %s", c.method, c.arg3, timeout, c.rule, c.slowCaller, c11ErrName(r.err)))
		o.Hist("quiesce-mitm rule " + c.rule.String())
		o.Hist("quiesce-mitm outcome " + c11ErrName(r.err))
		w.sampleConns()
	}
	sites.sample()
	w.tombs = true
	w.lastOp = time.Now()
	returned := c11WaitTimeout(&w.wg, 10*time.Second)
	left := c11Poll(2*time.Second, func() string { return w.leftovers(false) })
	if !returned {
		left = "calls have not returned 10 s after they were started; " + left
	}
	nd, nf := atomic.LoadInt32(&mitm.damaged), atomic.LoadInt32(&mitm.final)
	w.ops = append(w.ops, fmt.Sprintf("damaged-frames=%d of-which-final=%d", nd, nf))
	o.Hist(fmt.Sprintf("quiesce-mitm damaged-final-frames=%d", nf))
	closeMsg := ""
	if closeNow {
		// the relay closes while caller, man-in-the-middle and callee stay connected: a graceful
		// close must not depend on the peers going away; then the rest as usual
		w.ops = append(w.ops, "close the relay channel while its peers stay connected")
		w.relay.Close()
		select {
		case <-w.relay.ClosedChan():
		case <-time.After(3 * time.Second):
			closeMsg = fmt.Sprintf("the relay channel cannot complete a graceful close while the callee stays connected (state %v after 3 s): a relay item or a pending count is still held", w.relay.State())
		}
		if rest := w.closeAndCheck(); rest != "" {
			if closeMsg != "" {
				closeMsg += " || "
			}
			closeMsg += rest
		}
	}
	verdict := c11Verdict("with all calls completed, failed or timed out (the relay's connection to the callee is up): ", left, closeMsg, w.ops)
	key := name
	for _, c := range calls {
		key += fmt.Sprintf("|%s/%d/%s/%v", c.method, c.arg3, c.rule, c.slowCaller)
	}
	o.Oracle("quiesce-mitm", name, nd > 0, key, verdict)
	return w, mitm
}

// ---------------------------------------------------------------- family B'

// recover: the peer reads again; writes go through from now on
func (c *c11Conn) recoverWrites() {
	c.mu.Lock()
	if c.stall != nil {
		select {
		case <-c.stall:
		default:
			close(c.stall)
		}
		c.stall = nil
	}
	c.mu.Unlock()
}

type c11StallPlan struct {
	kind        int // 0 = request writer of the caller, 1 = response writer of the handler, 2 = as 0, but the socket is CUT while the writer is held (no deadline, no recovery), 3 = no stall: the call is cancelled BETWEEN two fragments (forced through the schedule point reqres.flushFragment.sent: the next newFragment meets the cancelled context)
	sendBuf     int
	big2        bool // the large argument is arg2
	ncalls      int
	timeout     time.Duration
	cancelAfter time.Duration
	sendCancel  bool
	relay       bool
}

func (p c11StallPlan) String() string {
	k := "request-writer"
	if p.kind == 1 {
		k = "response-writer"
	}
	if p.kind == 2 {
		k = "request-writer-then-socket-cut"
	}
	if p.kind == 3 {
		k = "request-writer-cancelled-between-two-fragments"
	}
	return fmt.Sprintf("%s sendbuf=%d big-arg2=%v calls=%d timeout=%v cancel-after=%v cancel-message=%v relay=%v", k, p.sendBuf, p.big2, p.ncalls, p.timeout, p.cancelAfter, p.sendCancel, p.relay)
}

var c11StallScripts = []c11StallPlan{
	{kind: 0, sendBuf: 2, ncalls: 1, timeout: 200 * time.Millisecond},
	{kind: 0, sendBuf: 1, ncalls: 2, timeout: 150 * time.Millisecond, big2: true, sendCancel: true},
	{kind: 1, sendBuf: 1, ncalls: 1, timeout: 200 * time.Millisecond},
	{kind: 0, sendBuf: 3, ncalls: 1, timeout: 400 * time.Millisecond, cancelAfter: 80 * time.Millisecond},
	{kind: 2, sendBuf: 2, ncalls: 2, timeout: 600 * time.Millisecond},
	{kind: 3, sendBuf: 8, ncalls: 1, timeout: 500 * time.Millisecond, cancelAfter: 40 * time.Millisecond},
}

func c11RandStallPlan(rng *rand.Rand) c11StallPlan {
	p := c11StallPlan{kind: pick(rng, 0, 0, 0, 1, 2, 3), sendBuf: pick(rng, 1, 2, 2, 4), big2: rng.Intn(3) == 0, ncalls: pick(rng, 1, 1, 2),
		timeout: time.Duration(pick(rng, 100, 150, 250)) * time.Millisecond, sendCancel: rng.Intn(3) == 0, relay: rng.Intn(4) == 0}
	if rng.Intn(4) == 0 {
		p.cancelAfter = time.Duration(pick(rng, 40, 80)) * time.Millisecond
		p.timeout = 400 * time.Millisecond
	}
	if p.kind == 2 {
		p.timeout, p.cancelAfter = 600*time.Millisecond, 0
	}
	if p.kind == 3 {
		p.timeout, p.cancelAfter, p.relay, p.ncalls, p.sendBuf = 500*time.Millisecond, time.Duration(pick(rng, 20, 40))*time.Millisecond, false, 1, 8
	}
	if p.kind == 1 {
		// the handler's response is three frames: one held inside Write, one queued, the third cannot be handed over
		p.relay, p.big2, p.sendBuf = false, false, 1
	}
	return p
}

func c11StallWorld(name string, p c11StallPlan, sites *c11Sites) *c11World {
	w := &c11World{name: name, socks: &c11Sockets{}, conns: map[*tchannel.Connection]*tchannel.Channel{}, sites: sites}
	w.baseline = c11Baseline()
	mk := func(svc string, opts *tchannel.ChannelOptions, role string) *tchannel.Channel {
		ch, err := tchannel.NewChannel(svc, opts)
		if err != nil {
			panic(err)
		}
		w.chans = append(w.chans, ch)
		if role != "" {
			ln, err := net.Listen("tcp", "127.0.0.1:0")
			if err != nil {
				panic(err)
			}
			ch.Serve(&c11Listener{Listener: ln, socks: w.socks, role: role})
		}
		return ch
	}
	sopts := &tchannel.ChannelOptions{}
	if p.kind == 1 {
		sopts.DefaultConnectionOptions.SendBufferSize = p.sendBuf
	}
	w.server = mk("svc", sopts, "server")
	w.registerHandlers(w.server)
	w.target = w.server.PeerInfo().HostPort
	if p.relay {
		rh := relaytest.NewStubRelayHost()
		w.relay = mk("relay", &tchannel.ChannelOptions{RelayHost: rh, RelayMaxTimeout: 300 * time.Millisecond, Dialer: w.socks.dialer("relay-out")}, "relay-in")
		rh.Add("svc", w.server.PeerInfo().HostPort)
		w.target = w.relay.PeerInfo().HostPort
		w.tombs = true
	}
	copts := &tchannel.ChannelOptions{Dialer: w.socks.dialer("client")}
	if p.kind != 1 {
		copts.DefaultConnectionOptions.SendBufferSize = p.sendBuf
	}
	copts.DefaultConnectionOptions.SendCancelOnContextCanceled = p.sendCancel
	w.client = mk("client", copts, "")
	return w
}

// the history of family B'; returns whether a writer was really held by a full send buffer
func c11StallHistory(w *c11World, p c11StallPlan, o *Out) bool {
	w.ops = append(w.ops, "stall-until-deadline: "+p.String())
	r := <-w.famCall("echo", time.Second, 10, 10, 0)
	w.ops = append(w.ops, "call:echo -> "+c11ErrName(r.err))
	w.sampleConns()
	if p.kind == 3 {
		sched := NewSched()
		sched.ParkAt("reqres.flushFragment.sent")
		rc := w.famCall("echo", p.timeout, 10, 200000, p.cancelAfter)
		feasible := sched.WaitArrived("reqres.flushFragment.sent", 1, 2*time.Second)
		time.Sleep(p.cancelAfter + 40*time.Millisecond) // the call is cancelled while its writer is parked after a hand-over
		sched.Close()
		r := <-rc
		w.ops = append(w.ops, fmt.Sprintf("forced-schedule: writer parked after a fragment hand-over, call cancelled, writer released (feasible=%v) -> %s", feasible, c11ErrName(r.err)))
		o.Hist("quiesce-stall outcome " + c11ErrName(r.err))
		r = <-w.famCall("echo", time.Second, 10, 10, 0)
		w.ops = append(w.ops, "call:echo -> "+c11ErrName(r.err))
		o.Hist("quiesce-stall connection-survived=" + fmt.Sprint(r.err == nil))
		o.Hist("quiesce-stall cancelled-between-fragments feasible=" + fmt.Sprint(feasible))
		w.sampleConns()
		w.lastOp = time.Now()
		return feasible
	}
	role := "client"
	ch := w.client
	if p.kind == 1 {
		role, ch = "server", w.server
	}
	var stalled []*c11Conn
	for _, s := range w.socks.all() {
		if s.role == role && !s.closedByLib.Load() {
			s.Stall()
			stalled = append(stalled, s)
		}
	}
	w.ops = append(w.ops, fmt.Sprintf("fault:%d %s socket(s) stall (the peer stops reading)", len(stalled), role))
	// one frame is held inside Write, sendBuf frames fill the queue, the next hand-over blocks
	big := (p.sendBuf + 3) * 65536
	var results []chan c11FamResult
	for i := 0; i < p.ncalls; i++ {
		switch {
		case p.kind == 1:
			results = append(results, w.famCall("big", p.timeout, 10, 10, p.cancelAfter)) // the handler answers with 150000 bytes
		case p.big2:
			results = append(results, w.famCall("echo", p.timeout, big, 10, p.cancelAfter))
		default:
			results = append(results, w.famCall("echo", p.timeout, 10, big, p.cancelAfter))
		}
	}
	// watch the stalled side while the calls run: its send queue fills up, and a goroutine of this
	// world (not in the baseline) sits in flushFragment's select with a fragment it cannot hand over
	full, held := false, false
	wait := p.timeout
	if p.cancelAfter > 0 {
		wait = p.cancelAfter
	}
	if p.kind == 2 {
		wait = 300 * time.Millisecond // the socket is cut as soon as a writer is seen held, at the latest now
	}
	until := time.Now().Add(wait - 10*time.Millisecond)
	for time.Now().Before(until) && !(p.kind == 2 && held) {
		for _, c := range tchannel.VerifC11Conns(ch) {
			if tchannel.VerifC11Info(ch, c).SendChQueued >= p.sendBuf {
				full = true
			}
		}
		if full && !held {
			for _, st := range c11NewSince(w.baseline) {
				if strings.Contains(st.full, "flushFragment") && strings.HasPrefix(st.state, "select") {
					held = true
				}
			}
		}
		time.Sleep(5 * time.Millisecond)
	}
	full = full && held
	if p.kind == 2 {
		for _, s := range stalled {
			s.Abort()
		}
		w.ops = append(w.ops, "fault:the stalled socket is cut underneath the library")
	}
	for _, rc := range results {
		r := <-rc
		w.ops = append(w.ops, fmt.Sprintf("call over after %dms -> %s", r.dur/time.Millisecond/10*10, c11ErrName(r.err)))
		o.Hist("quiesce-stall outcome " + c11ErrName(r.err))
	}
	w.ops = append(w.ops, fmt.Sprintf("a-writer-was-held-by-the-full-send-queue=%v", full))
	if p.kind != 2 {
		for _, s := range stalled {
			s.recoverWrites()
		}
		w.ops = append(w.ops, "the peer reads again")
	}
	r = <-w.famCall("echo", time.Second, 10, 10, 0)
	w.ops = append(w.ops, "call:echo -> "+c11ErrName(r.err))
	o.Hist("quiesce-stall connection-survived=" + fmt.Sprint(r.err == nil))
	o.Hist("quiesce-stall writer-held-by-full-queue=" + fmt.Sprint(full))
	w.sampleConns()
	w.lastOp = time.Now()
	return full
}

// ---------------------------------------------------------------- both families

// c11Families runs the families.  Worlds whose relay holds tombstones are returned: they are
// judged again after the tombstone period and closed with the other deferred worlds.
func c11Families(seedRng *rand.Rand, n int, sites *c11Sites, o *Out) (deferred []*c11World) {
	nA := len(c11MitmScripts) + n/10
	nB := len(c11StallScripts) + n/10
	seeds := make([]int64, nA+nB)
	for i := range seeds {
		seeds[i] = seedRng.Int63()
	}
	for i := 0; i < nA; i++ {
		rng := rand.New(rand.NewSource(seeds[i]))
		var calls []c11MitmCall
		if i < len(c11MitmScripts) {
			calls = c11MitmScripts[i]
		} else {
			calls = c11RandMitmCalls(rng)
		}
		// every other world is closed at once (relay first, its peers alive); the others wait for
		// the tombstone period and are closed with the deferred worlds
		closeNow := i%2 == 0
		w, _ := c11MitmHistory(rng, fmt.Sprintf("m%d", i), calls, closeNow, sites, o)
		if !closeNow {
			deferred = append(deferred, w)
		}
	}
	for i := 0; i < nB; i++ {
		rng := rand.New(rand.NewSource(seeds[nA+i]))
		var p c11StallPlan
		if i < len(c11StallScripts) {
			p = c11StallScripts[i]
		} else {
			p = c11RandStallPlan(rng)
		}
		w := c11StallWorld(fmt.Sprintf("s%d", i), p, sites)
		full := c11StallHistory(w, p, o)
		returned := c11WaitTimeout(&w.wg, 10*time.Second)
		left := c11Poll(2*time.Second, func() string { return w.leftovers(false) })
		if !returned {
			left = "calls have not returned 10 s after they were started; " + left
		}
		if w.relay != nil {
			// the relay may hold tombstones: judged again later, closed with the deferred worlds
			verdict := c11Verdict("with all calls completed, failed or timed out and the peer reading again: ", left, "", w.ops)
			o.Oracle("quiesce-stall", w.name, full, w.name+"|"+p.String(), verdict)
			deferred = append(deferred, w)
			continue
		}
		verdict := c11Verdict("with all calls completed, failed or timed out and the peer reading again: ", left, w.closeAndCheck(), w.ops)
		o.Oracle("quiesce-stall", w.name, full, w.name+"|"+p.String(), verdict)
	}
	return deferred
}
