package main

// C04 (strengthening W04), scenario family mux-drain of engine multiplex:
// responses that are completely DELIVERED when the connection fails are still RECEIVED.
//
// N callers share one connection of a real client channel to a raw (spec-written) peer.  All of
// them send their complete requests; the peer answers every call -- one-frame and two-frame
// responses, written in a random order-preserving interleaving -- and then sends a ping request:
// the connection's single reader goroutine forwards frames to their exchanges synchronously and in
// order, so the ping response proves that every response frame written before it sits in its
// exchange's queue.  Only then a connection-level event notifies ALL exchanges of the connection
// (stopExchanges): the peer closes the socket / reports a protocol error / sends a malformed frame /
// sends an unparsable error frame, or a write of another call fails locally.  A canary caller without
// any response frame, blocked in its reader, tells when the notification has happened.  Only THEN
// the callers read their responses (concurrently or one after the other, scrambled order).
//
// Statement oracle (C04: "each caller receives the complete, unmodified response produced for its
// own request ... with exchanges failing while others proceed"): a caller whose response frames were
// all delivered before the failure reads exactly its response; a caller whose response was only
// partly delivered ends with an error, never completes, and what it read is a prefix of its own
// response; the canary ends with an error and does not hang.
// Correspondence (sub c04drain, Model/C04Reader.v run_c04drain over Model/Mex.v): per caller the
// number of response frames its reader obtained and how it ended.
//
// A second form (mux-drain-real) uses a real serving channel that answers and is then closed
// gracefully (as a deploy / idle sweep / health-check close on the other side would).

import (
	"bytes"
	"encoding/binary"
	"fmt"
	"io"
	"math/rand"
	"net"
	"os"
	"strings"
	"sync"
	"sync/atomic"
	"time"

	"github.com/uber/tchannel-go"
	"github.com/uber/tchannel-go/raw"
	"golang.org/x/net/context"
)

var c04DrainModes = []string{"peer-close", "peer-protocol-error", "peer-short-frame", "peer-bad-error-frame", "local-write-fail"}

type c04DrainCaller struct {
	idx       int
	tag       uint64
	total     int // frames of the response
	delivered int // frames written before the failure
	arg3      []byte
	frames    [][]byte
	call      *tchannel.OutboundCall
	cancel    context.CancelFunc
	// results
	got2, got3 []byte
	err        error
	stage      string
	took       time.Duration
}

// c04DrainBuild returns a response of exactly `total` frames for the call (ids are patched later).
func c04DrainBuild(rng *rand.Rand, tag uint64, total int, maxPayload int, csum byte) ([][]byte, []byte) {
	a2 := make([]byte, 8)
	binary.BigEndian.PutUint64(a2, tag)
	size := 0
	switch total {
	case 1:
		size = pick(rng, 0, 10, 200)
	default:
		size = (total-1)*(maxPayload-40) + 60 + rng.Intn(100)
	}
	for try := 0; try < 200; try++ {
		a3 := tagStream(tag, size)
		fr := buildRawCallFrames(false, 0, rawCallResHeader(0, make([]byte, 25), nil), csum, [3][]byte{{}, a2, a3}, maxPayload)
		if len(fr) == total {
			return fr, a3
		}
		if len(fr) < total {
			size += 37
		} else {
			size -= 23
			if size < 0 {
				size = 0
			}
		}
	}
	return nil, nil
}

func c04DrainRead(c *c04DrainCaller) {
	t0 := time.Now()
	defer func() {
		c.took = time.Since(t0)
		if r := recover(); r != nil {
			c.err = fmt.Errorf("panic: %v", r)
			c.stage = "panic"
		}
	}()
	resp := c.call.Response()
	r2, err := resp.Arg2Reader()
	if err != nil {
		c.err, c.stage = err, "arg2-reader"
		return
	}
	b2, err := io.ReadAll(r2)
	c.got2 = b2
	if err != nil {
		c.err, c.stage = err, "arg2-read"
		return
	}
	if err := r2.Close(); err != nil {
		c.err, c.stage = err, "arg2-close"
		return
	}
	r3, err := resp.Arg3Reader()
	if err != nil {
		c.err, c.stage = err, "arg3-reader"
		return
	}
	buf := make([]byte, 4096)
	for {
		n, err := r3.Read(buf)
		c.got3 = append(c.got3, buf[:n]...)
		if err == io.EOF {
			break
		}
		if err != nil {
			c.err, c.stage = err, "arg3-read"
			return
		}
	}
	if err := r3.Close(); err != nil {
		c.err, c.stage = err, "arg3-close"
		return
	}
	c.stage = "complete"
}

// c04DrainFramesSeen: how many frames of the response the caller's reader obtained, judged from what it
// returned (-1: inconsistent with any frame boundary).
func c04DrainFramesSeen(c *c04DrainCaller) int64 {
	if c.err == nil {
		return int64(c.total)
	}
	if c.stage == "arg2-reader" || c.stage == "arg2-read" {
		if len(c.got2) == 0 {
			return 0
		}
		return -1
	}
	sum := 0
	for k := 0; k < len(c.frames); k++ {
		ch := parseChunks(c.frames[k])
		if ch == nil {
			return -1
		}
		if k == 0 {
			if len(ch) >= 3 {
				sum += len(ch[2])
			}
		} else if len(ch) >= 1 {
			sum += len(ch[0])
		}
		if len(c.got3) == sum {
			return int64(k + 1)
		}
	}
	return -1
}

func c04DrainErrCode(err error) int64 {
	if err == nil {
		return 0
	}
	switch tchannel.GetSystemErrorCode(err) {
	case tchannel.ErrCodeTimeout:
		return 1
	case tchannel.ErrCodeCancelled:
		return 2
	}
	return 17
}

func c04DrainScenario(rng *rand.Rand, mode string, id string, o *Out) (verdict string, key string) {
	ln, err := net.Listen("tcp", "127.0.0.1:0")
	if err != nil {
		return "harness: " + err.Error(), ""
	}
	defer ln.Close()
	n := pick(rng, 3, 5, 8, 12, 16, 24)
	maxPayload := pick(rng, 300, 700, 1500)
	csum := byte(pick(rng, 0, 1))
	callers := make([]*c04DrainCaller, n+1)
	for i := range callers {
		c := &c04DrainCaller{idx: i, tag: 0xC04D000000000000 | uint64(rng.Int63n(1<<40))<<8 | uint64(i)}
		switch k := rng.Intn(10); {
		case i == n: // the canary: no response frame at all
			c.total, c.delivered = 1, 0
		case k < 4:
			c.total, c.delivered = 1, 1
		case k < 8:
			c.total, c.delivered = 2, 2
		case k == 8:
			c.total, c.delivered = pick(rng, 2, 3), pick(rng, 1, 2)
			if c.delivered >= c.total {
				c.delivered = c.total - 1
			}
		default:
			c.total, c.delivered = pick(rng, 1, 2), 0
		}
		c.frames, c.arg3 = c04DrainBuild(rng, c.tag, c.total, maxPayload, csum)
		if c.frames == nil {
			return "harness: could not build a response of the wanted frame count", ""
		}
		callers[i] = c
	}
	// the arrival order of the delivered frames: random, order-preserving per call
	var wire []int
	{
		left := make([]int, len(callers))
		rem := 0
		for i, c := range callers {
			left[i] = c.delivered
			rem += c.delivered
		}
		for rem > 0 {
			i := rng.Intn(len(callers))
			if left[i] > 0 {
				wire = append(wire, i)
				left[i]--
				rem--
			}
		}
	}
	concurrentRead := rng.Intn(2) == 0
	readOrder := rng.Perm(n)
	key = fmt.Sprintf("%s n=%d p=%d ck=%d conc=%v", mode, n, maxPayload, csum, concurrentRead)

	type peerMsg struct {
		what string
		err  string
	}
	peerCh := make(chan peerMsg, 8)
	cmd := make(chan string, 4)
	defer close(cmd)
	go func() {
		conn, err := ln.Accept()
		if err != nil {
			peerCh <- peerMsg{"fail", "accept: " + err.Error()}
			return
		}
		defer conn.Close()
		if _, _, err := rawServerHandshake(conn); err != nil {
			peerCh <- peerMsg{"fail", "handshake: " + err.Error()}
			return
		}
		// all requests, complete
		idOf := map[uint64]uint32{}
		frags := map[uint32][]*rawCall{}
		for len(idOf) < len(callers) {
			f, err := readRawFrame(conn, 5*time.Second)
			if err != nil {
				peerCh <- peerMsg{"fail", fmt.Sprintf("reading requests (%d of %d complete): %v", len(idOf), len(callers), err)}
				return
			}
			if f.Type != 0x03 && f.Type != 0x13 {
				continue
			}
			pc, err := parseRawCall(f.Type, f.Payload)
			if err != nil {
				peerCh <- peerMsg{"fail", "parsing a call req: " + err.Error()}
				return
			}
			frags[f.ID] = append(frags[f.ID], pc)
			if pc.Flags&1 == 0 {
				args := collectArgs(frags[f.ID])
				if len(args) < 3 || len(args[1]) != 8 {
					peerCh <- peerMsg{"fail", "unexpected request arguments"}
					return
				}
				idOf[binary.BigEndian.Uint64(args[1])] = f.ID
			}
		}
		// the answers, then the barrier
		sent := make([]int, len(callers))
		for _, i := range wire {
			c := callers[i]
			fr := append([]byte{}, c.frames[sent[i]]...)
			binary.BigEndian.PutUint32(fr[4:], idOf[c.tag])
			sent[i]++
			conn.SetWriteDeadline(time.Now().Add(3 * time.Second))
			if _, err := conn.Write(fr); err != nil {
				peerCh <- peerMsg{"fail", "writing a response frame: " + err.Error()}
				return
			}
		}
		if err := writeRawFrame(conn, 0xd0, 0x7ffffff0, nil); err != nil {
			peerCh <- peerMsg{"fail", "writing the ping: " + err.Error()}
			return
		}
		for {
			f, err := readRawFrame(conn, 5*time.Second)
			if err != nil {
				peerCh <- peerMsg{"fail", "waiting for the ping response: " + err.Error()}
				return
			}
			if f.Type == 0xd1 {
				break
			}
		}
		peerCh <- peerMsg{"delivered", ""}
		switch <-cmd {
		case "peer-close":
			conn.Close()
		case "peer-protocol-error":
			writeRawFrame(conn, 0xff, 0xffffffff, rawErrorPayload(0xff, make([]byte, 25), "verif: peer reports a protocol error"))
		case "peer-short-frame":
			conn.Write([]byte{0, 5, 0x04, 0, 0, 0, 0, 1, 0, 0, 0, 0, 0, 0, 0, 0})
		case "peer-bad-error-frame":
			writeRawFrame(conn, 0xff, 0x7fffff01, []byte{0x05})
		case "local-write-fail":
			// nothing to do here: the client's own write fails
		default:
			return
		}
		// keep the socket until the scenario ends (the library closes its side)
		<-cmd
	}()

	var failWrites int32
	client, err := tchannel.NewChannel("c04drain-client", &tchannel.ChannelOptions{Logger: tchannel.NullLogger,
		Dialer: func(ctx context.Context, network, hostPort string) (net.Conn, error) {
			c, err := net.Dial(network, hostPort)
			if err != nil {
				return nil, err
			}
			return failConn{c, &failWrites}, nil
		}})
	if err != nil {
		return "harness: " + err.Error(), key
	}
	defer client.Close()
	hp := ln.Addr().String()
	for _, c := range callers {
		ctx, cancel := tchannel.NewContext(10 * time.Second)
		c.cancel = cancel
		defer cancel()
		call, err := client.BeginCall(ctx, hp, "svc", "echo", nil)
		if err != nil {
			return "harness: BeginCall: " + err.Error(), key
		}
		c.call = call
	}
	var wg sync.WaitGroup
	werrs := make([]error, len(callers))
	for i, c := range callers {
		wg.Add(1)
		go func(i int, c *c04DrainCaller) {
			defer wg.Done()
			a2 := make([]byte, 8)
			binary.BigEndian.PutUint64(a2, c.tag)
			if err := tchannel.NewArgWriter(c.call.Arg2Writer()).Write(a2); err != nil {
				werrs[i] = err
				return
			}
			werrs[i] = tchannel.NewArgWriter(c.call.Arg3Writer()).Write(tagStream(c.tag^0x77, 5+i*13))
		}(i, c)
	}
	wg.Wait()
	for _, e := range werrs {
		if e != nil {
			return "harness: writing a request: " + e.Error(), key
		}
	}
	select {
	case m := <-peerCh:
		if m.what != "delivered" {
			return "harness: raw peer: " + m.err, key
		}
	case <-time.After(8 * time.Second):
		return "harness: raw peer did not finish", key
	}
	// the canary blocks in its reader; then the connection-level event
	canary := callers[n]
	canaryDone := make(chan struct{})
	go func() { c04DrainRead(canary); close(canaryDone) }()
	time.Sleep(2 * time.Millisecond)
	cmd <- mode
	if mode == "local-write-fail" {
		atomic.StoreInt32(&failWrites, 1)
		c2ctx, c2cancel := tchannel.NewContext(2 * time.Second)
		_, _, _, err2 := raw.Call(c2ctx, client, hp, "svc", "other", []byte("x"), []byte("y"))
		c2cancel()
		if err2 == nil {
			return "harness: the extra call succeeded although writes fail", key
		}
	}
	select {
	case <-canaryDone:
	case <-time.After(4 * time.Second):
		fmt.Fprintln(os.Stderr, "mux-drain: the canary caller was not woken by the connection failure within 4 s:", key)
		return "harness: canary not woken", key
	}
	// every exchange has been (or is just being) notified: give stopExchanges time to finish its loop
	time.Sleep(25 * time.Millisecond)

	if concurrentRead {
		var rg sync.WaitGroup
		for _, i := range readOrder {
			rg.Add(1)
			go func(c *c04DrainCaller) { defer rg.Done(); c04DrainRead(c) }(callers[i])
		}
		rg.Wait()
	} else {
		for _, i := range readOrder {
			c04DrainRead(callers[i])
		}
	}
	cmd <- "end"

	// ---- oracle and observation
	in := []int64{2, 17, int64(len(callers))}
	for _, c := range callers {
		in = append(in, int64(c.total), int64(c.delivered))
	}
	in = append(in, int64(len(wire)))
	for _, i := range wire {
		in = append(in, int64(i))
	}
	var obs []int64
	var bad []string
	lost := 0
	for _, c := range callers {
		a2 := make([]byte, 8)
		binary.BigEndian.PutUint64(a2, c.tag)
		obs = append(obs, c04DrainFramesSeen(c), c04DrainErrCode(c.err))
		switch {
		case c.delivered == c.total:
			if c.err != nil {
				lost++
				if len(bad) < 3 {
					bad = append(bad, fmt.Sprintf("caller %d (response of %d frame(s), %d arg3 bytes, ALL delivered to its exchange before the failure) got an error at %s instead of its response: %v",
						c.idx, c.total, len(c.arg3), c.stage, c.err))
				}
			} else if !bytes.Equal(c.got2, a2) || !bytes.Equal(c.got3, c.arg3) {
				lost++
				if len(bad) < 3 {
					bad = append(bad, fmt.Sprintf("caller %d read a response that is not the one produced for its request (arg2 %x, arg3 %d bytes, first difference at %d)",
						c.idx, c.got2, len(c.got3), firstDiff(c.got3, c.arg3)))
				}
			}
		default:
			if c.err == nil {
				bad = append(bad, fmt.Sprintf("caller %d completed a response of which only %d of %d frames were sent", c.idx, c.delivered, c.total))
			} else if !bytes.HasPrefix(c.arg3, c.got3) || (len(c.got2) > 0 && !bytes.Equal(c.got2, a2)) {
				bad = append(bad, fmt.Sprintf("caller %d (partly delivered response) read bytes that are not a prefix of its own response", c.idx))
			}
			if c.took > 5*time.Second {
				bad = append(bad, fmt.Sprintf("caller %d (response incomplete when the connection failed) was only released after %v", c.idx, c.took))
			}
		}
	}
	if len(bad) > 0 {
		verdict = fmt.Sprintf("connection-level failure (%s) after the responses had been delivered, %d callers on one connection, callers read afterwards: %d caller(s) lost a completely delivered response; %s",
			mode, n, lost, strings.Join(bad, "; "))
	}
	o.Hist("mux-drain:" + mode)
	o.Case("c04drain", id, in, obs, true, verdict)
	return verdict, key
}

// ---- the same with a real serving channel that answers and is then closed gracefully

type c04DrainEcho struct {
	done chan struct{}
}

// Handle answers with arg2 = the request's arg2 (tag, wanted size) and arg3 = the tag's stream of the
// wanted size, and reports when the response has been handed to the connection completely.
func (h *c04DrainEcho) Handle(ctx context.Context, call *tchannel.InboundCall) {
	defer func() { h.done <- struct{}{} }()
	var a2, a3 []byte
	if err := tchannel.NewArgReader(call.Arg2Reader()).Read(&a2); err != nil || len(a2) != 12 {
		return
	}
	if err := tchannel.NewArgReader(call.Arg3Reader()).Read(&a3); err != nil {
		return
	}
	resp := call.Response()
	if err := tchannel.NewArgWriter(resp.Arg2Writer()).Write(a2); err != nil {
		return
	}
	tchannel.NewArgWriter(resp.Arg3Writer()).Write(tagStream(binary.BigEndian.Uint64(a2), int(binary.BigEndian.Uint32(a2[8:]))))
}

func c04DrainRealScenario(rng *rand.Rand) (verdict string, key string) {
	n := pick(rng, 4, 8, 12, 18)
	server, err := tchannel.NewChannel("svc", &tchannel.ChannelOptions{Logger: tchannel.NullLogger})
	if err != nil {
		return "harness: " + err.Error(), ""
	}
	h := &c04DrainEcho{done: make(chan struct{}, n)}
	server.Register(h, "echo")
	if err := server.ListenAndServe("127.0.0.1:0"); err != nil {
		return "harness: " + err.Error(), ""
	}
	closed := false
	defer func() {
		if !closed {
			server.Close()
		}
	}()
	hp := server.PeerInfo().HostPort
	client, err := tchannel.NewChannel("c04drain-client", &tchannel.ChannelOptions{Logger: tchannel.NullLogger})
	if err != nil {
		return "harness: " + err.Error(), ""
	}
	defer client.Close()
	key = fmt.Sprintf("real n=%d", n)
	type rc struct {
		tag  uint64
		size int
		call *tchannel.OutboundCall
		c    c04DrainCaller
	}
	cs := make([]*rc, n)
	for i := range cs {
		// one-frame responses and responses of exactly two frames (both fit the exchange's queue)
		c := &rc{tag: 0xC04E000000000000 | uint64(rng.Int63n(1<<40))<<8 | uint64(i), size: pick(rng, 10, 1000, 40000, 70000, 100000, 120000)}
		ctx, cancel := tchannel.NewContext(15 * time.Second)
		defer cancel()
		call, err := client.BeginCall(ctx, hp, "svc", "echo", nil)
		if err != nil {
			return "harness: BeginCall: " + err.Error(), key
		}
		c.call = call
		cs[i] = c
	}
	var wg sync.WaitGroup
	werrs := make([]error, n)
	for i, c := range cs {
		wg.Add(1)
		go func(i int, c *rc) {
			defer wg.Done()
			a2 := make([]byte, 12)
			binary.BigEndian.PutUint64(a2, c.tag)
			binary.BigEndian.PutUint32(a2[8:], uint32(c.size))
			if err := tchannel.NewArgWriter(c.call.Arg2Writer()).Write(a2); err != nil {
				werrs[i] = err
				return
			}
			werrs[i] = tchannel.NewArgWriter(c.call.Arg3Writer()).Write([]byte("req"))
		}(i, c)
	}
	wg.Wait()
	for _, e := range werrs {
		if e != nil {
			return "harness: writing a request: " + e.Error(), key
		}
	}
	for i := 0; i < n; i++ {
		select {
		case <-h.done:
		case <-time.After(8 * time.Second):
			return "harness: handlers did not finish", key
		}
	}
	// all handlers have handed their complete response to the connection: graceful close of the callee
	server.Close()
	closed = true
	deadline := time.Now().Add(6 * time.Second)
	for client.IntrospectNumConnections() > 0 {
		if time.Now().After(deadline) {
			return "harness: the caller's channel kept the closed connection", key
		}
		time.Sleep(2 * time.Millisecond)
	}
	time.Sleep(30 * time.Millisecond)
	var rg sync.WaitGroup
	for _, i := range rng.Perm(n) {
		c := cs[i]
		c.c = c04DrainCaller{idx: i, call: c.call}
		rg.Add(1)
		go func(c *rc) { defer rg.Done(); c04DrainRead(&c.c) }(c)
	}
	rg.Wait()
	var bad []string
	lost := 0
	for i, c := range cs {
		want := tagStream(c.tag, c.size)
		if c.c.err != nil {
			lost++
			if len(bad) < 3 {
				bad = append(bad, fmt.Sprintf("caller %d (response size %d, answered before the callee closed) got an error at %s instead of its response: %v", i, c.size, c.c.stage, c.c.err))
			}
		} else if len(c.c.got2) != 12 || binary.BigEndian.Uint64(c.c.got2) != c.tag || !bytes.Equal(c.c.got3, want) {
			lost++
			if len(bad) < 3 {
				bad = append(bad, fmt.Sprintf("caller %d read a response that is not the one produced for its request (first difference at %d)", i, firstDiff(c.c.got3, want)))
			}
		}
	}
	if len(bad) > 0 {
		verdict = fmt.Sprintf("callee answered %d concurrent calls on one connection and was then closed gracefully, callers read afterwards: %d caller(s) lost a completely delivered response; %s",
			n, lost, strings.Join(bad, "; "))
	}
	return verdict, key
}

// c04DrainRun is called by engineMultiplex.
func c04DrainRun(rng *rand.Rand, n int, o *Out) {
	for c := 0; c < n; c++ {
		mode := c04DrainModes[c%len(c04DrainModes)]
		id := fmt.Sprintf("dr%d", c)
		v, _ := c04DrainScenario(rng, mode, id, o)
		if strings.HasPrefix(v, "harness:") {
			fmt.Fprintln(os.Stderr, "mux-drain:", mode, v)
			o.Hist("mux-drain:harness-problem")
		}
	}
	for c := 0; c < n/5+1; c++ {
		v, key := c04DrainRealScenario(rng)
		if strings.HasPrefix(v, "harness:") {
			fmt.Fprintln(os.Stderr, "mux-drain-real:", v)
			o.Hist("mux-drain-real:harness-problem")
			v = ""
		}
		o.Hist("mux-drain-real")
		o.Oracle("mux-drain-real", fmt.Sprintf("rr%d", c), true, fmt.Sprint(c, key), v)
	}
}
