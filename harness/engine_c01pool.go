package main

// Property C01, frame pools.  "Every frame emitted is at most 65535 bytes ... for all
// fragment capacities": the capacity of a fragment is the Payload length of the frame the
// connection's FramePool hands out, so the clause is checked here with EVERY FramePool the
// library exports on the WRITING side.
//
//   poolget   statement-level oracle on Get(): every frame of every pool (fresh, recycled, after
//             many Get/Release rounds) has len(Payload) == cap(Payload) == MaxFramePayloadSize;
//             a fresh frame has a zero header; filled to the brim the way newFragment /
//             flushFragment do (SetPayloadSize(uint16(len(Payload))) + WriteOut) it is written as
//             16+len(Payload) <= 65535 bytes whose size field says so, and a reader gets the
//             payload back.
//   poolwire  a real channel with the pool under test writes a call req (client side) or a call
//             res (server side) whose arguments fill frames EXACTLY (argument ends -3..+3 bytes
//             around the end of the first / a continuation frame, 2..4 frames) to a raw peer
//             built from the protocol document.  Oracles: every Write on the connection is one
//             frame of 16..65535 bytes whose size field equals the bytes written; the raw peer
//             parses every frame, verifies every checksum and reassembles exactly the arguments
//             written.  Correspondence (sub callwire): the frames on the wire vs the model of
//             reqResWriter at the production capacity.

import (
	"bytes"
	"context"
	"encoding/binary"
	"fmt"
	"math"
	"math/rand"
	"net"
	"sync"
	"time"

	tchannel "github.com/uber/tchannel-go"
)

func init() {
	engines["poolget"] = engineC01PoolGet
	engines["poolwire"] = engineC01PoolWire
}

// every FramePool the library exports (frame_pool.go, checked_frame_pool.go); the list of
// implementing types is tied to the source by Props/C01.v C01_pool_impls_known.
type c01pPool struct {
	name string
	mk   func() tchannel.FramePool
}

var c01pPools = []c01pPool{
	{"unset(DefaultFramePool)", func() tchannel.FramePool { return nil }},
	{"DefaultFramePool", func() tchannel.FramePool { return tchannel.DefaultFramePool }},
	{"NewSyncFramePool", func() tchannel.FramePool { return tchannel.NewSyncFramePool() }},
	{"DisabledFramePool", func() tchannel.FramePool { return tchannel.DisabledFramePool }},
	{"NewChannelFramePool(0)", func() tchannel.FramePool { return tchannel.NewChannelFramePool(0) }},
	{"NewChannelFramePool(1)", func() tchannel.FramePool { return tchannel.NewChannelFramePool(1) }},
	{"NewChannelFramePool(64)", func() tchannel.FramePool { return tchannel.NewChannelFramePool(64) }},
	{"NewCheckedFramePoolForTest", func() tchannel.FramePool { return tchannel.NewCheckedFramePoolForTest() }},
}

// ---------------------------------------------------------------- poolget

// c01pFrameVerdict: the statement about one frame a pool handed out.
func c01pFrameVerdict(f *tchannel.Frame, fresh bool, fill byte) string {
	if f == nil {
		return "Get() returned nil"
	}
	if len(f.Payload) != tchannel.MaxFramePayloadSize || cap(f.Payload) != tchannel.MaxFramePayloadSize {
		return fmt.Sprintf("Get() returned a frame with len(Payload)=%d cap=%d, want MaxFramePayloadSize=%d: a fragment filling it is a frame of %d bytes (limit %d)",
			len(f.Payload), cap(f.Payload), tchannel.MaxFramePayloadSize, len(f.Payload)+tchannel.FrameHeaderSize, tchannel.MaxFrameSize)
	}
	if fresh && f.Header != (tchannel.FrameHeader{}) {
		return fmt.Sprintf("fresh frame has a non-zero header %v size %d", f.Header, f.Header.FrameSize())
	}
	// fill it to the brim as reqResWriter does: the write buffer is Payload[:], flushFragment
	// stamps SetPayloadSize(uint16(BytesWritten))
	for i := range f.Payload {
		f.Payload[i] = fill + byte(i)
	}
	n := len(f.Payload)
	f.Header.ID = 0x01020304
	f.Header.SetPayloadSize(uint16(n))
	var b bytes.Buffer
	if err := f.WriteOut(&b); err != nil {
		return "WriteOut of a full frame: " + err.Error()
	}
	w := b.Bytes()
	if len(w) != n+tchannel.FrameHeaderSize || len(w) > tchannel.MaxFrameSize {
		return fmt.Sprintf("a full frame (%d payload bytes) is written as %d bytes, want %d <= %d", n, len(w), n+tchannel.FrameHeaderSize, tchannel.MaxFrameSize)
	}
	if int(binary.BigEndian.Uint16(w)) != len(w) || int(f.Header.FrameSize()) != len(w) {
		return fmt.Sprintf("size field %d / FrameSize() %d of a full frame, %d bytes written", binary.BigEndian.Uint16(w), f.Header.FrameSize(), len(w))
	}
	if !bytes.Equal(w[16:], f.Payload) {
		return "payload bytes written differ from the payload"
	}
	g := tchannel.NewFrame(tchannel.MaxFramePayloadSize)
	if err := g.ReadIn(&b); err != nil {
		return "a reader rejects the full frame: " + err.Error()
	}
	if !bytes.Equal(g.SizedPayload(), f.Payload) || g.Header.ID != 0x01020304 {
		return "a reader gets a different payload / id back from the full frame"
	}
	return ""
}

func engineC01PoolGet(rng *rand.Rand, n int, tier string, o *Out) {
	for c := 0; c < n; c++ {
		pi := c % len(c01pPools)
		pool := c01pPools[pi].mk()
		if pool == nil {
			pool = tchannel.DefaultFramePool
		}
		// a script of Gets and Releases: held frames are released in random order, so later Gets
		// see recycled frames (channel pool, sync pool) as well as fresh ones
		nops := 2 + rng.Intn(12)
		var held []*tchannel.Frame
		verdict := ""
		script := ""
		gets := 0
		for k := 0; k < nops && verdict == ""; k++ {
			if len(held) > 0 && rng.Intn(3) == 0 {
				i := rng.Intn(len(held))
				pool.Release(held[i])
				held = append(held[:i], held[i+1:]...)
				script += "R"
				continue
			}
			script += "G"
			var f *tchannel.Frame
			func() {
				defer func() {
					if r := recover(); r != nil {
						verdict = fmt.Sprintf("Get() panicked: %v", r)
					}
				}()
				f = pool.Get()
			}()
			if verdict != "" {
				break
			}
			func() {
				defer func() {
					if r := recover(); r != nil {
						verdict = fmt.Sprintf("filling and writing out a frame from Get() panicked: %v", r)
					}
				}()
				verdict = c01pFrameVerdict(f, gets == 0 && c01pPools[pi].name != "DefaultFramePool" && c01pPools[pi].name != "unset(DefaultFramePool)", byte(rng.Intn(256)))
			}()
			gets++
			held = append(held, f)
		}
		for _, f := range held {
			if verdict == "" {
				pool.Release(f)
			}
		}
		if verdict != "" {
			verdict = fmt.Sprintf("pool %s, script %s: %s", c01pPools[pi].name, script, verdict)
		}
		o.Hist("pool=" + c01pPools[pi].name)
		if c < 2 {
			o.Sample(map[string]interface{}{"sub": "poolget", "pool": c01pPools[pi].name, "script": script})
		}
		o.Oracle("poolget", fmt.Sprintf("g%d", c), gets > 1, c01pPools[pi].name+" "+script, verdict)
	}
}

// ---------------------------------------------------------------- poolwire

// c01pConn records every Write the library makes on the connection (Frame.WriteOut writes a
// frame with one Write).
type c01pConn struct {
	net.Conn
	mu     sync.Mutex
	writes [][2]int // (bytes written, size field)
}

func (c *c01pConn) Write(b []byte) (int, error) {
	sz := -1
	if len(b) >= 2 {
		sz = int(binary.BigEndian.Uint16(b))
	}
	c.mu.Lock()
	c.writes = append(c.writes, [2]int{len(b), sz})
	c.mu.Unlock()
	return c.Conn.Write(b)
}

func (c *c01pConn) verdict() string {
	c.mu.Lock()
	defer c.mu.Unlock()
	for i, w := range c.writes {
		if w[0] < tchannel.FrameHeaderSize || w[0] > tchannel.MaxFrameSize {
			return fmt.Sprintf("write %d on the connection has %d bytes: not a frame of 16..65535 bytes", i, w[0])
		}
		if w[1] != w[0] {
			return fmt.Sprintf("write %d on the connection: %d bytes written, size field %d", i, w[0], w[1])
		}
	}
	return ""
}

type c01pListener struct {
	net.Listener
	mu    sync.Mutex
	conns []*c01pConn
}

func (l *c01pListener) Accept() (net.Conn, error) {
	c, err := l.Listener.Accept()
	if err != nil {
		return nil, err
	}
	rc := &c01pConn{Conn: c}
	l.mu.Lock()
	l.conns = append(l.conns, rc)
	l.mu.Unlock()
	return rc, nil
}

// c01pWriteArg writes one argument in the given pieces (flush[i]: Flush after piece i).
func c01pWriteArg(w tchannel.ArgWriter, err error, data []byte, cuts []int, flush bool) error {
	if err != nil {
		return err
	}
	pos := 0
	for i, c := range cuts {
		if c <= pos || c >= len(data) {
			continue
		}
		if _, err := w.Write(data[pos:c]); err != nil {
			w.Close()
			return err
		}
		pos = c
		if flush && i%2 == 0 {
			if err := w.Flush(); err != nil {
				w.Close()
				return err
			}
		}
	}
	if _, err := w.Write(data[pos:]); err != nil {
		w.Close()
		return err
	}
	return w.Close()
}

func c01pReadArg(r tchannel.ArgReader, err error) ([]byte, error) {
	if err != nil {
		return nil, err
	}
	var b []byte
	err = tchannel.NewArgReader(r, nil).Read(&b)
	return b, err
}

// c01pCollect reads the frames of one message (types mt / mtc) from the raw connection, checks
// each against the protocol document and returns the fragments.
func c01pCollect(conn net.Conn, mt, mtc byte, wantID *uint32) (frags []*rawCall, raws [][]byte, verdict string) {
	ck := &rawCsum{}
	for {
		f, err := readRawFrame(conn, 4*time.Second)
		if err != nil {
			sz := -1
			if f != nil {
				sz = f.Size
			}
			return frags, raws, fmt.Sprintf("reading frame %d of the message: %v (size field %d)", len(frags), err, sz)
		}
		if f.Size > tchannel.MaxFrameSize {
			return frags, raws, fmt.Sprintf("frame %d has %d bytes", len(frags), f.Size)
		}
		want := mt
		if len(frags) > 0 {
			want = mtc
		}
		if f.Type != want {
			return frags, raws, fmt.Sprintf("frame %d of the message has type %#x, want %#x (size field %d)", len(frags), f.Type, want, f.Size)
		}
		pc, err := parseRawCall(f.Type, f.Payload)
		if err != nil {
			return frags, raws, fmt.Sprintf("frame %d does not parse per the specification: %v", len(frags), err)
		}
		if len(frags) == 0 {
			if *wantID == 0 {
				*wantID = f.ID
			}
			ck.typ = pc.CsumType
		}
		if f.ID != *wantID {
			return frags, raws, fmt.Sprintf("frame %d has id %d, want %d", len(frags), f.ID, *wantID)
		}
		if len(pc.Chunks) == 0 {
			return frags, raws, fmt.Sprintf("frame %d carries no chunk", len(frags))
		}
		for _, ch := range pc.Chunks {
			ck.add(ch)
		}
		if !bytes.Equal(ck.bytes(), pc.Csum) || pc.CsumType != ck.typ {
			return frags, raws, fmt.Sprintf("checksum of fragment %d does not match the independently computed one", len(frags))
		}
		frags = append(frags, pc)
		raws = append(raws, rawFrameBytes(f.Type, f.ID, f.Payload))
		if pc.Flags&1 == 0 {
			return frags, raws, ""
		}
		if len(frags) > 64 {
			return frags, raws, "more than 64 frames"
		}
	}
}

type c01pCase struct {
	pool    int
	dir     int // 0: the client writes the call req; 1: the server writes the call res
	csum    tchannel.ChecksumType
	method  string
	a2, a3  []byte
	cuts    []int
	flush   bool
	service string
}

type c01pObs struct {
	verdict string
	frags   []*rawCall
	raws    [][]byte
	id      uint32
}

var c01pTracing = make([]byte, 25)

// c01pRun: one exchange; the message under test is written by the real channel with the pool.
func c01pRun(cs *c01pCase) (res c01pObs) {
	pool := c01pPools[cs.pool].mk()
	copts := tchannel.ConnectionOptions{FramePool: pool, ChecksumType: cs.csum}
	if cs.dir == 0 {
		ln, err := net.Listen("tcp", "127.0.0.1:0")
		if err != nil {
			res.verdict = "harness: listen: " + err.Error()
			return
		}
		defer ln.Close()
		done := make(chan c01pObs, 2)
		go func() {
			var r c01pObs
			defer func() { done <- r }()
			conn, err := ln.Accept()
			if err != nil {
				r.verdict = "harness: accept: " + err.Error()
				return
			}
			defer conn.Close()
			if _, _, err := rawServerHandshake(conn); err != nil {
				r.verdict = "init req not conforming: " + err.Error()
				return
			}
			r.frags, r.raws, r.verdict = c01pCollect(conn, 0x03, 0x13, &r.id)
			if r.verdict != "" {
				return
			}
			hdr := rawCallResHeader(0, r.frags[0].Tracing, [][2]string{{"as", "raw"}})
			for _, fr := range buildRawCallFrames(false, r.id, hdr, 1, [3][]byte{{}, []byte("r2"), []byte("r3")}, 65519) {
				conn.SetWriteDeadline(time.Now().Add(3 * time.Second))
				if _, err := conn.Write(fr); err != nil {
					r.verdict = "harness: write res: " + err.Error()
					return
				}
			}
			done <- r
			readRawFrame(conn, 2*time.Second) // until the client closes
		}()
		var rec *c01pConn
		var recMu sync.Mutex
		ch, err := tchannel.NewChannel("verif-c01p-client", &tchannel.ChannelOptions{
			DefaultConnectionOptions: copts,
			Dialer: func(ctx context.Context, network, hostPort string) (net.Conn, error) {
				c, err := (&net.Dialer{}).DialContext(ctx, network, hostPort)
				if err != nil {
					return nil, err
				}
				recMu.Lock()
				rec = &c01pConn{Conn: c}
				r := rec
				recMu.Unlock()
				return r, nil
			},
		})
		if err != nil {
			res.verdict = "harness: NewChannel: " + err.Error()
			return
		}
		defer ch.Close()
		ctx, cancel := tchannel.NewContext(6 * time.Second)
		defer cancel()
		call, err := ch.BeginCall(ctx, ln.Addr().String(), cs.service, cs.method, nil)
		var g2, g3 []byte
		if err == nil {
			w, e := call.Arg2Writer()
			err = c01pWriteArg(w, e, cs.a2, nil, false)
		}
		if err == nil {
			w, e := call.Arg3Writer()
			err = c01pWriteArg(w, e, cs.a3, cs.cuts, cs.flush)
		}
		if err == nil {
			g2, err = c01pReadArg(call.Response().Arg2Reader())
		}
		if err == nil {
			g3, err = c01pReadArg(call.Response().Arg3Reader())
		}
		select {
		case res = <-done:
		case <-time.After(8 * time.Second):
			res.verdict = "raw peer did not finish"
		}
		recMu.Lock()
		r := rec
		recMu.Unlock()
		if r != nil {
			if v := r.verdict(); v != "" {
				res.verdict = v
				return
			}
		}
		if res.verdict != "" {
			return
		}
		if err != nil {
			res.verdict = "client failed against a specification-conforming peer: " + err.Error()
			return
		}
		if string(g2) != "r2" || string(g3) != "r3" {
			res.verdict = "client decoded different response arguments than the peer sent"
		}
		return
	}

	// dir 1: real server with the pool writes the call res
	base, err := net.Listen("tcp", "127.0.0.1:0")
	if err != nil {
		res.verdict = "harness: listen: " + err.Error()
		return
	}
	ln := &c01pListener{Listener: base}
	ch, err := tchannel.NewChannel(cs.service, &tchannel.ChannelOptions{DefaultConnectionOptions: copts})
	if err != nil {
		base.Close()
		res.verdict = "harness: NewChannel: " + err.Error()
		return
	}
	defer ch.Close()
	herr := make(chan error, 1)
	ch.Register(tchannel.HandlerFunc(func(ctx context.Context, call *tchannel.InboundCall) {
		_, err := c01pReadArg(call.Arg2Reader())
		if err == nil {
			_, err = c01pReadArg(call.Arg3Reader())
		}
		if err == nil {
			w, e := call.Response().Arg2Writer()
			err = c01pWriteArg(w, e, cs.a2, nil, false)
		}
		if err == nil {
			w, e := call.Response().Arg3Writer()
			err = c01pWriteArg(w, e, cs.a3, cs.cuts, cs.flush)
		}
		select {
		case herr <- err:
		default:
		}
	}), cs.method)
	if err := ch.Serve(ln); err != nil {
		base.Close()
		res.verdict = "harness: Serve: " + err.Error()
		return
	}
	conn, err := net.DialTimeout("tcp", base.Addr().String(), 2*time.Second)
	if err != nil {
		res.verdict = "harness: dial: " + err.Error()
		return
	}
	defer conn.Close()
	if _, err := rawClientHandshake(conn); err != nil {
		res.verdict = "init res not conforming: " + err.Error()
		return
	}
	res.id = 7
	hdr := rawCallReqHeader(5000, c01pTracing, cs.service, [][2]string{{"as", "raw"}, {"cn", "rawpeer"}})
	for _, fr := range buildRawCallFrames(true, res.id, hdr, 1, [3][]byte{[]byte(cs.method), []byte("q2"), []byte("q3")}, 65519) {
		conn.SetWriteDeadline(time.Now().Add(3 * time.Second))
		if _, err := conn.Write(fr); err != nil {
			res.verdict = "harness: write req: " + err.Error()
			return
		}
	}
	res.frags, res.raws, res.verdict = c01pCollect(conn, 0x04, 0x14, &res.id)
	ln.mu.Lock()
	conns := append([]*c01pConn(nil), ln.conns...)
	ln.mu.Unlock()
	for _, rc := range conns {
		if v := rc.verdict(); v != "" {
			res.verdict = v
			return
		}
	}
	if res.verdict != "" {
		return
	}
	select {
	case err := <-herr:
		if err != nil {
			res.verdict = "handler failed writing the response to a specification-conforming peer: " + err.Error()
		}
	case <-time.After(3 * time.Second):
		res.verdict = "handler did not finish"
	}
	return
}

// c01pCheckArgs: the arguments reassembled per the protocol document are the ones written.
func c01pCheckArgs(cs *c01pCase, r *c01pObs) string {
	args := collectArgs(r.frags)
	a1 := []byte(cs.method)
	if cs.dir == 1 {
		a1 = nil
	}
	if len(args) != 3 || !bytes.Equal(args[0], a1) || !bytes.Equal(args[1], cs.a2) || !bytes.Equal(args[2], cs.a3) {
		lens := []int{}
		for _, a := range args {
			lens = append(lens, len(a))
		}
		return fmt.Sprintf("arguments reassembled per the specification differ from what was written: got lengths %v, written %d %d %d", lens, len(a1), len(cs.a2), len(cs.a3))
	}
	for i, f := range r.frags {
		if (f.Flags&1 == 1) != (i < len(r.frags)-1) {
			return fmt.Sprintf("frame %d of %d: more-fragments flag %d", i, len(r.frags), f.Flags&1)
		}
	}
	for i, fr := range r.raws {
		if len(fr) > tchannel.MaxFrameSize {
			return fmt.Sprintf("frame %d has %d bytes", i, len(fr))
		}
	}
	return ""
}

// callwire model case for a message written with one Write per argument.
func c01pModelCase(cs *c01pCase, r *c01pObs) (in, obs []int64, ok bool) {
	first := r.frags[0]
	tr := first.Tracing
	if len(tr) != 25 {
		return nil, nil, false
	}
	mt := int64(3)
	if cs.dir == 1 {
		mt = 4
	}
	in = []int64{mt, int64(r.id), int64(first.CsumType)}
	if cs.dir == 0 {
		in = append(in, int64(first.TTL))
	} else {
		in = append(in, int64(first.Code))
	}
	for i := 0; i < 3; i++ {
		v := binary.BigEndian.Uint64(tr[8*i:])
		if v > math.MaxInt64 {
			return nil, nil, false
		}
		in = append(in, int64(v))
	}
	in = append(in, int64(tr[24]))
	if cs.dir == 0 {
		in = putBytes(in, []byte(first.Service))
	}
	in = putKVs(in, first.Headers)
	if cs.dir == 0 {
		in = putBytes(in, []byte(cs.method))
	} else {
		in = putBytes(in, nil)
	}
	in = putBytes(in, cs.a2)
	in = putBytes(in, cs.a3)
	obs = []int64{0, int64(len(r.raws))}
	for _, f := range r.raws {
		obs = putBytes(obs, f)
	}
	return in, obs, true
}

func engineC01PoolWire(rng *rand.Rand, n int, tier string, o *Out) {
	// room for chunk bytes in the first / a continuation frame, learnt per (direction, checksum,
	// method) from the header length the raw peer sees in a probe exchange (the method is a chunk, not header)
	type key struct {
		dir  int
		csum tchannel.ChecksumType
	}
	hdrLen := map[key][2]int{}
	for c := 0; c < n; c++ {
		cs := &c01pCase{pool: c % len(c01pPools), dir: (c / len(c01pPools)) % 2, service: "svc"}
		cs.csum = tchannel.ChecksumTypeCrc32
		if rng.Intn(3) == 0 {
			cs.csum = tchannel.ChecksumTypeCrc32C
		}
		cs.method = "m" + randAlpha(rng, pick(rng, 0, 3, 20))
		k := key{cs.dir, cs.csum}
		hl, known := hdrLen[k]
		layout := "probe"
		if !known {
			cs.a2 = []byte(randBytes(rng, 10))
			cs.a3 = []byte(randBytes(rng, 70000))
		} else {
			first := tchannel.MaxFramePayloadSize - hl[0] // chunk bytes (with their 2-byte lengths) in frame 0
			cont := tchannel.MaxFramePayloadSize - hl[1]
			a1 := len(cs.method)
			if cs.dir == 1 {
				a1 = 0
			}
			d := rng.Intn(7) - 3
			switch rng.Intn(4) {
			case 0: // arg2 ends around the end of the first frame
				layout = fmt.Sprintf("arg2-end-of-frame0%+d", d)
				cs.a2 = []byte(randBytes(rng, imax(0, first-(2+a1)-2+d)))
				cs.a3 = []byte(randBytes(rng, pick(rng, 0, 1, 5, cont-2, cont-2+d)))
			case 1: // arg3 ends around the end of the first frame
				la2 := pick(rng, 0, 1, 30, 1000)
				layout = fmt.Sprintf("arg3-end-of-frame0%+d", d)
				cs.a2 = []byte(randBytes(rng, la2))
				cs.a3 = []byte(randBytes(rng, imax(0, first-(2+a1)-(2+la2)-2+d)))
			default: // arg3 ends around the end of continuation frame kk
				la2 := pick(rng, 0, 1, 30, 1000)
				kk := 1 + rng.Intn(3)
				layout = fmt.Sprintf("arg3-end-of-frame%d%+d", kk, d)
				cs.a2 = []byte(randBytes(rng, la2))
				cs.a3 = []byte(randBytes(rng, imax(0, first-(2+a1)-(2+la2)-2+kk*(cont-2)+d)))
			}
		}
		mode := "whole"
		switch rng.Intn(4) {
		case 0:
			mode = "pieces"
		case 1:
			mode = "pieces+flush"
			cs.flush = true
		}
		if mode != "whole" && len(cs.a3) > 2 {
			m := 1 + rng.Intn(4)
			cuts := map[int]bool{}
			for i := 0; i < m; i++ {
				cuts[1+rng.Intn(len(cs.a3)-1)] = true
			}
			for p := 1; p < len(cs.a3); p++ {
				if cuts[p] {
					cs.cuts = append(cs.cuts, p)
				}
			}
		}
		var r c01pObs
		func() {
			defer func() {
				if x := recover(); x != nil {
					r.verdict = fmt.Sprintf("panic: %v", x)
				}
			}()
			r = c01pRun(cs)
		}()
		verdict := r.verdict
		if verdict == "" {
			verdict = c01pCheckArgs(cs, &r)
		}
		if verdict == "" && !known {
			contHdr := 2 // flags + checksum type
			if len(r.frags) > 1 {
				contHdr = r.frags[1].HeaderLen
			} else {
				contHdr += len(r.frags[0].Csum)
			}
			hdrLen[k] = [2]int{r.frags[0].HeaderLen, contHdr}
		}
		dirs := []string{"req", "res"}
		desc := fmt.Sprintf("pool %s, %s written by the library, checksum %d, method %q, arg2 %d bytes, arg3 %d bytes (%s), written %s cuts %v",
			c01pPools[cs.pool].name, dirs[cs.dir], cs.csum, cs.method, len(cs.a2), len(cs.a3), layout, mode, cs.cuts)
		if verdict != "" {
			verdict = desc + ": " + verdict
		}
		o.Hist("pool=" + c01pPools[cs.pool].name)
		o.Hist("dir=" + dirs[cs.dir])
		o.Hist(fmt.Sprintf("frames=%d", len(r.raws)))
		o.Hist("write=" + mode)
		if c < 2 || (known && c < 40 && c%16 == 0) {
			o.Sample(map[string]interface{}{"sub": "poolwire", "case": desc, "frames": len(r.raws)})
		}
		if verdict == "" && mode == "whole" && len(r.frags) > 0 {
			if in, obs, ok := c01pModelCase(cs, &r); ok {
				o.Case("callwire", fmt.Sprintf("pw%d", c), in, obs, len(r.raws) > 1, "")
			}
		}
		o.Oracle("poolwire", fmt.Sprintf("w%d", c), len(r.raws) > 1, desc, verdict)
	}
}
