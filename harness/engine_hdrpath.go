package main

import (
	"fmt"
	"math/rand"
	"time"

	tchannel "github.com/uber/tchannel-go"
	"github.com/uber/tchannel-go/json"
	"github.com/uber/tchannel-go/thrift"
	gen "github.com/uber/tchannel-go/thrift/gen-go/test"
	"golang.org/x/net/context"
)

// hdrpath: application headers attached to a call's context must reach the thrift / JSON
// handler exactly, and the handler's response headers must reach the caller exactly.

func init() { engines["hdrpath"] = engineHdrPath }

type hdrSecond struct {
	seen chan map[string]string
	resp map[string]string
}

func (h *hdrSecond) Echo(ctx thrift.Context, arg string) (string, error) {
	got := map[string]string{}
	for k, v := range ctx.Headers() {
		got[k] = v
	}
	h.seen <- got
	ctx.SetResponseHeaders(h.resp)
	return arg, nil
}

func utf8Safe(rng *rand.Rand, n int) string {
	b := make([]byte, n)
	for i := range b {
		b[i] = byte(32 + rng.Intn(95))
	}
	return string(b)
}

func genHdrMap(rng *rand.Rand, binary bool) map[string]string {
	m := map[string]string{}
	for i := pick(rng, 0, 0, 1, 2, 7, 40); i > 0; i-- {
		kl, vl := pick(rng, 1, 2, 10, 100), pick(rng, 0, 1, 30, 1000)
		if binary {
			m[fmt.Sprintf("%d", i)+randBytes(rng, kl)] = randBytes(rng, vl)
		} else {
			m[fmt.Sprintf("%d", i)+utf8Safe(rng, kl)] = utf8Safe(rng, vl)
		}
	}
	return m
}

func sameMap(a, b map[string]string) bool {
	if len(a) != len(b) {
		return false
	}
	for k, v := range a {
		if w, ok := b[k]; !ok || w != v {
			return false
		}
	}
	return true
}

func engineHdrPath(rng *rand.Rand, n int, tier string, o *Out) {
	server, err := tchannel.NewChannel("hdr-server", nil)
	if err != nil {
		panic(err)
	}
	defer server.Close()
	if err := server.ListenAndServe("127.0.0.1:0"); err != nil {
		panic(err)
	}
	h := &hdrSecond{seen: make(chan map[string]string, 1)}
	ts := thrift.NewServer(server)
	ts.Register(gen.NewTChanSecondServiceServer(h))

	jsonSeen := make(chan map[string]string, 1)
	var jsonResp map[string]string
	json.Register(server, json.Handlers{
		"echo": func(ctx json.Context, arg map[string]string) (map[string]string, error) {
			got := map[string]string{}
			for k, v := range ctx.Headers() {
				got[k] = v
			}
			jsonSeen <- got
			ctx.SetResponseHeaders(jsonResp)
			return arg, nil
		},
	}, func(ctx context.Context, err error) {})

	client, err := tchannel.NewChannel("hdr-client", nil)
	if err != nil {
		panic(err)
	}
	defer client.Close()
	client.Peers().Add(server.PeerInfo().HostPort)
	tclient := gen.NewTChanSecondServiceClient(thrift.NewClient(client, "hdr-server", nil))
	jclient := json.NewClient(client, "hdr-server", nil)

	for c := 0; c < n; c++ {
		if c%2 == 0 {
			req, resp := genHdrMap(rng, true), genHdrMap(rng, true)
			h.resp = resp
			ctx, cancel := thrift.NewContext(5 * time.Second)
			tctx := thrift.WithHeaders(ctx, req)
			_, err := tclient.Echo(tctx, "x")
			cancel()
			verdict := ""
			if err != nil {
				verdict = "thrift call failed: " + err.Error()
			} else {
				got := <-h.seen
				if !sameMap(got, req) {
					verdict = fmt.Sprintf("thrift handler saw %d headers, caller attached %d: application headers did not arrive exactly", len(got), len(req))
				} else if !sameMap(tctx.ResponseHeaders(), resp) {
					verdict = fmt.Sprintf("thrift caller saw %d response headers, handler set %d", len(tctx.ResponseHeaders()), len(resp))
				}
			}
			o.Hist(fmt.Sprintf("thrift req=%d resp=%d", min(len(req), 3), min(len(resp), 3)))
			o.Oracle("hdrpath-thrift", fmt.Sprintf("t%d", c), len(req)+len(resp) > 0, fmt.Sprint(req, resp), verdict)
		} else {
			req, resp := genHdrMap(rng, false), genHdrMap(rng, false)
			jsonResp = resp
			ctx, cancel := json.NewContext(5 * time.Second)
			jctx := json.WithHeaders(ctx, req)
			var out map[string]string
			err := jclient.Call(jctx, "echo", map[string]string{"a": "b"}, &out)
			cancel()
			verdict := ""
			if err != nil {
				verdict = "json call failed: " + err.Error()
			} else {
				got := <-jsonSeen
				if !sameMap(got, req) {
					verdict = fmt.Sprintf("json handler saw %d headers, caller attached %d", len(got), len(req))
				} else if !sameMap(jctx.ResponseHeaders(), resp) {
					verdict = fmt.Sprintf("json caller saw %d response headers, handler set %d", len(jctx.ResponseHeaders()), len(resp))
				} else if out["a"] != "b" {
					verdict = "json argument did not round-trip"
				}
			}
			o.Hist(fmt.Sprintf("json req=%d resp=%d", min(len(req), 3), min(len(resp), 3)))
			o.Oracle("hdrpath-json", fmt.Sprintf("j%d", c), len(req)+len(resp) > 0, fmt.Sprint(req, resp), verdict)
		}
		if c < 2 {
			o.Sample(map[string]interface{}{"sub": "hdrpath", "case": c})
		}
	}
}
