package main

import (
	stdjson "encoding/json"
	"fmt"
	"math/rand"
	"sort"
	"strings"
	"sync"
	"time"

	opentracing "github.com/opentracing/opentracing-go"
	tchannel "github.com/uber/tchannel-go"
	"github.com/uber/tchannel-go/json"
	"github.com/uber/tchannel-go/thrift"
	gen "github.com/uber/tchannel-go/thrift/gen-go/test"
	"golang.org/x/net/context"
)

// hdrpath: application headers attached to a call's context must reach the thrift / JSON
// handler exactly, and the handler's response headers must reach the caller exactly.
//
// Every case runs under one of 24 tracer configurations (caller: none / A / Z / mocktracer;
// callee: none / A / B / Z / mocktracer / C = extraction fails as corrupted; c18_tracer.go),
// i.e. the statement's classes {no tracer, caller only, callee only, both the same, both
// different}: the caller's tracer piggy-backs "$tracing$..." entries on the arg2 header map and
// the callee must hide them again whatever its own tracer makes of them.  Header maps contain,
// besides random keys, keys that LOOK like transport keys (prefix without the last '$', other
// case, prefix in the middle, the empty key, the tracers' own key names without the prefix) and,
// in a quarter of the cases, keys WITH the prefix (the library hides those from the handler:
// known finding c18:reserved-tracing-prefix; such a case is tagged when exactly those keys are
// missing and is a plain violation otherwise).  The caller's tracer injects, besides its ids,
// baggage of a parent span and pairs chosen by the engine (empty key, upper case, a key that
// collides with an application header, fresh keys that overflow the 100-entry key cache of
// tracing_keys.go), or nothing at all.
//
// Oracle (from the statement): the handler's Headers() == the caller's map, no key more and none
// less; ResponseHeaders() at the caller == the map the handler set (keys with the prefix
// included: the response path has no tracing layer); the caller's own map is not modified.
// Cases whose caller is not the mock tracer are also model cases (sub tracehdr, Model/TraceHdr.v:
// the pairs the tracer passed to carrier.Set are recorded and replayed; the model's output is
// proved equal to "the caller's map without the keys that have the prefix").

func init() { engines["hdrpath"] = engineHdrPath }

// hdrSecond: handler state of one callee channel (thrift and JSON handlers share it).  The engine
// makes one call at a time; take() hands out what the handler of that call saw.
type hdrSecond struct {
	mu    sync.Mutex
	calls int
	seen  map[string]string
	resp  map[string]string
}

func (h *hdrSecond) enter(hdrs map[string]string) map[string]string {
	got := map[string]string{}
	for k, v := range hdrs {
		got[k] = v
	}
	h.mu.Lock()
	defer h.mu.Unlock()
	h.calls++
	h.seen = got
	return h.resp
}

func (h *hdrSecond) plan(resp map[string]string) {
	h.mu.Lock()
	defer h.mu.Unlock()
	h.calls, h.seen, h.resp = 0, nil, resp
}

func (h *hdrSecond) take() (int, map[string]string) {
	h.mu.Lock()
	defer h.mu.Unlock()
	return h.calls, h.seen
}

func (h *hdrSecond) Echo(ctx thrift.Context, arg string) (string, error) {
	ctx.SetResponseHeaders(h.enter(ctx.Headers()))
	return arg, nil
}

func utf8Safe(rng *rand.Rand, n int) string {
	b := make([]byte, n)
	for i := range b {
		b[i] = byte(32 + rng.Intn(95))
	}
	return string(b)
}

func genHdrMap(rng *rand.Rand, binary bool) map[string]string {
	m := map[string]string{}
	for i := pick(rng, 0, 0, 1, 2, 7, 40); i > 0; i-- {
		kl, vl := pick(rng, 1, 2, 10, 100), pick(rng, 0, 1, 30, 1000)
		if binary {
			m[fmt.Sprintf("%d", i)+randBytes(rng, kl)] = randBytes(rng, vl)
		} else {
			m[fmt.Sprintf("%d", i)+utf8Safe(rng, kl)] = utf8Safe(rng, vl)
		}
	}
	return m
}

func sameMap(a, b map[string]string) bool {
	if len(a) != len(b) {
		return false
	}
	for k, v := range a {
		if w, ok := b[k]; !ok || w != v {
			return false
		}
	}
	return true
}

// hpServer: one callee channel with its handlers' state.
type hpServer struct {
	side c18Side
	ch   *tchannel.Channel
	th   *hdrSecond
}

type hpClient struct {
	side c18Side
	ch   *tchannel.Channel
	t    []gen.TChanSecondService // per server
	j    []*json.Client
}

// hpDiff: keys of got that are not in want / keys of want that got lacks or shows with another value.
func hpDiff(got, want map[string]string) string {
	var extra, missing []string
	for k := range got {
		if _, ok := want[k]; !ok {
			extra = append(extra, fmt.Sprintf("%.40q", k))
		}
	}
	for k, v := range want {
		if w, ok := got[k]; !ok {
			missing = append(missing, fmt.Sprintf("%.40q", k))
		} else if w != v {
			missing = append(missing, fmt.Sprintf("%.40q (other value)", k))
		}
	}
	sort.Strings(extra)
	sort.Strings(missing)
	if len(extra) > 6 {
		extra = append(extra[:6], "...")
	}
	if len(missing) > 6 {
		missing = append(missing[:6], "...")
	}
	return fmt.Sprintf("extra keys [%s], missing keys [%s]", strings.Join(extra, " "), strings.Join(missing, " "))
}

// hpAddLookalikes: keys that look like transport keys; returns whether a key with the exact prefix was added.
func hpAddLookalikes(rng *rand.Rand, m map[string]string, ns string, jsonSafe, allowReserved bool) bool {
	val := func() string {
		if jsonSafe {
			return utf8Safe(rng, pick(rng, 0, 1, 12))
		}
		return randBytes(rng, pick(rng, 0, 1, 12))
	}
	if rng.Intn(2) == 0 {
		for i := pick(rng, 1, 2, 3); i > 0; i-- {
			m[c18LookalikeKeys(false, ns, rng.Intn(64))] = val()
		}
	}
	reserved := false
	if allowReserved && rng.Intn(4) == 0 {
		for i := pick(rng, 1, 1, 2); i > 0; i-- {
			m[c18LookalikeKeys(true, ns, rng.Intn(64))] = val()
			reserved = true
		}
	}
	return reserved
}

// hpPadJSON: add the entry "pad" so that the JSON text of m (without the newline the encoder appends) is `target` bytes long.
func hpPadJSON(m map[string]string, target int) {
	m["pad"] = ""
	b, _ := stdjson.Marshal(m)
	if len(b) < target {
		m["pad"] = strings.Repeat("v", target-len(b))
	}
}

func engineHdrPath(rng *rand.Rand, n int, tier string, o *Out) {
	callerSides, calleeSides := c18CallerSides(), c18CalleeSides()
	var servers []*hpServer
	for _, side := range calleeSides {
		ch, err := tchannel.NewChannel("hdr-server", side.opts())
		if err != nil {
			panic(err)
		}
		defer ch.Close()
		if err := ch.ListenAndServe("127.0.0.1:0"); err != nil {
			panic(err)
		}
		s := &hpServer{side: side, ch: ch, th: &hdrSecond{}}
		thrift.NewServer(ch).Register(gen.NewTChanSecondServiceServer(s.th))
		json.Register(ch, json.Handlers{
			"echo": func(ctx json.Context, arg map[string]string) (map[string]string, error) {
				ctx.SetResponseHeaders(s.th.enter(ctx.Headers()))
				return arg, nil
			},
		}, func(ctx context.Context, err error) {})
		servers = append(servers, s)
	}
	var clients []*hpClient
	for _, side := range callerSides {
		ch, err := tchannel.NewChannel("hdr-client", side.opts())
		if err != nil {
			panic(err)
		}
		defer ch.Close()
		c := &hpClient{side: side, ch: ch}
		for _, s := range servers {
			hp := s.ch.PeerInfo().HostPort
			c.t = append(c.t, gen.NewTChanSecondServiceClient(thrift.NewClient(ch, "hdr-server", &thrift.ClientOptions{HostPort: hp})))
			c.j = append(c.j, json.NewClient(ch, "hdr-server", &json.ClientOptions{HostPort: hp}))
		}
		clients = append(clients, c)
	}
	combos := len(clients) * len(servers)
	fresh := 0 // counter for tracer keys never used before (the key cache holds 100 entries)

	for c := 0; c < n; c++ {
		combo := c % combos
		cl, sv := clients[combo%len(clients)], servers[combo/len(clients)]
		si := combo / len(clients)
		isThrift := (c/combos+combo)%2 == 0
		class := c18Class(cl.side, sv.side)
		ns := "a"

		req, resp := genHdrMap(rng, isThrift), genHdrMap(rng, isThrift)
		hasReserved := hpAddLookalikes(rng, req, ns, !isThrift, true)
		hpAddLookalikes(rng, resp, ns, !isThrift, true)
		reqCopy := hqCopy(req)

		// --- what the caller's tracer will inject
		var parent opentracing.Span
		mute := false
		if tr := cl.side.tracer(); tr != nil && rng.Intn(2) == 0 {
			parent = tr.StartSpan("parent")
			for i := pick(rng, 1, 1, 2, 4); i > 0; i-- {
				parent.SetBaggageItem(fmt.Sprintf("k%d", rng.Intn(6)), utf8Safe(rng, pick(rng, 0, 3, 20)))
			}
		}
		if cl.side.own != nil {
			var extra [][2]string
			mute = rng.Intn(8) == 0
			for i := pick(rng, 0, 0, 1, 2, 5); i > 0; i-- {
				var k string
				switch rng.Intn(6) {
				case 0:
					k = ""
				case 1:
					k = "X-Upper-" + utf8Safe(rng, 2)
				case 2: // collides with an application header that carries the prefix
					k = "x"
					for _, kv := range sortedKVs(req) {
						if c18Reserved(kv[0]) {
							k = kv[0][len(c18Prefix):]
							break
						}
					}
				case 3: // the name of an application header (no collision: the tracer's key gets the prefix)
					k = "plain"
					for _, kv := range sortedKVs(req) {
						if !c18Reserved(kv[0]) {
							k = kv[0]
							break
						}
					}
				default:
					fresh++
					k = fmt.Sprintf("bag-%d", fresh)
				}
				extra = append(extra, [2]string{k, utf8Safe(rng, pick(rng, 0, 1, 9))})
			}
			cl.side.own.plan(mute, extra)
		}

		// --- directed sizes (JSON): an argument whose JSON text is exactly 4096*k bytes long.  The
		// request headers can only be sized when the caller's tracer adds nothing to them.
		body := map[string]string{"a": "b"}
		directed := ""
		timeout := 5 * time.Second
		if !isThrift && c%13 == 3 {
			target := 4096 * pick(rng, 1, 1, 2, 2, 3, 4, 16)
			which := rng.Intn(3)
			if cl.side.tracer() == nil && rng.Intn(2) == 0 {
				which = 0
			} else if which == 0 && cl.side.tracer() != nil {
				which = 1 + rng.Intn(2)
			}
			switch which {
			case 0:
				hpPadJSON(req, target)
				reqCopy = hqCopy(req)
				directed = fmt.Sprintf("request headers of %d bytes", target)
			case 1:
				hpPadJSON(resp, target)
				directed = fmt.Sprintf("response headers of %d bytes", target)
			default:
				hpPadJSON(body, target)
				directed = fmt.Sprintf("arg3 of %d bytes", target)
			}
			timeout = time.Second // a request the callee cannot read is never answered
		}

		base, cancel := tchannel.NewContext(timeout)
		var pctx context.Context = base
		if parent != nil {
			pctx = opentracing.ContextWithSpan(base, parent)
		}

		var err error
		var gotResp map[string]string
		bodyOK := true
		sv.th.plan(resp)
		if isThrift {
			tctx := thrift.WithHeaders(pctx, req)
			_, err = cl.t[si].Echo(tctx, "x")
			if err == nil {
				gotResp = tctx.ResponseHeaders()
			}
		} else {
			jctx := json.WithHeaders(pctx, req)
			var out map[string]string
			err = cl.j[si].Call(jctx, "echo", body, &out)
			if err == nil {
				gotResp = jctx.ResponseHeaders()
				bodyOK = sameMap(out, body)
			}
		}
		cancel()
		ran, seen := sv.th.take()
		var sets [][2]string
		if cl.side.own != nil {
			sets = cl.side.own.sets()
		}
		if c%50 == 49 {
			for _, s := range append(append([]c18Side{}, callerSides...), calleeSides...) {
				if s.mock != nil {
					s.mock.Reset()
				}
			}
		}

		// --- oracle (from the statement)
		scheme := "json"
		if isThrift {
			scheme = "thrift"
		}
		want := map[string]string{}
		for k, v := range req {
			if !c18Reserved(k) {
				want[k] = v
			}
		}
		where := fmt.Sprintf("%s call, tracers caller=%s callee=%s (%s), caller's tracer injected %d pairs", scheme, cl.side.label, sv.side.label, class, len(sets))
		if cl.side.mock != nil {
			where = fmt.Sprintf("%s call, tracers caller=%s callee=%s (%s)", scheme, cl.side.label, sv.side.label, class)
		}
		verdict := ""
		switch {
		case err != nil && !isThrift && (strings.Contains(err.Error(), "found unexpected bytes after read arg") || (directed != "" && ran == 0)):
			verdict = fmt.Sprintf("[c18:json-arg-4096-boundary] json call failed (%v; handler ran %d times): a JSON argument whose text ends exactly where a buffered read of the argument stream ends (%s) is refused with its own terminating newline as `unexpected bytes` (%s)", err, ran, directed, where)
		case err != nil:
			verdict = scheme + " call failed: " + err.Error() + " (" + where + ")"
		case ran != 1:
			verdict = fmt.Sprintf("the handler ran %d times for one call (%s)", ran, where)
		case !sameMap(req, reqCopy):
			verdict = fmt.Sprintf("the call modified the header map the caller attached to its context: %s (%s)", hpDiff(req, reqCopy), where)
		case sameMap(seen, reqCopy):
			// exactly the caller's headers
		case hasReserved && sameMap(seen, want):
			verdict = fmt.Sprintf("[c18:reserved-tracing-prefix] application headers whose key starts with %q do not reach the handler: %s (%s)", c18Prefix, hpDiff(seen, reqCopy), where)
		default:
			verdict = fmt.Sprintf("the handler saw %d headers, the caller attached %d: application headers did not arrive exactly: %s (%s)", len(seen), len(reqCopy), hpDiff(seen, reqCopy), where)
		}
		if verdict == "" || strings.HasPrefix(verdict, "[c18:reserved-tracing-prefix]") {
			switch {
			case err != nil:
			case !sameMap(gotResp, resp):
				verdict = fmt.Sprintf("the caller saw %d response headers, the handler set %d: %s (%s)", len(gotResp), len(resp), hpDiff(gotResp, resp), where)
			case !bodyOK:
				verdict = "json argument did not round-trip"
			}
		}

		o.Hist(fmt.Sprintf("%s %s req=%d resp=%d", scheme, class, min(len(req), 3), min(len(resp), 3)))
		o.Hist(fmt.Sprintf("tracers %s", c18Label(cl.side, sv.side)))
		if hasReserved {
			o.Hist("application key with the transport prefix")
		}
		if mute {
			o.Hist("caller's tracer injects nothing")
		}
		if directed != "" {
			o.Hist("json argument of 4096*k bytes")
		}
		id := fmt.Sprintf("%s%d", scheme[:1], c)
		if cl.side.mock != nil {
			// the mock tracer does not tell what it passed to carrier.Set: oracle only
			o.Oracle("hdrpath-"+scheme, id, true, fmt.Sprint(combo, req, resp), verdict)
		} else {
			in := []int64{b2i(!isThrift), 1}
			in = putKVs(in, sets)
			in = putKVs(in, sortedKVs(reqCopy))
			in = append(in, int64(combo))
			var obs []int64
			if err != nil {
				obs = []int64{254}
			} else {
				obs = putKVs(obs, sortedKVs(seen))
			}
			o.Case("tracehdr", id, in, obs, true, verdict)
		}
		if c < 2 {
			o.Sample(map[string]interface{}{"sub": "hdrpath", "case": c, "tracers": c18Label(cl.side, sv.side), "scheme": scheme, "headers": len(req), "injected": len(sets)})
		}
	}
}
