package main

// Engine peergoc (property C16, strengthening T16): get-or-create under double-checked locking
// in RootPeerList.Add / GetOrAdd / Get and PeerList.Add / Remove.
//
//   sub peergoc        scripted calls on ONE real channel (channel list, two isolated sub-channel
//                      lists, RootPeers() directly), replayed by Model/PeerGoc.v (run_peergoc).
//                      A call may be parked at the schedule point rootpeers.Add.afterMiss (between
//                      the read-locked miss and the write lock of RootPeerList.Add) and released
//                      later, so that 2..5 first-time Adds of one host:port have all missed before
//                      any of them takes the write lock; directed cases cover every pair and triple
//                      of entry points in every release order, the rest is random.
//                      Observables: every completed call (goroutine, host:port, code, object), the
//                      root map, the list maps, scCount from IntrospectState -- objects renamed by
//                      first appearance.  Oracles (from the statement): all callers of one host:port
//                      hold the identical *Peer, it is the one in the root list, list entries hold
//                      it, scCount = number of lists holding the host:port.
//   sub peergocnet     the same race (forced by the schedule point, or -- hook-free -- by holding the
//                      exported RWMutex of RootPeers() until every adder is queued on its read lock)
//                      followed by real connections: a connection made through one list's peer is
//                      visible from the other's, calls through both share it, removing the host:port
//                      from one list keeps the peer in the root list when its last connection closes,
//                      removing it from both lets it go.
//   sub peergocstress  no hook: many goroutines add many fresh host:ports through different entry
//                      points behind a per-host:port barrier; pointer identity and scCount.

import (
	"fmt"
	"math/rand"
	"runtime"
	"strings"
	"sync"
	"sync/atomic"
	"time"

	tchannel "github.com/uber/tchannel-go"
)

func init() { engines["peergoc"] = enginePeerGoc }

const pgPoint = "rootpeers.Add.afterMiss"

// pgOp is one call of a script, executed by its own goroutine.
type pgOp struct {
	t, kind, lid, hp int
	park             bool
	arrived, release chan struct{}
	done             chan struct{}
	code             int64
	obj              *tchannel.Peer
}

// pgCtl parks the goroutine of the call that is currently being issued (calls are issued one at a
// time, so the only goroutine that can reach the point un-parked is the current one).
type pgCtl struct {
	mu  sync.Mutex
	cur *pgOp
}

func (c *pgCtl) hook(name string, id uint32) {
	if name != pgPoint {
		return
	}
	c.mu.Lock()
	op := c.cur
	c.cur = nil
	c.mu.Unlock()
	if op == nil || !op.park {
		return
	}
	close(op.arrived)
	<-op.release
}

func (c *pgCtl) set(op *pgOp) { c.mu.Lock(); c.cur = op; c.mu.Unlock() }

func pgHP(h int) string { return fmt.Sprintf("10.255.%d.1:%d", h, 20000+h) }

func pgNewChannel(name string) *tchannel.Channel {
	ch, err := tchannel.NewChannel(name, &tchannel.ChannelOptions{Logger: tchannel.NullLogger})
	if err != nil {
		panic(err)
	}
	return ch
}

func pgLists(ch *tchannel.Channel) []*tchannel.PeerList {
	return []*tchannel.PeerList{
		ch.Peers(),
		ch.GetSubChannel("pgoc-iso1", tchannel.Isolated).Peers(),
		ch.GetSubChannel("pgoc-iso2", tchannel.Isolated).Peers(),
	}
}

// pgProbe: does the library under test have the schedule point?
func pgProbe(ctl *pgCtl) bool {
	ch := pgNewChannel("pgoc-probe")
	defer ch.Close()
	op := &pgOp{park: true, arrived: make(chan struct{}), release: make(chan struct{}), done: make(chan struct{})}
	ctl.set(op)
	go func() { ch.RootPeers().Add(pgHP(1)); close(op.done) }()
	ok := false
	select {
	case <-op.arrived:
		ok = true
		close(op.release)
		<-op.done
	case <-op.done:
	}
	ctl.set(nil)
	return ok
}

// ---- script generation ----------------------------------------------------------------------

type pgGen struct {
	rng     *rand.Rand
	script  []int64
	ops     []*pgOp // call ops in script order; a release op is (kind -1, t)
	rootHas map[int]bool
	listHas [3]map[int]bool
	locked  [3]bool
	parked  []*pgOp
	nextT   int
	races   int // max number of goroutines parked on one host:port at once
}

func newPgGen(rng *rand.Rand) *pgGen {
	g := &pgGen{rng: rng, rootHas: map[int]bool{}, nextT: 1}
	for i := range g.listHas {
		g.listHas[i] = map[int]bool{}
	}
	return g
}

// willPark: does this call reach rootpeers.Add.afterMiss in the current (mirrored) state?
func (g *pgGen) willPark(kind, lid, hp int) bool {
	switch kind {
	case 1, 2:
		return !g.rootHas[hp]
	case 3:
		return !g.listHas[lid][hp] && !g.rootHas[hp]
	}
	return false
}

func (g *pgGen) call(kind, lid, hp int, wantPark bool) {
	park := wantPark && g.willPark(kind, lid, hp)
	op := &pgOp{t: g.nextT, kind: kind, lid: lid, hp: hp, park: park}
	g.nextT++
	g.script = append(g.script, 1, int64(op.t), int64(kind), int64(lid), int64(hp), b2i(park))
	g.ops = append(g.ops, op)
	if park {
		g.parked = append(g.parked, op)
		if kind == 3 {
			g.locked[lid] = true
		}
		n := 0
		for _, p := range g.parked {
			if p.hp == hp {
				n++
			}
		}
		if n > g.races {
			g.races = n
		}
		return
	}
	g.complete(op)
}

// complete mirrors the effect of a call that runs to its end
func (g *pgGen) complete(op *pgOp) {
	switch op.kind {
	case 1, 2:
		g.rootHas[op.hp] = true
	case 3:
		if !g.listHas[op.lid][op.hp] {
			g.rootHas[op.hp] = true
			g.listHas[op.lid][op.hp] = true
		}
		g.locked[op.lid] = false
	case 4:
		delete(g.listHas[op.lid], op.hp)
	}
}

func (g *pgGen) releaseAt(i int) {
	op := g.parked[i]
	g.parked = append(g.parked[:i:i], g.parked[i+1:]...)
	g.script = append(g.script, 2, int64(op.t))
	g.ops = append(g.ops, &pgOp{t: op.t, kind: -1})
	g.complete(op)
}

func (g *pgGen) releaseAll(order []int) {
	// order: indexes into the parked list as it stands now
	ops := make([]*pgOp, len(order))
	for i, k := range order {
		ops[i] = g.parked[k]
	}
	for _, op := range ops {
		for i, p := range g.parked {
			if p == op {
				g.releaseAt(i)
				break
			}
		}
	}
}

// entry points of the directed cases: (kind, lid)
var pgEntries = [][2]int{{3, 0}, {3, 1}, {3, 2}, {2, 0}, {1, 0}}

func pgPerms(n int) [][]int {
	if n == 1 {
		return [][]int{{0}}
	}
	var out [][]int
	for _, p := range pgPerms(n - 1) {
		for pos := 0; pos <= len(p); pos++ {
			q := append(append(append([]int{}, p[:pos]...), n-1), p[pos:]...)
			out = append(out, q)
		}
	}
	return out
}

// pgDirected enumerates (racers, release order): every pair and triple of distinct entry points.
func pgDirected() [][2][]int {
	var out [][2][]int
	n := len(pgEntries)
	for a := 0; a < n; a++ {
		for b := a + 1; b < n; b++ {
			for _, p := range pgPerms(2) {
				out = append(out, [2][]int{{a, b}, p})
			}
		}
	}
	for a := 0; a < n; a++ {
		for b := a + 1; b < n; b++ {
			for c := b + 1; c < n; c++ {
				for _, p := range pgPerms(3) {
					out = append(out, [2][]int{{a, b, c}, p})
				}
			}
		}
	}
	return out
}

func (g *pgGen) directed(d [2][]int) {
	hp := 1 + g.rng.Intn(3)
	// sometimes another host:port is already known, or this one is known to one list's sibling
	if g.rng.Intn(3) == 0 {
		g.call(3, g.rng.Intn(3), 4, false)
	}
	for _, e := range d[0] {
		g.call(pgEntries[e][0], pgEntries[e][1], hp, true)
	}
	g.releaseAll(d[1])
	// afterwards: a late caller through every entry point, and sometimes a removal
	g.call(0, 0, hp, false)
	g.call(3, g.rng.Intn(3), hp, false)
	if g.rng.Intn(2) == 0 {
		g.call(4, g.rng.Intn(3), hp, false)
	}
}

func (g *pgGen) random() {
	nops := 4 + g.rng.Intn(12)
	nh := 1 + g.rng.Intn(3)
	for i := 0; i < nops; i++ {
		if len(g.parked) > 0 && g.rng.Intn(10) < 3 {
			g.releaseAt(g.rng.Intn(len(g.parked)))
			continue
		}
		hp := 1 + g.rng.Intn(nh)
		wantPark := g.rng.Intn(10) < 7
		switch r := g.rng.Intn(11); {
		case r < 1:
			g.call(0, 0, hp, false)
		case r < 3:
			g.call(1, 0, hp, wantPark)
		case r < 5:
			g.call(2, 0, hp, wantPark)
		default:
			lid := g.rng.Intn(3)
			if g.locked[lid] {
				// the list's write lock is held by a parked Add: a call on it would have to wait
				if len(g.parked) > 0 {
					g.releaseAt(g.rng.Intn(len(g.parked)))
				}
				continue
			}
			if r < 9 {
				g.call(3, lid, hp, wantPark)
			} else {
				g.call(4, lid, hp, false)
			}
		}
	}
	for len(g.parked) > 0 {
		g.releaseAt(g.rng.Intn(len(g.parked)))
	}
}

// ---- script execution on a real channel -----------------------------------------------------

type pgDone struct {
	t, hp int
	code  int64
	obj   *tchannel.Peer
}

func pgRunScript(ctl *pgCtl, g *pgGen, hasHook bool, caseName string) (obs []int64, verdict string, stuck bool) {
	ch := pgNewChannel(caseName)
	defer ch.Close()
	root := ch.RootPeers()
	lists := pgLists(ch)
	byT := map[int]*pgOp{}
	var log []pgDone
	fail := func(f string, a ...interface{}) {
		if verdict == "" {
			verdict = fmt.Sprintf(f, a...)
		}
	}
	finish := func(op *pgOp) { log = append(log, pgDone{op.t, op.hp, op.code, op.obj}) }
	for _, op := range g.ops {
		if op.kind == -1 {
			p := byT[op.t]
			if p == nil || p.release == nil {
				continue // the call did not park (no schedule point in this library): already complete
			}
			close(p.release)
			p.release = nil
			select {
			case <-p.done:
				finish(p)
			case <-time.After(5 * time.Second):
				stuck = true
			}
			if stuck {
				break
			}
			continue
		}
		op := op
		byT[op.t] = op
		op.arrived, op.release, op.done = make(chan struct{}), make(chan struct{}), make(chan struct{})
		op.park = op.park && hasHook
		hp := pgHP(op.hp)
		var before *tchannel.Peer
		if op.kind == 4 {
			before = lists[op.lid].Copy()[hp]
		}
		ctl.set(op)
		go func() {
			defer close(op.done)
			switch op.kind {
			case 0:
				p, ok := root.Get(hp)
				op.code, op.obj = b2i(ok), p
			case 1:
				op.code, op.obj = 1, root.GetOrAdd(hp)
			case 2:
				op.code, op.obj = 1, root.Add(hp)
			case 3:
				op.code, op.obj = 1, lists[op.lid].Add(hp)
			case 4:
				if err := lists[op.lid].Remove(hp); err == nil {
					op.code, op.obj = 2, before
				}
			}
		}()
		select {
		case <-op.done:
			op.release = nil
			finish(op)
		case <-op.arrived:
		case <-time.After(5 * time.Second):
			stuck = true
		}
		ctl.set(nil)
		if stuck {
			break
		}
	}
	// let everything go (only needed when the case is abandoned)
	for _, op := range byT {
		if op.release != nil {
			close(op.release)
			op.release = nil
		}
	}
	if stuck {
		return nil, "", true
	}

	// observables
	ids := map[*tchannel.Peer]int64{}
	name := func(p *tchannel.Peer) int64 {
		if p == nil {
			return 0
		}
		if _, ok := ids[p]; !ok {
			ids[p] = int64(len(ids) + 1)
		}
		return ids[p]
	}
	for _, d := range log {
		obs = append(obs, int64(d.t), int64(d.hp), d.code, name(d.obj))
	}
	rootCopy := root.Copy()
	hps := []int{}
	for h := 1; h <= 8; h++ {
		if _, ok := rootCopy[pgHP(h)]; ok {
			hps = append(hps, h)
		}
	}
	for _, h := range hps {
		obs = append(obs, -1, int64(h), 1, name(rootCopy[pgHP(h)]))
	}
	listCopies := make([]map[string]*tchannel.Peer, len(lists))
	for lid, l := range lists {
		listCopies[lid] = l.Copy()
		for h := 1; h <= 8; h++ {
			if p, ok := listCopies[lid][pgHP(h)]; ok {
				obs = append(obs, int64(-2-lid), int64(h), 1, name(p))
			}
		}
	}
	st := ch.IntrospectState(&tchannel.IntrospectionOptions{IncludeEmptyPeers: true})
	for _, h := range hps {
		obs = append(obs, int64(st.RootPeers[pgHP(h)].SCCount))
	}

	// oracles, from the statement: one Peer object per host:port, shared by everybody
	for _, d := range log {
		if d.obj == nil {
			continue
		}
		if d.obj.HostPort() != pgHP(d.hp) {
			fail("goroutine %d asked for %s and got the peer of %s", d.t, pgHP(d.hp), d.obj.HostPort())
		}
		rp, ok := rootCopy[pgHP(d.hp)]
		if !ok {
			fail("goroutine %d holds a peer for %s but the root peer list has none (no connection was ever closed)", d.t, pgHP(d.hp))
		} else if rp != d.obj {
			fail("goroutine %d (%s) holds a *Peer for %s that is not the root peer list's peer: a private object, connections to %s will not be listed on it",
				d.t, pgKindName(byT[d.t]), pgHP(d.hp), pgHP(d.hp))
		}
	}
	for lid := range lists {
		for hp, p := range listCopies[lid] {
			if rootCopy[hp] != p {
				fail("peer list %d holds a *Peer for %s that is not the root peer list's peer", lid, hp)
			}
		}
	}
	for _, h := range hps {
		refs := 0
		for lid := range lists {
			if _, ok := listCopies[lid][pgHP(h)]; ok {
				refs++
			}
		}
		if got := int(st.RootPeers[pgHP(h)].SCCount); got != refs {
			fail("%s is held by %d peer list(s) but the root peer's reference count (scCount) is %d", pgHP(h), refs, got)
		}
	}
	return obs, verdict, false
}

func pgKindName(op *pgOp) string {
	if op == nil {
		return "?"
	}
	switch op.kind {
	case 0:
		return "RootPeers().Get"
	case 1:
		return "RootPeers().GetOrAdd"
	case 2:
		return "RootPeers().Add"
	case 3:
		return fmt.Sprintf("PeerList(%d).Add", op.lid)
	case 4:
		return fmt.Sprintf("PeerList(%d).Remove", op.lid)
	}
	return "?"
}

// ---- races followed by real connections --------------------------------------------------------

// pgParkedInRootAdd counts goroutines queued on the read lock at the start of RootPeerList.Add
// (or of RootPeerList.Get, for GetOrAdd).
func pgParkedInRootAdd() int {
	buf := make([]byte, 1<<20)
	buf = buf[:runtime.Stack(buf, true)]
	n := 0
	for _, g := range strings.Split(string(buf), "\n\n") {
		if (strings.Contains(g, "(*RootPeerList).Add") || strings.Contains(g, "(*RootPeerList).Get")) && strings.Contains(g, "RWMutex).RLock") {
			n++
		}
	}
	return n
}

func pgWait(d time.Duration, f func() bool) bool {
	for dl := time.Now().Add(d); ; time.Sleep(2 * time.Millisecond) {
		if f() {
			return true
		}
		if time.Now().After(dl) {
			return false
		}
	}
}

// pgNetCase: racers = entry points (indexes of pgEntries, list entries first), order = release order
// (hook variant), gate = force the race with the RWMutex of RootPeers() instead of the hook.
// Returns verdict, infeasible reason.
func pgNetCase(ctl *pgCtl, srvHP string, name string, racers []int, order []int, gate bool, removeFirst int) (string, string) {
	ch := pgNewChannel(name)
	defer ch.Close()
	root := ch.RootPeers()
	lists := pgLists(ch)
	ops := make([]*pgOp, len(racers))
	run := func(op *pgOp) {
		defer close(op.done)
		switch op.kind {
		case 1:
			op.obj = root.GetOrAdd(srvHP)
		case 2:
			op.obj = root.Add(srvHP)
		case 3:
			op.obj = lists[op.lid].Add(srvHP)
		}
	}
	for i, e := range racers {
		ops[i] = &pgOp{t: i + 1, kind: pgEntries[e][0], lid: pgEntries[e][1], park: !gate,
			arrived: make(chan struct{}), release: make(chan struct{}), done: make(chan struct{})}
	}
	if gate {
		root.Lock()
		for _, op := range ops {
			go run(op)
		}
		ok := pgWait(3*time.Second, func() bool { return pgParkedInRootAdd() >= len(ops) })
		root.Unlock()
		for _, op := range ops {
			<-op.done
		}
		if !ok {
			return "", "adders did not queue on the root read lock"
		}
	} else {
		for _, op := range ops {
			ctl.set(op)
			go run(op)
			select {
			case <-op.arrived:
			case <-op.done:
				ctl.set(nil)
				for _, p := range ops {
					if p != op && p.t < op.t {
						close(p.release)
						<-p.done
					}
				}
				return "", "a first-time Add did not reach " + pgPoint
			case <-time.After(5 * time.Second):
				ctl.set(nil)
				return "", "stuck"
			}
			ctl.set(nil)
		}
		for _, k := range order {
			close(ops[k].release)
			<-ops[k].done
		}
	}

	introspect := func() tchannel.PeerRuntimeState {
		return ch.IntrospectState(&tchannel.IntrospectionOptions{IncludeEmptyPeers: true}).RootPeers[srvHP]
	}
	inRoot := func() bool { _, ok := root.Get(srvHP); return ok }
	// the checks below go on after a failure (up to three messages): a private Peer object shows
	// in the pointer comparison first, and then in what the statement says about connections
	var msgs []string
	say := func(f string, a ...interface{}) {
		if len(msgs) < 3 {
			msgs = append(msgs, fmt.Sprintf(f, a...))
		}
	}
	verdict := func() string { return strings.Join(msgs, "; ") }
	// a. identical *Peer for everybody, the root's
	rp, ok := root.Get(srvHP)
	if !ok {
		return fmt.Sprintf("after %d concurrent first-time Adds of %s the root peer list has no peer for it", len(ops), srvHP), ""
	}
	nlists := 0
	var listOps []*pgOp
	for _, op := range ops {
		if op.kind == 3 {
			nlists++
			listOps = append(listOps, op)
		}
		if op.obj != rp {
			say("%d concurrent first-time Adds of %s (all past the read-locked miss before the first write lock): %s returned a *Peer that is not the root peer list's peer",
				len(ops), srvHP, pgKindName(op))
		}
	}
	for _, op := range listOps {
		if lists[op.lid].Copy()[srvHP] != rp {
			say("peer list %d holds a *Peer for %s that is not the root peer list's peer", op.lid, srvHP)
		}
	}
	// b. reference count
	if got := int(introspect().SCCount); got != nlists {
		say("%s was added to %d peer lists but the root peer's reference count (scCount) is %d", srvHP, nlists, got)
	}
	if len(listOps) < 2 {
		return verdict(), ""
	}
	// c. a connection made through one list's peer is visible from the other's; calls share it
	a, b := listOps[0], listOps[1]
	ctx, cancel := tchannel.NewContext(3 * time.Second)
	defer cancel()
	pa, err := lists[a.lid].Get(nil)
	if err != nil {
		say("peer list %d has no peer after Add: %v", a.lid, err)
		return verdict(), ""
	}
	conn, err := pa.GetConnection(ctx)
	if err != nil {
		return verdict(), "connect failed: " + err.Error()
	}
	pb, err := lists[b.lid].Get(nil)
	if err != nil {
		say("peer list %d has no peer after Add: %v", b.lid, err)
		return verdict(), ""
	}
	if _, out := pb.NumConnections(); out != 1 {
		say("the channel has 1 active outbound connection to %s (made through peer list %d) but peer list %d's peer for %s lists %d", srvHP, a.lid, b.lid, srvHP, out)
	}
	conn2, err := pb.GetConnection(ctx)
	if err != nil {
		return verdict(), "connect failed: " + err.Error()
	}
	if conn2 != conn || ch.IntrospectNumConnections() != 1 {
		say("calls to %s through two peer lists of one channel must share one connection; the channel now has %d", srvHP, ch.IntrospectNumConnections())
	}
	// d. one list drops the host:port; the last connection closes; the other list still references it
	first, second := a, b
	if removeFirst == 1 {
		first, second = b, a
	}
	if err := lists[first.lid].Remove(srvHP); err != nil {
		say("Remove(%s) on peer list %d failed: %v", srvHP, first.lid, err)
		return verdict(), ""
	}
	conn.Close()
	if conn2 != conn {
		conn2.Close()
	}
	if !pgWait(3*time.Second, func() bool {
		in, out := rp.NumConnections()
		return ch.IntrospectNumConnections() == 0 && in+out == 0
	}) {
		return verdict(), "connection did not close"
	}
	time.Sleep(30 * time.Millisecond)
	if !inRoot() {
		say("%s left the root peer list when its last connection closed although peer list %d still references it", srvHP, second.lid)
		return verdict(), ""
	}
	if cur, _ := root.Get(srvHP); cur != lists[second.lid].Copy()[srvHP] {
		say("peer list %d's peer for %s is not the root peer list's peer", second.lid, srvHP)
	}
	if len(msgs) > 0 {
		return verdict(), ""
	}
	// e. the other lists drop it too; a last connection comes and goes: the peer leaves the root list
	for _, op := range listOps {
		if op == first {
			continue
		}
		if err := lists[op.lid].Remove(srvHP); err != nil {
			return fmt.Sprintf("Remove(%s) on peer list %d failed: %v", srvHP, op.lid, err), ""
		}
	}
	ctx2, cancel2 := tchannel.NewContext(3 * time.Second)
	defer cancel2()
	c3, err := ch.Connect(ctx2, srvHP)
	if err != nil {
		return "", "connect failed: " + err.Error()
	}
	c3.Close()
	if !pgWait(3*time.Second, func() bool { return !inRoot() }) {
		return fmt.Sprintf("the last connection to %s was removed while no peer list references it, but the peer stays in the root peer list (scCount %d)", srvHP, introspect().SCCount), ""
	}
	return "", ""
}

// ---- stress without the hook ------------------------------------------------------------------

func pgStress(rng *rand.Rand, name string) (string, int) {
	ch := pgNewChannel(name)
	defer ch.Close()
	root := ch.RootPeers()
	lists := pgLists(ch)
	G := 4 + rng.Intn(5)
	H := 60 + rng.Intn(120)
	routes := make([]int, G) // 0..2 lists, 3 root Add, 4 root GetOrAdd
	listUsed := map[int]bool{}
	for i := range routes {
		routes[i] = rng.Intn(5)
		if i < 3 {
			routes[i] = i // at least two distinct lists and one more
		}
		if routes[i] < 3 {
			listUsed[routes[i]] = true
		}
	}
	res := make([][]*tchannel.Peer, G)
	barrier := make([]int32, H)
	var wg sync.WaitGroup
	for i := 0; i < G; i++ {
		i := i
		res[i] = make([]*tchannel.Peer, H)
		wg.Add(1)
		go func() {
			defer wg.Done()
			for h := 0; h < H; h++ {
				hp := fmt.Sprintf("10.254.%d.%d:%d", h/250, h%250+1, 30000+h)
				atomic.AddInt32(&barrier[h], 1)
				for spin := 0; atomic.LoadInt32(&barrier[h]) < int32(G) && spin < 200000; spin++ {
					if spin%64 == 63 {
						runtime.Gosched()
					}
				}
				switch r := routes[i]; {
				case r < 3:
					res[i][h] = lists[r].Add(hp)
				case r == 3:
					res[i][h] = root.Add(hp)
				default:
					res[i][h] = root.GetOrAdd(hp)
				}
			}
		}()
	}
	wg.Wait()
	rootCopy := root.Copy()
	st := ch.IntrospectState(&tchannel.IntrospectionOptions{IncludeEmptyPeers: true})
	for h := 0; h < H; h++ {
		hp := fmt.Sprintf("10.254.%d.%d:%d", h/250, h%250+1, 30000+h)
		rp := rootCopy[hp]
		if rp == nil {
			return fmt.Sprintf("stress: %s was added by %d goroutines but is not in the root peer list", hp, G), G * H
		}
		for i := 0; i < G; i++ {
			if res[i][h] != rp {
				return fmt.Sprintf("stress: %d goroutines added the fresh host:port %s at the same time; goroutine %d (route %d) holds a *Peer that is not the root peer list's peer", G, hp, i, routes[i]), G * H
			}
		}
		if got := int(st.RootPeers[hp].SCCount); got != len(listUsed) {
			return fmt.Sprintf("stress: %s is held by %d peer lists but the root peer's reference count (scCount) is %d", hp, len(listUsed), got), G * H
		}
	}
	return "", G * H
}

// ---- the engine -------------------------------------------------------------------------------

func enginePeerGoc(rng *rand.Rand, n int, tier string, o *Out) {
	ctl := &pgCtl{}
	tchannel.VerifSetHook(ctl.hook)
	defer tchannel.VerifSetHook(nil)
	hasHook := pgProbe(ctl)
	if !hasHook {
		o.Hist("library has no schedule point " + pgPoint + ": scripted races not forced")
	}

	nNet := n / 12
	if nNet < 24 {
		nNet = 24
	}
	nStress := n / 60
	if nStress < 4 {
		nStress = 4
	}
	nScript := n - nNet - nStress
	if nScript < 80 {
		nScript = 80
	}

	// 1. scripted cases: the directed ones first, then random
	directed := pgDirected()
	for c := 0; c < nScript; c++ {
		g := newPgGen(rng)
		kind := "random"
		if c < len(directed) {
			kind = fmt.Sprintf("directed racers=%d", len(directed[c][0]))
			g.directed(directed[c])
		} else {
			g.random()
		}
		obs, verdict, stuck := pgRunScript(ctl, g, hasHook, fmt.Sprintf("pgoc-%d", c))
		if stuck {
			o.Hist("scripted: infeasible (a call did not return within 5 s)")
			continue
		}
		script := g.script
		if !hasHook {
			g.races = 0
			// nothing was parked: the model replays the script with every call running to its end
			script = nil
			for i := 0; i < len(g.script); {
				if g.script[i] == 1 {
					script = append(script, g.script[i:i+5]...)
					script = append(script, 0)
					i += 6
				} else {
					i += 2
				}
			}
		}
		o.Hist(fmt.Sprintf("scripted %s, max simultaneous first-time adders of one host:port=%d", kind, g.races))
		if c < 2 || c == len(directed) {
			o.Sample(map[string]interface{}{"sub": "peergoc", "case": c, "kind": kind, "script": script})
		}
		o.Case("peergoc", fmt.Sprintf("g%d", c), script, obs, g.races >= 2, verdict)
	}

	// 2. races followed by real connections
	srv := pgNewChannel("pgoc-server")
	defer srv.Close()
	if err := srv.ListenAndServe("127.0.0.1:0"); err != nil {
		panic(err)
	}
	srvHP := srv.PeerInfo().HostPort
	netVariants := [][]int{{0, 1}, {0, 1, 3}, {1, 2}, {0, 2, 4}, {0, 1, 2}, {4, 4, 3}}
	for c := 0; c < nNet; c++ {
		racers := netVariants[c%len(netVariants)]
		perms := pgPerms(len(racers))
		order := perms[(c/len(netVariants))%len(perms)]
		gate := !hasHook || (c/len(netVariants))%2 == 1
		removeFirst := (c / 2) % 2
		verdict, infeasible := pgNetCase(ctl, srvHP, fmt.Sprintf("pgoc-net-%d", c), racers, order, gate, removeFirst)
		how := "schedule point"
		if gate {
			how = "RWMutex gate"
		}
		if infeasible != "" && verdict == "" {
			o.Hist("net: infeasible: " + infeasible)
			continue
		}
		o.Hist(fmt.Sprintf("net racers=%d forced by %s", len(racers), how))
		if c == 0 {
			o.Sample(map[string]interface{}{"sub": "peergocnet", "racers": racers, "release_order": order, "forced_by": how})
		}
		key := fmt.Sprint(racers, order, gate, removeFirst)
		o.Oracle("peergocnet", fmt.Sprintf("n%d", c), true, key, verdict)
	}

	// 3. stress
	for c := 0; c < nStress; c++ {
		verdict, adds := pgStress(rng, fmt.Sprintf("pgoc-stress-%d", c))
		o.Hist("stress")
		if c == 0 {
			o.Sample(map[string]interface{}{"sub": "peergocstress", "adds": adds})
		}
		o.Oracle("peergocstress", fmt.Sprintf("s%d", c), true, fmt.Sprint(c, adds), verdict)
	}
}
