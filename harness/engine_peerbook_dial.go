package main

// Engine "peerbook", strengthening U16 (property C16): two further scenario kinds.
//
// (A) runDial -- connection ATTEMPTS that hang, overlap other operations, then fail or complete.
//     Channel A starts Channel.Ping(H) (RootPeers().GetOrAdd(H), Peer.GetConnection: no active
//     connection, newConnLock taken, Channel.Connect); the channel's Dialer parks the attempt ("the
//     remote is restarting").  While it hangs: the remote H connects to A and the connection is
//     closed again (gracefully from either side, from both, by a socket failure, by the idle sweep),
//     PeerList Add / Remove / GetOrAdd of H, direct connects, random operations.  Then the dialer
//     returns "connection refused" (or lets the dial go on).  Script ops 12 / 13 / 14, replayed by
//     Model.PeerDial.run_peerdial (sub peerdial): the attempt touches no bookkeeping state.
//     Oracle (statement, clause 4, "at a quiescent moment" = no activation and no attempt in flight):
//     a Peer object that lost its last connection while no peer list referenced it is not in the root
//     list; while an attempt to that host:port is in flight the verdict is deferred, not dropped.
//
// (B) runRawHP -- raw peers (hand-written handshake over IPv4 loopback, so no IPv6 interface is
//     needed) that ANNOUNCE unusual host:ports: IPv6 literals with zero groups, ":0" in the middle,
//     ports "0x" / "01" / "00", and the ephemeral forms ("", "0.0.0.0:0", "<host>:0").  Inbound (raw
//     client -> channel) and outbound (channel -> raw listener, listed under the announced AND the
//     dialled host:port).  Oracle (statement): a connection is listed under the host:port its peer
//     announced, and is not ephemeral -- unless the announced host:port is "", "0.0.0.0:0" or ends
//     in ":0", then under the socket address, ephemeral.

import (
	"errors"
	"fmt"
	"net"
	"strings"
	"time"

	tchannel "github.com/uber/tchannel-go"
	"golang.org/x/net/context"
)

// ---------------------------------------------------------------------------------------------
// (A) hanging connection attempts

type pbDial struct {
	k        int // ordinal among the attempts of its channel = dial goroutine id in the model
	pc       *pbChan
	hp       string
	arrived  chan struct{}
	release  chan struct{}
	fail     bool
	res      chan error
	done     bool // Ping returned
	scripted bool // the outcome is in the channel's script (13 or 14)
}

// park runs on the dialling goroutine, inside the channel's Dialer.
func (d *pbDial) park(ctx context.Context) error {
	close(d.arrived)
	select {
	case <-d.release:
	case <-ctx.Done():
		return ctx.Err()
	}
	if d.fail {
		return &net.OpError{Op: "dial", Net: "tcp", Err: errors.New("connect: connection refused (scripted: the remote is not listening yet)")}
	}
	return nil
}

// caller holds sc.mu
func (sc *pbScenario) dialPending(pc *pbChan, hp string) bool {
	for _, d := range sc.dials {
		if d.pc == pc && d.hp == hp && !d.done {
			return true
		}
	}
	return false
}

// noteLosses remembers, at a recording point, the root Peer objects that have just lost their last
// connection while unreferenced and are still in the root list (only possible, on a correct
// library, while the verdict is deferred), and forgets those that have connections or references
// again.  Caller holds sc.mu.
func (sc *pbScenario) noteLosses(pc *pbChan, v *pbView) {
	if pc.prev != nil {
		for hp, old := range pc.prev.peers {
			obj := pc.prev.objs[hp]
			if obj == nil || len(old.in)+len(old.out) == 0 || old.sc != 0 || v.objs[hp] != obj {
				continue
			}
			if pv, ok := v.peers[hp]; ok && len(pv.in)+len(pv.out) == 0 && pv.sc == 0 {
				what := ""
				if len(sc.desc) > 0 {
					what = sc.desc[len(sc.desc)-1]
				}
				pc.gcDue[obj] = fmt.Sprintf("after operation %d: %s", len(sc.desc), what)
			}
		}
	}
	for hp, pv := range v.peers {
		if len(pv.in)+len(pv.out) > 0 || pv.sc > 0 {
			delete(pc.gcDue, v.objs[hp])
		}
	}
}

// startDial: Channel.Ping(hp) on pc whose dial hangs.  The caller made sure that pc has no active
// connection to hp.  Returns nil when the attempt did not reach the dialer.
func (sc *pbScenario) startDial(pc *pbChan, hp string) *pbDial {
	sc.mu.Lock()
	k := 0
	for _, d := range sc.dials {
		if d.pc == pc {
			k++
		}
	}
	d := &pbDial{k: k, pc: pc, hp: hp, arrived: make(chan struct{}), release: make(chan struct{}), res: make(chan error, 1)}
	pc.hang[hp] = d
	pc.script = append(pc.script, 12, sc.name(hp))
	pc.hasDial = true
	sc.dials = append(sc.dials, d)
	sc.mu.Unlock()
	sc.say("Channel.Ping(%s) on channel %d: the connection attempt hangs in the dialer (attempt %d)", hp, pc.idx, k)
	sc.o.Hist("op=dial-hang")
	go func() {
		ctx, cancel := context.WithTimeout(context.Background(), 90*time.Second)
		defer cancel()
		d.res <- pc.ch.Ping(ctx, hp)
	}()
	select {
	case <-d.arrived:
		return d
	case err := <-d.res:
		sc.mu.Lock()
		delete(pc.hang, hp)
		d.done = true
		if pc.ambiguous == "" {
			pc.ambiguous = fmt.Sprintf("a Ping that was to dial returned without dialling (%v)", err)
		}
		sc.mu.Unlock()
		sc.o.Hist("dial-not-reached")
		return nil
	case <-time.After(5 * time.Second):
		sc.mu.Lock()
		delete(pc.hang, hp)
		if pc.ambiguous == "" {
			pc.ambiguous = "a Ping that was to dial neither dialled nor returned"
		}
		sc.mu.Unlock()
		sc.o.Hist("dial-not-reached")
		return nil
	}
}

// endDial lets the parked dialer return: with an error (fail) or into the real dial.
func (sc *pbScenario) endDial(d *pbDial, fail bool) {
	sc.mu.Lock()
	if d.done {
		sc.mu.Unlock()
		return
	}
	if fail {
		d.fail = true
		d.pc.script = append(d.pc.script, 13, int64(d.k))
		d.scripted = true
	}
	sc.mu.Unlock()
	if fail {
		sc.say("the dialer of attempt %d on channel %d returns an error: connection refused", d.k, d.pc.idx)
		sc.o.Hist("op=dial-fails")
	} else {
		sc.say("the dialer of attempt %d on channel %d goes on: real dial and handshake", d.k, d.pc.idx)
		sc.o.Hist("op=dial-goes-on")
	}
	close(d.release)
	var err error
	select {
	case err = <-d.res:
	case <-time.After(20 * time.Second):
		err = errors.New("Ping did not return")
	}
	sc.mu.Lock()
	d.done = true
	if !d.scripted {
		// no handshake completed (refused: the remote closed meanwhile; the channel is closing): a failure
		d.pc.script = append(d.pc.script, 13, int64(d.k))
		d.scripted = true
		sc.o.Hist("dial-went-on-and-failed")
	} else if !fail {
		sc.o.Hist(fmt.Sprintf("dial-went-on: ping error=%v", err != nil))
	}
	sc.mu.Unlock()
}

func (sc *pbScenario) endAllDials() {
	sc.mu.Lock()
	ds := append([]*pbDial(nil), sc.dials...)
	sc.mu.Unlock()
	for _, d := range ds {
		sc.endDial(d, true)
	}
}

func (sc *pbScenario) opListHP(pc *pbChan, hp string, add bool) {
	lid := sc.rng.Intn(len(pc.lists))
	sc.mu.Lock()
	if add {
		pc.script = append(pc.script, 2, int64(lid), sc.name(hp))
	} else {
		pc.script = append(pc.script, 3, int64(lid), sc.name(hp))
	}
	sc.mu.Unlock()
	if add {
		sc.say("PeerList.Add(%s) on list %d of channel %d", hp, lid, pc.idx)
		pc.lists[lid].Add(hp)
		sc.o.Hist("op=listadd")
	} else {
		err := pc.lists[lid].Remove(hp)
		sc.say("PeerList.Remove(%s) on list %d of channel %d -> %v", hp, lid, pc.idx, err)
		sc.o.Hist("op=listremove")
	}
}

// dropConnsTo closes every active connection of pc that is listed under hp.
func (sc *pbScenario) dropConnsTo(pc *pbChan, hp string) {
	any := false
	for _, l := range sc.openLinks() {
		for _, s := range []*pbSide{l.dial, l.acc} {
			if s.pc != pc || tchannel.VerifConnState(s.conn) != 1 {
				continue
			}
			for _, h := range s.hps {
				if h == hp {
					sc.say("graceful close of connection #%d on channel %d (no connection to %s may be left)", s.ord, pc.idx, hp)
					sc.closeSide(s)
					any = true
					break
				}
			}
		}
	}
	if any {
		sc.settle()
	}
}

// the remote connects and the connection goes away again
func (sc *pbScenario) connectAndClose(from, to *pbChan) {
	sc.mu.Lock()
	before := len(sc.links)
	sc.mu.Unlock()
	parkAcc := sc.rng.Intn(5) == 0
	sc.opConnect(from, to, false, 0, parkAcc, false, sc.nestedOps(from, to, 0, parkAcc))
	sc.settle()
	sc.mu.Lock()
	var l *pbLink
	for _, x := range sc.links[before:] {
		if x.dial != nil && x.acc != nil && x.dial.pc == from && x.acc.pc == to {
			l = x
		}
	}
	sc.mu.Unlock()
	if l == nil || (tchannel.VerifConnState(l.dial.conn) != 1 && tchannel.VerifConnState(l.acc.conn) != 1) {
		return
	}
	switch sc.rng.Intn(6) {
	case 0:
		sc.opCloseConn(l, true)
	case 1:
		sc.opFail(l)
	case 2:
		sc.say("graceful close of connection #%d on channel %d (the remote closes)", l.dial.ord, from.idx)
		sc.closeSide(l.dial)
		sc.o.Hist("op=closeconn")
	case 3:
		sc.say("graceful close of connection #%d on channel %d (the accepting side closes)", l.acc.ord, to.idx)
		sc.closeSide(l.acc)
		sc.o.Hist("op=closeconn")
	case 4:
		sc.opSweep(to)
	default:
		sc.opCloseConn(l, false)
	}
}

func (sc *pbScenario) runDial(j, nops int) {
	if pre := sc.rng.Intn(3); pre > 0 {
		sc.run(pre)
	}
	type pair struct{ a, b *pbChan }
	var cands []pair
	for _, a := range sc.chans {
		for _, b := range sc.servers() {
			if a != b && !a.closed && !b.closed {
				cands = append(cands, pair{a, b})
			}
		}
	}
	if len(cands) == 0 {
		sc.run(2)
		return
	}
	p := cands[sc.rng.Intn(len(cands))]
	A, B := p.a, p.b
	hp := B.hp
	if sc.rng.Intn(8) == 0 {
		hp = pbAlias(B.hp)
	}
	sc.dropConnsTo(A, hp)
	d := sc.startDial(A, hp)
	sc.settle()
	if d == nil {
		return
	}
	m := 1 + sc.rng.Intn(3)
	for i := 0; i < m; i++ {
		r := sc.rng.Intn(100)
		if i == 0 && j%2 == 0 {
			r = 0 // directed: the remote connects and the connection goes away while the attempt hangs
		}
		switch {
		case r < 45 && !A.closed && !B.closed && A.hp != "":
			sc.o.Hist("during-dial=remote-connects-and-connection-goes")
			sc.connectAndClose(B, A)
		case r < 55:
			sc.o.Hist("during-dial=list-add")
			sc.opListHP(A, hp, true)
		case r < 63:
			sc.o.Hist("during-dial=list-remove")
			sc.opListHP(A, hp, false)
		case r < 70:
			sc.o.Hist("during-dial=getoradd")
			sc.mu.Lock()
			A.script = append(A.script, 5, sc.name(hp))
			sc.mu.Unlock()
			sc.say("RootPeers().GetOrAdd(%s) on channel %d", hp, A.idx)
			A.ch.RootPeers().GetOrAdd(hp)
			sc.o.Hist("op=getoradd")
		case r < 78:
			sc.o.Hist("during-dial=sweep")
			sc.opSweep(A)
		case r < 88 && !A.closed && !B.closed:
			sc.o.Hist("during-dial=direct-connect")
			sc.opConnect(A, B, false, 0, false, false, nil)
		default:
			sc.o.Hist("during-dial=random-op")
			sc.run(1)
		}
		sc.settle()
	}
	fail := sc.rng.Intn(10) < 7 || B.closed || A.closed
	sc.endDial(d, fail)
	sc.settle()
	if post := sc.rng.Intn(3); post > 0 {
		sc.run(post)
	}
}

// ---------------------------------------------------------------------------------------------
// (B) raw peers announcing unusual host:ports

type pbRaw struct {
	sock      net.Conn
	ln        net.Listener
	side      *pbSide
	announced string
	gone      bool
}

func (r *pbRaw) close() {
	if r.sock != nil {
		r.sock.Close()
	}
	if r.ln != nil {
		r.ln.Close()
	}
}

// the statement's notion of an ephemeral host:port: "", "0.0.0.0:0", "<host>:0"
func pbEphemeralSpec(hp string) bool {
	return hp == "" || hp == "0.0.0.0:0" || strings.HasSuffix(hp, ":0")
}

var pbOddHostPorts = []string{
	// listening IPv6 peers: zero groups that "::" did not swallow (RFC 5952)
	"[2001:db8:0:1::5]:4040",
	"[fd00:0:0:1::2]:21300",
	"[2001:0:4137:9e76::1]:80",
	"[fe80::1:0:0]:7",
	"[::0]:5000",
	"[2001:db8::]:0123",
	"[2001:db8:0:0:0:0:0:1]:1",
	// ":0" inside, ports that merely start with 0
	"10.0.0.7:0x",
	"10.0.0.7:01",
	"10.0.0.7:00",
	"host:01",
	"h:0:1",
	"a:0b",
	"0.0.0.0:01",
	"0.0.0.0:0 ",
	":0:5",
	"[::1]:4040",
	"svc.example:0:8080",
	// ephemeral ones
	"",
	"0.0.0.0:0",
	"10.1.2.3:0",
	"[2001:db8:0:1::5]:0",
	"host:0",
	":0",
}

func pbRawDrain(c net.Conn) {
	buf := make([]byte, 4096)
	for {
		if _, err := c.Read(buf); err != nil {
			return
		}
	}
}

func (sc *pbScenario) flagRaw(pc *pbChan, msg string) {
	sc.mu.Lock()
	if pc.verdict == "" {
		pc.verdict = fmt.Sprintf("%s (channel %d, operation %d: %s)", msg, pc.idx, len(sc.desc), sc.desc[len(sc.desc)-1])
	}
	sc.mu.Unlock()
}

// judgeRaw: the connection of a raw peer that announced `announced` (socket address sockAddr as seen
// from the channel) must be identified by the announced host:port, unless that is ephemeral.
func (sc *pbScenario) judgeRaw(pc *pbChan, s *pbSide, announced, sockAddr string) {
	want, eph := announced, pbEphemeralSpec(announced)
	if eph {
		want = sockAddr
	}
	sc.o.Hist(fmt.Sprintf("raw announced ephemeral=%v", eph))
	pi := s.conn.RemotePeerInfo()
	switch {
	case s.info.RemoteHP != want || pi.HostPort != want:
		sc.flagRaw(pc, fmt.Sprintf("%s connection #%d: the peer announced host:port %q (socket address %s) but the connection is registered under %q (RemotePeerInfo %q), expected %q",
			[]string{"", "inbound", "outbound"}[s.info.Dir], s.ord, announced, sockAddr, s.info.RemoteHP, pi.HostPort, want))
	case pi.IsEphemeral != eph:
		sc.flagRaw(pc, fmt.Sprintf("%s connection #%d: the peer announced host:port %q but RemotePeerInfo().IsEphemeral = %v, expected %v",
			[]string{"", "inbound", "outbound"}[s.info.Dir], s.ord, announced, pi.IsEphemeral, eph))
	}
}

// judgeRawListed (after the settle): listed under the expected key(s) at the quiescent moment
func (sc *pbScenario) judgeRawListed(pc *pbChan, s *pbSide, keys []string) {
	if tchannel.VerifConnState(s.conn) != 1 {
		return
	}
	st := pc.ch.IntrospectState(&tchannel.IntrospectionOptions{IncludeEmptyPeers: true})
	for _, key := range keys {
		found := false
		if ps, ok := st.RootPeers[key]; ok {
			list := ps.InboundConnections
			if s.info.Dir == 2 {
				list = ps.OutboundConnections
			}
			for _, c := range list {
				if c.ID == s.id {
					found = true
				}
			}
		}
		if !found {
			sc.mu.Lock()
			tainted := pc.tainted[key]
			sc.mu.Unlock()
			if !tainted {
				sc.flagRaw(pc, fmt.Sprintf("active %s connection #%d is not listed under root peer %q at a quiescent moment",
					[]string{"", "inbound", "outbound"}[s.info.Dir], s.ord, key))
			}
		}
	}
}

func pbRawParams(hp string) [][2]string {
	return [][2]string{{"host_port", hp}, {"process_name", "verif-raw-c16"}, {"tchannel_language", "spec"}}
}

// a raw client connects to server channel pc and announces hp
func (sc *pbScenario) opRawIn(pc *pbChan, hp string) {
	sc.say("raw peer connects to channel %d and announces host:port %q", pc.idx, hp)
	sc.o.Hist("op=raw-inbound")
	c, err := net.DialTimeout("tcp", pc.hp, 2*time.Second)
	if err != nil {
		sc.o.Hist("raw-inbound-refused")
		return
	}
	raw := &pbRaw{sock: c, announced: hp}
	sc.mu.Lock()
	sc.raws = append(sc.raws, raw)
	sc.mu.Unlock()
	if err := writeRawFrame(c, 0x01, 1, rawInitPayload(2, pbRawParams(hp))); err != nil {
		sc.o.Hist("raw-inbound-no-handshake")
		return
	}
	f, err := readRawFrame(c, 2*time.Second)
	if err != nil || f.Type != 0x02 {
		sc.o.Hist("raw-inbound-no-handshake")
		return
	}
	go pbRawDrain(c)
	key := c.RemoteAddr().String() + "|" + c.LocalAddr().String()
	var s *pbSide
	for dl := time.Now().Add(2 * time.Second); time.Now().Before(dl); time.Sleep(200 * time.Microsecond) {
		sc.mu.Lock()
		s = sc.byAddr[key]
		sc.mu.Unlock()
		if s != nil {
			break
		}
	}
	if s == nil {
		sc.o.Hist("raw-inbound-not-registered")
		return
	}
	raw.side = s
	sc.judgeRaw(pc, s, hp, c.LocalAddr().String())
	sc.settle()
	want := hp
	if pbEphemeralSpec(hp) {
		want = c.LocalAddr().String()
	}
	sc.judgeRawListed(pc, s, []string{want})
}

// channel pc connects to a raw listener that announces hp in its init res
func (sc *pbScenario) opRawOut(pc *pbChan, hp string) {
	ln, err := net.Listen("tcp", "127.0.0.1:0")
	if err != nil {
		return
	}
	addr := ln.Addr().String()
	sc.say("channel %d connects to a raw listener at %s that announces host:port %q", pc.idx, addr, hp)
	sc.o.Hist("op=raw-outbound")
	raw := &pbRaw{ln: ln, announced: hp}
	sc.mu.Lock()
	sc.raws = append(sc.raws, raw)
	sc.mu.Unlock()
	go func() {
		c, err := ln.Accept()
		if err != nil {
			return
		}
		sc.mu.Lock()
		raw.sock = c
		sc.mu.Unlock()
		f, err := readRawFrame(c, 2*time.Second)
		if err != nil || f.Type != 0x01 {
			c.Close()
			return
		}
		if err := writeRawFrame(c, 0x02, f.ID, rawInitPayload(2, pbRawParams(hp))); err != nil {
			return
		}
		pbRawDrain(c)
	}()
	ctx, cancel := context.WithTimeout(context.Background(), 5*time.Second)
	defer cancel()
	conn, err := pc.ch.Connect(ctx, addr)
	sc.afterConnect(pc, &pbConnRes{conn, err})
	if err != nil || conn == nil {
		sc.settle()
		return
	}
	sc.mu.Lock()
	s := sc.sides[tchannel.VerifConnInfoOf(conn).ID]
	sc.mu.Unlock()
	if s == nil {
		sc.settle()
		return
	}
	raw.side = s
	sc.judgeRaw(pc, s, hp, addr)
	sc.settle()
	keys := []string{addr}
	if !pbEphemeralSpec(hp) {
		keys = append(keys, hp)
	}
	if s.accepted {
		sc.judgeRawListed(pc, s, keys)
	}
}

func (sc *pbScenario) opRawClose() bool {
	sc.mu.Lock()
	var live []*pbRaw
	for _, r := range sc.raws {
		if !r.gone && r.side != nil && r.sock != nil && tchannel.VerifConnState(r.side.conn) == 1 {
			live = append(live, r)
		}
	}
	sc.mu.Unlock()
	if len(live) == 0 {
		return false
	}
	r := live[sc.rng.Intn(len(live))]
	r.gone = true
	sc.say("the raw peer that announced %q closes its socket (connection #%d of channel %d)", r.announced, r.side.ord, r.side.pc.idx)
	sc.o.Hist("op=raw-close")
	r.sock.Close()
	return true
}

func (sc *pbScenario) runRawHP(j, nops int) {
	if pre := sc.rng.Intn(3); pre > 0 {
		sc.run(pre)
	}
	open := func(serversOnly bool) []*pbChan {
		var r []*pbChan
		for _, pc := range sc.chans {
			if !pc.closed && (!serversOnly || pc.hp != "") {
				r = append(r, pc)
			}
		}
		return r
	}
	m := 3 + sc.rng.Intn(4)
	var lastHP string
	for i := 0; i < m; i++ {
		hp := pbOddHostPorts[(j*5+i)%len(pbOddHostPorts)]
		if sc.rng.Intn(4) == 0 {
			hp = pbOddHostPorts[sc.rng.Intn(len(pbOddHostPorts))]
		}
		if lastHP != "" && sc.rng.Intn(4) == 0 {
			hp = lastHP // a second connection of the same announced host:port
		}
		r := sc.rng.Intn(100)
		switch srv, all := open(true), open(false); {
		case (r < 42 || i == 0) && len(srv) > 0:
			lastHP = hp
			sc.opRawIn(srv[sc.rng.Intn(len(srv))], hp) // settles
		case r < 64 && len(all) > 0:
			lastHP = hp
			sc.opRawOut(all[sc.rng.Intn(len(all))], hp) // settles
		case r < 80:
			if !sc.opRawClose() {
				sc.run(1)
			} else {
				sc.settle()
			}
		case r < 88 && len(all) > 0 && hp != "":
			sc.opListHP(all[sc.rng.Intn(len(all))], hp, sc.rng.Intn(3) != 0)
			sc.settle()
		default:
			sc.run(1)
		}
	}
	if post := sc.rng.Intn(2); post > 0 {
		sc.run(post)
	}
}
