package main

import (
	"bufio"
	"encoding/json"
	"fmt"
	"math/rand"
	"os"
	"path/filepath"
	"sort"
	"strconv"
	"strings"
)

// Out collects, for one engine run, the case inputs, the implementation's observables,
// the verdicts of the property oracle and statistics about the generated distribution.
type Out struct {
	engine   string
	dir      string
	cases    *bufio.Writer
	impl     *bufio.Writer
	oracle   *bufio.Writer
	files    []*os.File
	n        int
	fails    int
	hist     map[string]int
	samples  []interface{}
	distinct map[string]struct{}
}

func newOut(engine, dir string) *Out {
	o := &Out{engine: engine, dir: dir, hist: map[string]int{}, distinct: map[string]struct{}{}}
	mk := func(suffix string) *bufio.Writer {
		f, err := os.Create(filepath.Join(dir, engine+suffix))
		if err != nil {
			panic(err)
		}
		o.files = append(o.files, f)
		return bufio.NewWriterSize(f, 1<<20)
	}
	o.cases, o.impl, o.oracle = mk(".cases"), mk(".impl"), mk(".oracle")
	return o
}

func ints(xs []int64) string {
	var b strings.Builder
	for _, x := range xs {
		b.WriteByte(' ')
		b.WriteString(strconv.FormatInt(x, 10))
	}
	return b.String()
}

// Case records one case: model input, implementation observable (same encoding as the
// model's output), and the oracle verdict ("" = property holds on this case).
// sub selects the model entry point (engine name in the runner).
func (o *Out) Case(sub string, id string, in []int64, obs []int64, nontrivial bool, verdict string) {
	o.n++
	fmt.Fprintf(o.cases, "%s %s%s\n", sub, id, ints(in))
	fmt.Fprintf(o.impl, "%s %s%s\n", sub, id, ints(obs))
	if verdict != "" {
		o.fails++
		fmt.Fprintf(o.oracle, "%s %s FAIL %s\n", sub, id, verdict)
	}
	if nontrivial {
		key := sub + ints(in)
		if len(key) > 4096 {
			key = key[:4096] + fmt.Sprint(len(key))
		}
		o.distinct[key] = struct{}{}
	}
}

// Raw observable that has no model counterpart (oracle only).
func (o *Out) Oracle(sub, id string, nontrivial bool, key string, verdict string) {
	o.n++
	if verdict != "" {
		o.fails++
		fmt.Fprintf(o.oracle, "%s %s FAIL %s\n", sub, id, verdict)
	}
	if nontrivial {
		o.distinct[sub+" "+key] = struct{}{}
	}
}

func (o *Out) Hist(k string) { o.hist[k]++ }

func (o *Out) Sample(v interface{}) {
	if len(o.samples) < 5 {
		o.samples = append(o.samples, v)
	}
}

func (o *Out) Close() {
	o.cases.Flush()
	o.impl.Flush()
	o.oracle.Flush()
	for _, f := range o.files {
		f.Close()
	}
	keys := make([]string, 0, len(o.hist))
	for k := range o.hist {
		keys = append(keys, k)
	}
	sort.Strings(keys)
	st := map[string]interface{}{
		"engine": o.engine, "evaluations": o.n, "oracle_failures": o.fails,
		"distinct_nontrivial": len(o.distinct), "histogram": o.hist, "samples": o.samples,
	}
	b, _ := json.MarshalIndent(st, "", " ")
	os.WriteFile(filepath.Join(o.dir, o.engine+".stats.json"), b, 0o644)
}

func putBytes(dst []int64, b []byte) []int64 {
	dst = append(dst, int64(len(b)))
	for _, c := range b {
		dst = append(dst, int64(c))
	}
	return dst
}

func b2i(b bool) int64 {
	if b {
		return 1
	}
	return 0
}

type engineFn func(rng *rand.Rand, n int, tier string, o *Out)

var engines = map[string]engineFn{}

func main() {
	if len(os.Args) >= 3 && os.Args[1] == "child" {
		runChild(os.Args[2])
		return
	}
	if len(os.Args) < 5 {
		fmt.Fprintln(os.Stderr, "usage: harness <engine> <seed> <n> <outdir> [tier]  |  harness replay <engine> <casefile> <outdir>")
		os.Exit(2)
	}
	name := os.Args[1]
	if name == "child" {
		runChild(os.Args[2])
		return
	}
	seed, _ := strconv.ParseInt(os.Args[2], 10, 64)
	n, _ := strconv.Atoi(os.Args[3])
	dir := os.Args[4]
	tier := "quick"
	if len(os.Args) > 5 {
		tier = os.Args[5]
	}
	fn, ok := engines[name]
	if !ok {
		fmt.Fprintln(os.Stderr, "unknown engine", name)
		os.Exit(2)
	}
	os.MkdirAll(dir, 0o755)
	o := newOut(name, dir)
	fn(rand.New(rand.NewSource(seed)), n, tier, o)
	o.Close()
}
