package main

import (
	"bytes"
	"fmt"
	"io"
	"math/rand"
	"strings"
	"sync"
	"sync/atomic"
	"time"

	tchannel "github.com/uber/tchannel-go"
	"golang.org/x/net/context"
)

// c01early (C01, sub fragiowire_early): handlers that ANSWER FIRST and read the rest of their
// request afterwards ("202 accepted", an early answer of a streaming endpoint), end to end over
// real channels, on a server whose connections use a recycling FramePool handed in through the
// public ConnectionOptions.FramePool hook:
//
//	lifo          the frame released last is handed out first (what sync.Pool does per P, made
//	              deterministic)
//	lifo+poison   the same, and Release overwrites the payload array (a pool owns what it was
//	              given back; the C12 pools do the same)
//
// One case: the caller writes arg2 and an arg3 of 1 .. 4 frames; the handler reads up to a chosen
// point of the request (nothing / arg2 / arg2 and the first k bytes of arg3, k anywhere in arg3),
// writes its COMPLETE response, and waits.  The caller reads the response.  Then, in most cases, a
// second call with a request of 2 .. 3 frames of other bytes arrives on the same connection (its
// handler does not read yet, so the connection's read loop takes every frame it needs from the
// pool).  Only then the first handler reads the rest of its request with Reads of a chosen size.
//
// Oracle, from the statement ("the peer reads back exactly the same three byte strings ... or an
// error, never shifted, truncated or foreign data reported as success"): every byte a Read of the
// handler returned with a nil error is the byte the caller wrote at that position of that argument;
// an argument that was read to io.EOF and closed without an error is the whole argument.  An error
// (the call's context ends when the response is complete, so fragments that were not yet fetched
// are refused) is fine.  The second call is checked the same way.  A step of the schedule that does
// not happen within its (generous) timeout makes the case infeasible, never a failure.

func init() { engines["c01early"] = engineC01Early }

type c01ePool struct {
	mu     sync.Mutex
	frames []*tchannel.Frame
	gets   int32
	poison bool
}

const c01ePoisonByte = 0xDB

func (p *c01ePool) Get() *tchannel.Frame {
	atomic.AddInt32(&p.gets, 1)
	p.mu.Lock()
	defer p.mu.Unlock()
	if n := len(p.frames); n > 0 {
		f := p.frames[n-1]
		p.frames = p.frames[:n-1]
		return f
	}
	return tchannel.NewFrame(tchannel.MaxFramePayloadSize)
}

func (p *c01ePool) Release(f *tchannel.Frame) {
	if p.poison {
		for i := range f.Payload {
			f.Payload[i] = c01ePoisonByte
		}
	}
	p.mu.Lock()
	p.frames = append(p.frames, f)
	p.mu.Unlock()
}

// what the handler of the first call does
type c01ePlan struct {
	respondAt int // 0: before reading anything; 1: after arg2; 2: after arg2 and pre bytes of arg3
	pre       int
	readSize  int // size of the Reads made after the response
	resLen    int // length of the response's arg3
	sysErr    bool
}

type c01eResult struct {
	arg2, arg3 []byte // the bytes successful Reads returned
	done2      bool   // arg2 read to EOF and closed without an error
	done3      bool
	err        error
	stage      string
}

// c01eReadSome reads up to max bytes (max < 0: to EOF, then Close) with Reads of size sz; the
// bytes of every Read that returned a nil error (or io.EOF) are appended to *dst.
func c01eReadSome(r tchannel.ArgReader, dst *[]byte, sz, max int) (eof bool, err error) {
	buf := make([]byte, sz)
	for max < 0 || len(*dst) < max {
		b := buf
		if max >= 0 && max-len(*dst) < len(b) {
			b = b[:max-len(*dst)]
		}
		n, err := r.Read(b)
		if err == nil || err == io.EOF {
			*dst = append(*dst, b[:n]...)
		}
		if err == io.EOF {
			return true, nil
		}
		if err != nil {
			return false, err
		}
	}
	return false, nil
}

type c01eHandler struct {
	mu        sync.Mutex
	plan      c01ePlan
	resBody   []byte
	respondGo chan struct{}
	responded chan struct{}
	resume    chan struct{}
	result    chan c01eResult
	sinkGo    chan struct{}
	sinkRes   chan c01eResult
}

func (h *c01eHandler) early(ctx context.Context, call *tchannel.InboundCall) {
	h.mu.Lock()
	plan, resBody := h.plan, h.resBody
	respondGo, responded, resume, result := h.respondGo, h.responded, h.resume, h.result
	h.mu.Unlock()
	var res c01eResult
	fail := func(stage string, err error) {
		res.stage, res.err = stage, err
		select {
		case <-responded:
		default:
			close(responded)
		}
		result <- res
	}
	var r2, r3 tchannel.ArgReader
	var err error
	if plan.respondAt >= 1 {
		if r2, err = call.Arg2Reader(); err != nil {
			fail("arg2 reader before the response", err)
			return
		}
		if _, err = c01eReadSome(r2, &res.arg2, 4096, -1); err == nil {
			err = r2.Close()
		}
		if err != nil {
			fail("reading arg2 before the response", err)
			return
		}
		res.done2 = true
	}
	if plan.respondAt == 2 {
		if r3, err = call.Arg3Reader(); err != nil {
			fail("arg3 reader before the response", err)
			return
		}
		if _, err = c01eReadSome(r3, &res.arg3, 30000, plan.pre); err != nil {
			fail("reading the first bytes of arg3 before the response", err)
			return
		}
	}
	select {
	case <-respondGo:
	case <-time.After(20 * time.Second):
		fail("waiting for the request to arrive", fmt.Errorf("c01e-timeout"))
		return
	}
	// the complete response
	resp := call.Response()
	if plan.sysErr {
		resp.SendSystemError(tchannel.NewSystemError(tchannel.ErrCodeBusy, "c01e busy"))
	} else {
		w2, err := resp.Arg2Writer()
		if err == nil {
			err = w2.Close()
		}
		if err == nil {
			var w3 tchannel.ArgWriter
			if w3, err = resp.Arg3Writer(); err == nil {
				if _, err = w3.Write(resBody); err == nil {
					err = w3.Close()
				}
			}
		}
		if err != nil {
			fail("writing the response", err)
			return
		}
	}
	close(responded)
	select {
	case <-resume:
	case <-time.After(30 * time.Second):
		res.stage, res.err = "waiting to resume", fmt.Errorf("c01e-timeout")
		result <- res
		return
	}
	// the rest of the request
	if plan.respondAt == 0 {
		if r2, err = call.Arg2Reader(); err == nil {
			if _, err = c01eReadSome(r2, &res.arg2, plan.readSize, -1); err == nil {
				if err = r2.Close(); err == nil {
					res.done2 = true
				}
			}
		}
		if err != nil {
			res.stage, res.err = "arg2 after the response", err
			result <- res
			return
		}
	}
	if r3 == nil {
		if r3, err = call.Arg3Reader(); err != nil {
			res.stage, res.err = "arg3 reader after the response", err
			result <- res
			return
		}
	}
	if _, err = c01eReadSome(r3, &res.arg3, plan.readSize, -1); err == nil {
		if err = r3.Close(); err == nil {
			res.done3 = true
		}
	}
	res.stage, res.err = "arg3 after the response", err
	result <- res
}

func (h *c01eHandler) sink(ctx context.Context, call *tchannel.InboundCall) {
	h.mu.Lock()
	sinkGo, sinkRes := h.sinkGo, h.sinkRes
	h.mu.Unlock()
	select {
	case <-sinkGo:
	case <-time.After(30 * time.Second):
	}
	var res c01eResult
	r2, err := call.Arg2Reader()
	if err == nil {
		if _, err = c01eReadSome(r2, &res.arg2, 4096, -1); err == nil {
			if err = r2.Close(); err == nil {
				res.done2 = true
			}
		}
	}
	if err == nil {
		var r3 tchannel.ArgReader
		if r3, err = call.Arg3Reader(); err == nil {
			if _, err = c01eReadSome(r3, &res.arg3, 100000, -1); err == nil {
				if err = r3.Close(); err == nil {
					res.done3 = true
				}
			}
		}
	}
	res.err = err
	resp := call.Response()
	if err != nil {
		resp.SendSystemError(err)
	} else if w2, err := resp.Arg2Writer(); err == nil {
		w2.Close()
		if w3, err := resp.Arg3Writer(); err == nil {
			w3.Write([]byte("ok"))
			w3.Close()
		}
	}
	sinkRes <- res
}

// c01eJudge: the bytes successful Reads returned vs the bytes the caller wrote.
func c01eJudge(what string, got, want []byte, done bool, other []byte) string {
	describe := func(i int) string {
		end := imin(i+16, len(got))
		win := got[i:end]
		src := ""
		switch {
		case bytes.Count(win, []byte{c01ePoisonByte}) == len(win):
			src = " (the pattern the frame pool writes over a frame that was RELEASED to it: the frame had been given back while the reader was still parsed into it)"
		case len(win) >= 8 && other != nil && bytes.Contains(other, win):
			src = " (bytes of the OTHER call that arrived on the connection meanwhile: the frame had been given back and reused while the reader was still parsed into it)"
		}
		return fmt.Sprintf("byte %d of %s read with a nil error is 0x%02x, the caller wrote 0x%02x%s", i, what, got[i], want[i], src)
	}
	for i := 0; i < len(got) && i < len(want); i++ {
		if got[i] != want[i] {
			return describe(i) + ": foreign data reported as success"
		}
	}
	if len(got) > len(want) {
		return fmt.Sprintf("%s: %d bytes were read with a nil error, the caller wrote %d: foreign data reported as success", what, len(got), len(want))
	}
	if done && len(got) != len(want) {
		return fmt.Sprintf("%s was read to io.EOF and closed without an error after %d bytes, the caller wrote %d: truncated data reported as success", what, len(got), len(want))
	}
	return ""
}

func c01eWrite(w tchannel.ArgWriter, err error, data []byte) error {
	if err != nil {
		return err
	}
	if _, err := w.Write(data); err != nil {
		return err
	}
	return w.Close()
}

func c01eReadAll(r tchannel.ArgReader, err error) ([]byte, error) {
	if err != nil {
		return nil, err
	}
	var out []byte
	if _, err := c01eReadSome(r, &out, 100000, -1); err != nil {
		return out, err
	}
	return out, r.Close()
}

func engineC01Early(rng *rand.Rand, n int, tier string, o *Out) {
	// more than the argument bytes any frame carries (65519 - headers) by a little: k-1 of these plus
	// 1 .. 60000 bytes are exactly k frames for k <= 5 and an arg2 of at most 3000 bytes
	const frameCap = 65536
	type world struct {
		pool   *c01ePool
		server *tchannel.Channel
		client *tchannel.Channel
		h      *c01eHandler
	}
	mkWorld := func(poison bool) *world {
		w := &world{pool: &c01ePool{poison: poison}, h: &c01eHandler{}}
		opts := &tchannel.ChannelOptions{DefaultConnectionOptions: tchannel.ConnectionOptions{FramePool: w.pool}}
		var err error
		if w.server, err = tchannel.NewChannel("c01e-svc", opts); err != nil {
			panic(err)
		}
		w.server.Register(tchannel.HandlerFunc(w.h.early), "early")
		w.server.Register(tchannel.HandlerFunc(w.h.sink), "sink")
		if err = w.server.ListenAndServe("127.0.0.1:0"); err != nil {
			panic(err)
		}
		if w.client, err = tchannel.NewChannel("c01e-client", nil); err != nil {
			panic(err)
		}
		// the connection exists before the first case: from then on the server's read loop
		// takes exactly one frame from the pool per frame it reads
		ctx, cancel := tchannel.NewContextBuilder(10 * time.Second).Build()
		defer cancel()
		if err = w.client.Ping(ctx, w.server.PeerInfo().HostPort); err != nil {
			panic(err)
		}
		time.Sleep(20 * time.Millisecond)
		return w
	}
	worlds := []*world{mkWorld(false), mkWorld(true)}
	defer func() {
		for _, w := range worlds {
			w.client.Close()
			w.server.Close()
		}
	}()
	waitGets := func(p *c01ePool, from int32, k int, d time.Duration) bool {
		deadline := time.Now().Add(d)
		for atomic.LoadInt32(&p.gets)-from < int32(k) {
			if time.Now().After(deadline) {
				return false
			}
			time.Sleep(2 * time.Millisecond)
		}
		return true
	}
	failures := 0
	for c := 0; c < n; c++ {
		if failures >= 3 {
			o.Hist("early cases skipped after 3 failures")
			continue
		}
		w := worlds[c%2]
		// the first cases walk through the family, then random
		respondAt := (c / 2) % 3
		frames1 := 1 + (c/6)%3 // 1, 2, 3 frames
		if c >= 18 {
			respondAt = rng.Intn(3)
			frames1 = pick(rng, 1, 1, 2, 3, 4)
		}
		len2 := pick(rng, 0, 2, 40, 3000)
		var len3 int
		if frames1 == 1 {
			len3 = pick(rng, 1, 7, 1000, 20000, 60000)
		} else {
			len3 = (frames1-1)*frameCap + pick(rng, 1, 1000, 30000)
		}
		plan := c01ePlan{respondAt: respondAt, readSize: pick(rng, 1<<20, 100000, 4096, 512, 65536), resLen: pick(rng, 0, 8, 8, 2000, 70000)}
		if len3 <= 1000 && rng.Intn(3) == 0 {
			plan.readSize = pick(rng, 1, 3, 64)
		}
		if respondAt == 2 {
			// anywhere in arg3 except its end: inside the first frame, or in a later one
			plan.pre = rng.Intn(len3)
			if rng.Intn(2) == 0 {
				plan.pre = rng.Intn(imin(len3, 50000))
			}
		}
		second := c%5 != 4 // 4 of 5 cases with a second call in between
		// every 6th case: the handler FAILS its call (SendSystemError) instead of answering it, and reads on
		plan.sysErr = c%6 == 5
		frames2 := pick(rng, 2, 3, 3) // an exchange buffers 2 frames: the read loop waits with the 4th frame of a request nobody reads
		arg2 := []byte(randBytes(rng, len2))
		arg3 := []byte(randBytes(rng, len3))
		other := []byte(randBytes(rng, (frames2-1)*frameCap+pick(rng, 10000, 40000, 60000)))
		resBody := []byte(randBytes(rng, plan.resLen))
		desc := fmt.Sprintf("server FramePool %s; request arg2 of %d bytes, arg3 of %d bytes (%d frames); the handler %s, answers completely (response arg3 of %d bytes), %s, and reads the rest of its request with Reads of %d bytes",
			map[bool]string{false: "LIFO", true: "LIFO that overwrites released frames"}[w.pool.poison], len2, len3, frames1,
			[]string{"reads nothing", "reads arg2", fmt.Sprintf("reads arg2 and %d bytes of arg3", plan.pre)}[respondAt], plan.resLen,
			map[bool]string{true: fmt.Sprintf("a second call with a request of %d frames arrives on the connection", frames2), false: "no other call arrives"}[second], plan.readSize)
		if c < 3 {
			o.Sample(map[string]interface{}{"sub": "fragiowire_early", "desc": desc})
		}
		h := w.h
		h.mu.Lock()
		h.plan, h.resBody = plan, resBody
		h.respondGo, h.responded, h.resume = make(chan struct{}), make(chan struct{}), make(chan struct{})
		h.result = make(chan c01eResult, 1)
		h.sinkGo, h.sinkRes = make(chan struct{}), make(chan c01eResult, 1)
		h.mu.Unlock()
		verdict, infeasible := "", ""
		func() {
			ctx, cancel := tchannel.NewContextBuilder(40 * time.Second).Build()
			defer cancel()
			hp := w.server.PeerInfo().HostPort
			defer func() {
				select {
				case <-h.resume:
				default:
					close(h.resume)
				}
			}()
			g0 := atomic.LoadInt32(&w.pool.gets)
			call, err := w.client.BeginCall(ctx, hp, "c01e-svc", "early", nil)
			if err != nil {
				infeasible = "BeginCall: " + err.Error()
				close(h.respondGo)
				return
			}
			w2, err := call.Arg2Writer()
			if err = c01eWrite(w2, err, arg2); err == nil {
				w3, err3 := call.Arg3Writer()
				err = c01eWrite(w3, err3, arg3)
			}
			if err != nil {
				close(h.respondGo)
				verdict = "the caller could not write its request: " + err.Error()
				return
			}
			// every frame of the request has reached the server (its read loop takes one frame
			// from the pool per frame read, and one more to wait in)
			ok := waitGets(w.pool, g0, frames1, 10*time.Second)
			close(h.respondGo)
			if !ok {
				infeasible = "the request did not arrive"
				return
			}
			select {
			case <-h.responded:
			case <-time.After(20 * time.Second):
				infeasible = "the handler did not answer"
				return
			}
			r2, err := call.Response().Arg2Reader()
			_, err = c01eReadAll(r2, err)
			var got []byte
			if err == nil {
				r3, err3 := call.Response().Arg3Reader()
				got, err = c01eReadAll(r3, err3)
			}
			if plan.sysErr {
				if err == nil {
					verdict = "the handler failed the call with a busy error, the caller read a response without an error"
					return
				}
				err, got = nil, resBody
			}
			switch {
			case err != nil:
				verdict = "the handler wrote a complete response without an error, the caller failed to read it: " + err.Error()
				return
			case !bytes.Equal(got, resBody):
				verdict = fmt.Sprintf("the caller read a response arg3 of %d bytes, the handler wrote %d%s", len(got), len(resBody), fioFirstDiff(got, resBody))
				return
			}
			var sinkDone chan error
			if second {
				g1 := atomic.LoadInt32(&w.pool.gets)
				sinkDone = make(chan error, 1)
				go func() {
					call2, err := w.client.BeginCall(ctx, hp, "c01e-svc", "sink", nil)
					if err == nil {
						w2, err2 := call2.Arg2Writer()
						if err = c01eWrite(w2, err2, []byte("other")); err == nil {
							w3, err3 := call2.Arg3Writer()
							err = c01eWrite(w3, err3, other)
						}
					}
					if err == nil {
						r2, err2 := call2.Response().Arg2Reader()
						if _, err = c01eReadAll(r2, err2); err == nil {
							r3, err3 := call2.Response().Arg3Reader()
							_, err = c01eReadAll(r3, err3)
						}
					}
					sinkDone <- err
				}()
				if !waitGets(w.pool, g1, frames2, 10*time.Second) {
					infeasible = "the second call's request did not arrive"
				}
			}
			close(h.resume)
			var res c01eResult
			select {
			case res = <-h.result:
			case <-time.After(30 * time.Second):
				infeasible = "the handler did not finish"
			}
			close(h.sinkGo)
			if second {
				select {
				case err := <-sinkDone:
					sres := <-h.sinkRes
					if v := c01eJudge("arg3 of the second call", sres.arg3, other, sres.done3, arg3); v != "" && verdict == "" {
						verdict = v
					} else if err != nil && infeasible == "" {
						verdict = fmt.Sprintf("the second call, an ordinary call whose handler reads its arguments before it answers, failed: %v (handler: %v)", err, sres.err)
					}
				case <-time.After(30 * time.Second):
					if infeasible == "" {
						infeasible = "the second call did not finish"
					}
				}
			}
			if infeasible != "" {
				return
			}
			if v := c01eJudge("arg2", res.arg2, arg2, res.done2, other); v != "" {
				verdict = v
			} else if v := c01eJudge("arg3", res.arg3, arg3, res.done3, other); v != "" {
				verdict = v
			}
			switch {
			case res.done3:
				o.Hist("early: the handler read its whole request after answering")
			case res.err != nil:
				o.Hist("early: the handler got an error for the part of its request it had not fetched")
			}
		}()
		if infeasible != "" && verdict == "" {
			o.Hist("early: infeasible (" + infeasible + ")")
			continue
		}
		if plan.sysErr {
			desc = strings.Replace(desc, "answers completely", "FAILS the call with SendSystemError(busy) instead of answering", 1)
		}
		if verdict != "" {
			verdict = desc + ": " + verdict
			if plan.sysErr && strings.Contains(verdict, "foreign data reported as success") {
				// known finding on the pinned tree: SendSystemError gives the request frame back and leaves the reader parsed into it
				verdict = "[c01:read-after-syserr] " + verdict
			} else {
				failures++
			}
		}
		if plan.sysErr {
			o.Hist("early: the handler fails the call (SendSystemError) and reads on")
		}
		o.Hist(fmt.Sprintf("early: respond at %d, %d frames", respondAt, frames1))
		o.Oracle("fragiowire_early", fmt.Sprintf("e%d", c), true,
			fmt.Sprint(c, w.pool.poison, respondAt, plan.pre, len2, len3, plan.readSize, plan.resLen, second, frames2), verdict)
	}
}
